import NimaVerif.Lemmas.FragNFParse
/-! One-line containers hold no layout marker: the second half of the exclusion of the spacing theorem
always holds for what `fromCst` builds. Core Lean only. -/
namespace Nima.Frag
open Nima

/-! ### a container written on one line holds no layout marker -/

def noLayout (ts : List Trivia) : Prop := ∀ t ∈ ts, t.isLayout = false

theorem noLayout_nil : noLayout [] := by intro t h; cases h
theorem noLayout_append {a b : List Trivia} : noLayout (a ++ b) ↔ noLayout a ∧ noLayout b := by
  constructor
  · intro h; exact ⟨fun t ht => h t (List.mem_append_left _ ht), fun t ht => h t (List.mem_append_right _ ht)⟩
  · rintro ⟨ha, hb⟩ t ht
    rcases List.mem_append.mp ht with h | h
    · exact ha t h
    · exact hb t h
theorem noLayout_comment (c : Comment) : noLayout [Trivia.comment c] := by
  intro t ht; simp at ht; subst ht; rfl

mutual
def Expr.noLayoutE : Expr → Prop
  | .leaf _ _ b a => noLayout b ∧ noLayout a
  | .list v _ inner b a => allNoLayout v ∧ noLayout inner ∧ noLayout b ∧ noLayout a
  | .set v _ _ inner b a => allNoLayout v ∧ noLayout inner ∧ noLayout b ∧ noLayout a
  | .binding _ v _ b a => v.noLayoutE ∧ noLayout b ∧ noLayout a
  | .paren _ _ _ _ _ b a => noLayout b ∧ noLayout a
  | .app _ _ _ _ b a => noLayout b ∧ noLayout a
  | .wth _ _ _ _ _ b a => noLayout b ∧ noLayout a
  | .asrt _ _ _ _ b a => noLayout b ∧ noLayout a
  | .sel _ _ _ _ b a => noLayout b ∧ noLayout a
  | .selOr _ _ _ _ _ _ _ b a => noLayout b ∧ noLayout a
  | .lam _ _ _ _ _ b a => noLayout b ∧ noLayout a
  | .un _ _ _ _ b a => noLayout b ∧ noLayout a
  | .bin _ _ _ _ _ b a => noLayout b ∧ noLayout a
  | .ite _ _ _ _ _ _ _ _ _ _ _ _ _ _ b a => noLayout b ∧ noLayout a
  | .has _ _ _ _ _ _ b a => noLayout b ∧ noLayout a
def allNoLayout : List Expr → Prop
  | [] => True
  | e :: rest => e.noLayoutE ∧ allNoLayout rest
end

theorem emptyLineOffsets_NL {g : Text} (h : gapHasEmptyLineOffsets g = true) : containsNL g = true := by
  rw [gapHasEmptyLineOffsets_eq_re] at h
  have := hasEmptyLineRe_count g h
  cases hc : containsNL g with
  | true => rfl
  | false =>
    have hn : '\n' ∉ g := (containsNL_false_iff g).mp hc
    have : g.count '\n' = 0 := List.count_eq_zero.mpr hn
    omega

theorem emptyLineOffsets_false {g : Text} (h : containsNL g = false) : gapHasEmptyLineOffsets g = false := by
  cases hg : gapHasEmptyLineOffsets g with
  | false => rfl
  | true => rw [emptyLineOffsets_NL hg] at h; cases h

theorem noLayoutE_before {e : Expr} (h : e.noLayoutE) : noLayout e.before := by
  cases e with
  | leaf k t b a => exact h.1
  | list v m inn b a => exact h.2.2.1
  | set v m r inn b a => exact h.2.2.1
  | binding n v g b a => exact h.2.1
  | paren v lg tg lb tb b a => exact h.1
  | app n x g fa b a => exact h.1
  | wth e bd c g s b a => exact h.1
  | asrt c bd x y b a => exact h.1
  | sel e ats g ab b a => exact h.1
  | selOr e ats g ab d dg db b a => exact h.1
  | lam n c g k bd b a => exact h.1
  | un o e g bt b a => exact h.1
  | bin o l r x y b a => exact h.1
  | ite c t e cg aic aig btc btg atc tg bec beg aec eg b a => exact h.1
  | has e ats lg rg bq aq b a => exact h.1
theorem noLayoutE_after {e : Expr} (h : e.noLayoutE) : noLayout e.after := by
  cases e with
  | leaf k t b a => exact h.2
  | list v m inn b a => exact h.2.2.2
  | set v m r inn b a => exact h.2.2.2
  | binding n v g b a => exact h.2.2
  | paren v lg tg lb tb b a => exact h.2
  | app n x g fa b a => exact h.2
  | wth e bd c g s b a => exact h.2
  | asrt c bd x y b a => exact h.2
  | sel e ats g ab b a => exact h.2
  | selOr e ats g ab d dg db b a => exact h.2
  | lam n c g k bd b a => exact h.2
  | un o e g bt b a => exact h.2
  | bin o l r x y b a => exact h.2
  | ite c t e cg aic aig btc btg atc tg bec beg aec eg b a => exact h.2
  | has e ats lg rg bq aq b a => exact h.2
theorem noLayoutE_setBefore {e : Expr} (h : e.noLayoutE) {b : List Trivia} (hb : noLayout b) : (e.setBefore b).noLayoutE := by
  cases e with
  | leaf k t b' a => exact ⟨hb, h.2⟩
  | list v m inn b' a => exact ⟨h.1, h.2.1, hb, h.2.2.2⟩
  | set v m r inn b' a => exact ⟨h.1, h.2.1, hb, h.2.2.2⟩
  | binding n v g b' a => exact ⟨h.1, hb, h.2.2⟩
  | paren v lg tg lb tb b' a => exact ⟨hb, h.2⟩
  | app n x g fa b' a => exact ⟨hb, h.2⟩
  | wth e bd c g s b' a => exact ⟨hb, h.2⟩
  | asrt c bd x y b' a => exact ⟨hb, h.2⟩
  | sel e ats g ab b' a => exact ⟨hb, h.2⟩
  | selOr e ats g ab d dg db b' a => exact ⟨hb, h.2⟩
  | lam n c g k bd b' a => exact ⟨hb, h.2⟩
  | un o e g bt b' a => exact ⟨hb, h.2⟩
  | bin o l r x y b' a => exact ⟨hb, h.2⟩
  | ite c t e cg aic aig btc btg atc tg bec beg aec eg b' a => exact ⟨hb, h.2⟩
  | has e ats lg rg bq aq b' a => exact ⟨hb, h.2⟩
theorem noLayoutE_addAfter {e : Expr} (h : e.noLayoutE) {a : List Trivia} (ha : noLayout a) : (e.addAfter a).noLayoutE := by
  have haa := noLayout_append.mpr ⟨noLayoutE_after h, ha⟩
  cases e with
  | leaf k t b a' => exact ⟨h.1, haa⟩
  | list v m inn b a' => exact ⟨h.1, h.2.1, h.2.2.1, haa⟩
  | set v m r inn b a' => exact ⟨h.1, h.2.1, h.2.2.1, haa⟩
  | binding n v g b a' => exact ⟨h.1, h.2.1, haa⟩
  | paren v lg tg lb tb b a' => exact ⟨h.1, haa⟩
  | app n x g fa b a' => exact ⟨h.1, haa⟩
  | wth e bd c g s b a' => exact ⟨h.1, haa⟩
  | asrt c bd x y b a' => exact ⟨h.1, haa⟩
  | sel e ats g ab b a' => exact ⟨h.1, haa⟩
  | selOr e ats g ab d dg db b a' => exact ⟨h.1, haa⟩
  | lam n c g k bd b a' => exact ⟨h.1, haa⟩
  | un o e g bt b a' => exact ⟨h.1, haa⟩
  | bin o l r x y b a' => exact ⟨h.1, haa⟩
  | ite c t e cg aic aig btc btg atc tg bec beg aec eg b a' => exact ⟨h.1, haa⟩
  | has e ats lg rg bq aq b a' => exact ⟨h.1, haa⟩

theorem allNoLayout_append : ∀ {a b : List Expr}, allNoLayout a → allNoLayout b → allNoLayout (a ++ b)
  | [], _, _, hb => hb
  | _ :: _, _, ha, hb => ⟨ha.1, allNoLayout_append ha.2 hb⟩
theorem modifyLast_noLayout : ∀ {items : List Expr} {ts : List Trivia}, allNoLayout items → noLayout ts →
    allNoLayout (modifyLast (fun e => e.addAfter ts) items)
  | [], _, _, _ => trivial
  | [e], _, h, ht => ⟨noLayoutE_addAfter h.1 ht, trivial⟩
  | e :: e' :: rest, _, h, ht => ⟨h.1, modifyLast_noLayout (items := e' :: rest) h.2 ht⟩

theorem pushGap_noNL (st : SeqSt) {g : Text} (h : containsNL g = false) : pushGap st g = st.before := by
  unfold pushGap; split
  · rfl
  · exact appendGap_noNL _ h _

theorem gcTrivia_noLayout : ∀ (cs : GC) (acc : List Trivia) (next : Text),
    containsNL (flattenGC cs ++ next) = false → noLayout acc → noLayout (gcTrivia acc cs)
  | [], acc, _, _, ha => ha
  | p :: rest, acc, next, hn, ha => by
    have hn' : containsNL (p.1 ++ (p.2 ++ (flattenGC rest ++ next))) = false := by
      simpa [flattenGC, List.append_assoc] using hn
    have h1 := containsNL_append_false hn'
    have h2 := containsNL_append_false h1.2
    rw [gcTrivia, appendGap_noNL _ h1.1]
    exact gcTrivia_noLayout rest _ next h2.2 (noLayout_append.mpr ⟨ha, noLayout_comment _⟩)

theorem binding_noLayout {n : Text} {c1 c2 c3 : GC} {g1 g2 g3 : Text} {ve b : Expr} {before : List Trivia}
    (hb : bindingFromCst n c1 c2 g2 ve c3 before = .ok b)
    (h1 : containsNL (flattenGC c1 ++ g1) = false) (h2 : containsNL (flattenGC c2 ++ g2) = false)
    (h3 : containsNL (flattenGC c3 ++ g3) = false) (hve : ve.noLayoutE) (hbf : noLayout before) : b.noLayoutE := by
  have l1 := gcTrivia_noLayout c1 [] g1 h1 noLayout_nil
  have l2 := gcTrivia_noLayout c2 _ g2 h2 l1
  have hg2 : containsNL g2 = false := (containsNL_append_false h2).2
  have hv1 : (ve.setBefore (appendGapTriviaOff (gcTrivia (gcTrivia [] c1) c2) g2 ++ ve.before)).noLayoutE := by
    rw [appendGap_noNL _ hg2]
    exact noLayoutE_setBefore hve (noLayout_append.mpr ⟨l2, noLayoutE_before hve⟩)
  unfold bindingFromCst at hb
  cases c3 with
  | nil =>
    simp only at hb
    split at hb
    · cases hb
    · injection hb with hb; subst hb
      exact ⟨noLayoutE_addAfter hv1 (by simpa [gcTrivia] using noLayout_nil), hbf, noLayout_nil⟩
    · cases hb
  | cons p rest =>
    simp only at hb
    have l3 := gcTrivia_noLayout (p :: rest) [] g3 h3 noLayout_nil
    have hp1 : containsNL p.1 = false := by
      have : containsNL (p.1 ++ (p.2 ++ (flattenGC rest ++ g3))) = false := by
        simpa [flattenGC, List.append_assoc] using h3
      exact (containsNL_append_false this).1
    have h3' : containsNL (flattenGC rest ++ g3) = false := by
      have : containsNL (p.1 ++ (p.2 ++ (flattenGC rest ++ g3))) = false := by
        simpa [flattenGC, List.append_assoc] using h3
      exact (containsNL_append_false (containsNL_append_false this).2).2
    simp only [hp1, Bool.not_false, if_true] at hb
    split at hb
    · cases hb
    · injection hb with hb; subst hb
      exact ⟨noLayoutE_addAfter (noLayoutE_addAfter hv1 (noLayout_comment _))
        (gcTrivia_noLayout rest [] g3 h3' noLayout_nil), hbf, noLayout_nil⟩
    · cases hb

theorem seqComment_noLayout (m : Mode) (st : SeqSt) {g : Text} (t : Text) (hg : containsNL g = false)
    (h : allNoLayout st.items ∧ noLayout st.before) :
    allNoLayout (seqComment m st g t).items ∧ noLayout (seqComment m st g t).before := by
  unfold seqComment
  rw [pushGap_noNL st hg]
  split
  · exact ⟨modifyLast_noLayout h.1 (noLayout_comment _), h.2⟩
  · exact ⟨h.1, noLayout_append.mpr ⟨h.2, noLayout_comment _⟩⟩

theorem finishSeq_noLayout (st : SeqSt) {cg : Text} (hcg : containsNL cg = false) (hc : Bool)
    (h : allNoLayout st.items ∧ noLayout st.before) :
    allNoLayout (finishSeq st (some cg) hc).1 ∧ noLayout (finishSeq st (some cg) hc).2 := by
  unfold finishSeq
  simp only [emptyLineOffsets_false hcg, Bool.and_false, Bool.false_eq_true, if_false]
  by_cases hb : st.before.isEmpty = true
  · simp only [hb, if_true]; exact ⟨h.1, noLayout_nil⟩
  · by_cases hi : st.items.isEmpty = true
    · simp only [hb, Bool.false_eq_true, if_false, hi, if_true]; exact ⟨trivial, h.2⟩
    · simp only [hb, Bool.false_eq_true, if_false, hi]; exact ⟨modifyLast_noLayout h.1 h.2, noLayout_nil⟩

theorem openBefore_noNL (its : Items) (cg : Text) (h : containsNL (its.flatten ++ cg) = false) : openBefore its = [] := by
  unfold openBefore
  cases hf : its.firstGap with
  | none => rfl
  | some g =>
    obtain ⟨tl, htl⟩ := firstGap_prefix its cg
    rw [hf, Option.getD_some] at htl
    rw [htl] at h
    simp only [emptyLineOffsets_false (containsNL_append_false h).1, Bool.false_eq_true, if_false]

theorem paren_parse_shape {its : Items} {cg : Text} {e : Expr} (hp : (Cst.paren its cg).parse = .ok e) :
    ∃ v lg tg lb tb, e = .paren v lg tg lb tb [] [] := by
  simp only [Cst.parse] at hp
  cases hps : its.parseSeq .paren {} with
  | error err => rw [hps] at hp; cases hp
  | ok st' =>
    rw [hps] at hp
    simp only at hp
    cases hr : (finishSeq st' none (!its.isNil)).1 with
    | nil => rw [hr] at hp; cases hp
    | cons v tl =>
      cases tl with
      | cons w tl' => rw [hr] at hp; cases hp
      | nil => rw [hr] at hp; injection hp with hp; exact ⟨_, _, _, _, _, hp.symm⟩

theorem app_parse_shape {f a : Cst} {cs : GC} {g : Text} {e : Expr} (hp : (Cst.app f cs g a).parse = .ok e) :
    ∃ n x g' fa, e = .app n x g' fa [] [] := by
  simp only [Cst.parse] at hp
  cases hpf : f.parse with
  | error err => rw [hpf] at hp; cases hp
  | ok fe =>
    rw [hpf] at hp
    cases hpa : a.parse with
    | error err => rw [hpa] at hp; cases hp
    | ok ae => rw [hpa] at hp; injection hp with hp; exact ⟨_, _, _, _, hp.symm⟩

mutual
theorem cst_noLayout : (c : Cst) → c.wf = true → containsNL c.flatten = false → ∀ (e : Expr), c.parse = .ok e →
    e.noLayoutE
  | .leaf k t, _, _, e, hp => by
    simp only [Cst.parse] at hp
    obtain ⟨k', t', rfl⟩ := leafFromCst_shape hp
    exact ⟨noLayout_nil, noLayout_nil⟩
  | .list its cg, hwf, hn, e, hp => by
    simp only [Cst.wf, Bool.and_eq_true] at hwf
    have hn' : containsNL (its.flatten ++ cg) = false := by
      have h1 : containsNL (['['] ++ ((its.flatten ++ cg) ++ [']'])) = false := by simpa [Cst.flatten] using hn
      exact (containsNL_append_false (containsNL_append_false h1).2).1
    simp only [Cst.parse] at hp
    rw [openBefore_noNL its cg hn'] at hp
    cases hps : its.parseSeq .list { before := [] } with
    | error err => rw [hps] at hp; cases hp
    | ok st' =>
      rw [hps] at hp; injection hp with hp; subst hp
      have hst := items_noLayout its .list cg _ st' hwf.1 hn' hps ⟨trivial, noLayout_nil⟩
      have hf := finishSeq_noLayout st' (containsNL_append_false hn').2 (!its.isNil) hst
      refine ⟨hf.1, ?_, noLayout_nil, noLayout_nil⟩
      unfold emptyInner
      simp only [emptyLineOffsets_false hn', Bool.false_eq_true, if_false]
      split
      · exact noLayout_nil
      · exact hf.2
  | .set isRec rg its cg, hwf, hn, e, hp => by
    simp only [Cst.wf, Bool.and_eq_true] at hwf
    have hn' : containsNL (its.flatten ++ cg) = false := by
      have h1 : containsNL ((if isRec = true then ['r', 'e', 'c'] ++ rg else []) ++ (['{'] ++ ((its.flatten ++ cg) ++ ['}']))) = false := by
        simpa [Cst.flatten] using hn
      exact (containsNL_append_false (containsNL_append_false (containsNL_append_false h1).2).2).1
    simp only [Cst.parse] at hp
    rw [openBefore_noNL its cg hn'] at hp
    cases hps : its.parseSeq .set { before := [] } with
    | error err => rw [hps] at hp; cases hp
    | ok st' =>
      rw [hps] at hp; injection hp with hp; subst hp
      have hst := items_noLayout its .set cg _ st' hwf.1.2 hn' hps ⟨trivial, noLayout_nil⟩
      have hf := finishSeq_noLayout st' (containsNL_append_false hn').2 (!its.isNil) hst
      refine ⟨hf.1, ?_, noLayout_nil, noLayout_nil⟩
      unfold emptyInner
      simp only [emptyLineOffsets_false hn', Bool.false_eq_true, if_false]
      split
      · exact noLayout_nil
      · exact hf.2
  | .paren its cg, _, _, e, hp => by
    obtain ⟨v, lg, tg, lb, tb, rfl⟩ := paren_parse_shape hp
    exact ⟨noLayout_nil, noLayout_nil⟩
  | .app f cs g a, _, _, e, hp => by
    obtain ⟨n, x, g', fa, rfl⟩ := app_parse_shape hp
    exact ⟨noLayout_nil, noLayout_nil⟩
  | .kw w c1 g1 h c2 g2 c3 g3 b, hwf, _, e, hp => by
    obtain ⟨e', hpe, _, heb, hea, _⟩ := cst_parse_spec false (.kw w c1 g1 h c2 g2 c3 g3 b) hwf (fun h => by cases h)
    rw [hp] at hpe; injection hpe with hpe; subst hpe
    cases e with
    | wth e bd c g s b' a' => simp only [Expr.before] at heb; simp only [Expr.after] at hea; subst heb; subst hea; exact ⟨noLayout_nil, noLayout_nil⟩
    | asrt c bd x y b' a' => simp only [Expr.before] at heb; simp only [Expr.after] at hea; subst heb; subst hea; exact ⟨noLayout_nil, noLayout_nil⟩
    | leaf k t b' a' => simp only [Expr.before] at heb; simp only [Expr.after] at hea; subst heb; subst hea; exact ⟨noLayout_nil, noLayout_nil⟩
    | paren v lg tg lb tb b' a' => simp only [Expr.before] at heb; simp only [Expr.after] at hea; subst heb; subst hea; exact ⟨noLayout_nil, noLayout_nil⟩
    | app n x g' fa b' a' => simp only [Expr.before] at heb; simp only [Expr.after] at hea; subst heb; subst hea; exact ⟨noLayout_nil, noLayout_nil⟩
    | sel ee ats g' ab b' a' => simp only [Expr.before] at heb; simp only [Expr.after] at hea; subst heb; subst hea; exact ⟨noLayout_nil, noLayout_nil⟩
    | selOr ee ats g' ab d dg db b' a' => simp only [Expr.before] at heb; simp only [Expr.after] at hea; subst heb; subst hea; exact ⟨noLayout_nil, noLayout_nil⟩
    | lam nn cc g' kk bd b' a' => simp only [Expr.before] at heb; simp only [Expr.after] at hea; subst heb; subst hea; exact ⟨noLayout_nil, noLayout_nil⟩
    | un oo ee g' bt b' a' => simp only [Expr.before] at heb; simp only [Expr.after] at hea; subst heb; subst hea; exact ⟨noLayout_nil, noLayout_nil⟩
    | bin oo ll rr xx yy b' a' => simp only [Expr.before] at heb; simp only [Expr.after] at hea; subst heb; subst hea; exact ⟨noLayout_nil, noLayout_nil⟩
    | ite cc tt ee2 cg aic aig btc btg atc tg bec beg aec eg b' a' => simp only [Expr.before] at heb; simp only [Expr.after] at hea; subst heb; subst hea; exact ⟨noLayout_nil, noLayout_nil⟩
    | has ee2 ats lg rg bq aq b' a' => simp only [Expr.before] at heb; simp only [Expr.after] at hea; subst heb; subst hea; exact ⟨noLayout_nil, noLayout_nil⟩
    | list v m inn b' a' => simp only [Cst.parse] at hp; (repeat' split at hp) <;> first | cases hp | (injection hp with hp; (try split at hp) <;> cases hp)
    | set v m r inn b' a' => simp only [Cst.parse] at hp; (repeat' split at hp) <;> first | cases hp | (injection hp with hp; (try split at hp) <;> cases hp)
    | binding n v g' b' a' => simp only [Cst.parse] at hp; (repeat' split at hp) <;> first | cases hp | (injection hp with hp; (try split at hp) <;> cases hp)
  | .sel e c1 g1 gd attrs, _, _, ex, hp => by
    simp only [Cst.parse] at hp
    cases hpe : e.parse with
    | error err => rw [hpe] at hp; cases hp
    | ok ee => rw [hpe] at hp; injection hp with hp; subst hp; exact ⟨noLayout_nil, noLayout_nil⟩
  | .selOr e c1 g1 gd attrs c2 g2 g3 d, _, _, ex, hp => by
    simp only [Cst.parse] at hp
    cases hpe : e.parse with
    | error err => rw [hpe] at hp; cases hp
    | ok ee =>
      rw [hpe] at hp
      cases hpd : d.parse with
      | error err => rw [hpd] at hp; cases hp
      | ok de => rw [hpd] at hp; injection hp with hp; subst hp; exact ⟨noLayout_nil, noLayout_nil⟩
  | .lam n c1 g1 c2 g2 b, _, _, ex, hp => by
    simp only [Cst.parse] at hp
    cases hpb : b.parse with
    | error err => rw [hpb] at hp; cases hp
    | ok be => rw [hpb] at hp; injection hp with hp; subst hp; exact ⟨noLayout_nil, noLayout_nil⟩
  | .un op c g e, _, _, ex, hp => by
    simp only [Cst.parse] at hp
    cases hpe : e.parse with
    | error err => rw [hpe] at hp; cases hp
    | ok ee => rw [hpe] at hp; injection hp with hp; subst hp; exact ⟨noLayout_nil, noLayout_nil⟩
  | .bin l c1 g1 op c2 g2 r, _, _, ex, hp => by
    simp only [Cst.parse] at hp
    cases hpl : l.parse with
    | error err => rw [hpl] at hp; cases hp
    | ok le =>
      rw [hpl] at hp
      cases hpr : r.parse with
      | error err => rw [hpr] at hp; cases hp
      | ok re => rw [hpr] at hp; injection hp with hp; subst hp; exact ⟨noLayout_nil, noLayout_nil⟩
  | .ite c1 g1 c c2 g2 c3 g3 t c4 g4 c5 g5 e, _, _, ex, hp => by
    simp only [Cst.parse] at hp
    cases hpt : t.parse with
    | error err => rw [hpt] at hp; cases hp
    | ok te =>
      rw [hpt] at hp
      cases hpe : e.parse with
      | error err => rw [hpe] at hp; cases hp
      | ok ee =>
        rw [hpe] at hp
        cases hpc : c.parse with
        | error err => rw [hpc] at hp; cases hp
        | ok ce => rw [hpc] at hp; injection hp with hp; subst hp; exact ⟨noLayout_nil, noLayout_nil⟩
  | .has e c1 g1 c2 g2 attrs, _, _, ex, hp => by
    simp only [Cst.parse] at hp
    cases hpe : e.parse with
    | error err => rw [hpe] at hp; cases hp
    | ok ee => rw [hpe] at hp; injection hp with hp; subst hp; exact ⟨noLayout_nil, noLayout_nil⟩
theorem items_noLayout : (its : Items) → ∀ (m : Mode) (cg : Text) (st st' : SeqSt), its.wf m cg = true →
    containsNL (its.flatten ++ cg) = false → its.parseSeq m st = .ok st' →
    allNoLayout st.items ∧ noLayout st.before → allNoLayout st'.items ∧ noLayout st'.before
  | .nil, m, cg, st, st', _, _, hp, h => by
    simp only [Items.parseSeq] at hp; injection hp with hp; subst hp; exact h
  | .cmt g t rest, m, cg, st, st', hwf, hn, hp, h => by
    simp only [Items.wf, Bool.and_eq_true] at hwf
    simp only [Items.flatten, List.append_assoc] at hn
    have h1 := containsNL_append_false hn
    have h2 := (containsNL_append_false h1.2).2
    simp only [Items.parseSeq] at hp
    exact items_noLayout rest m cg _ st' hwf.2 h2 hp (seqComment_noLayout m st t h1.1 h)
  | .elem g c rest, m, cg, st, st', hwf, hn, hp, h => by
    simp only [Items.wf, Bool.and_eq_true] at hwf
    simp only [Items.flatten, List.append_assoc] at hn
    have h1 := containsNL_append_false hn
    have h2 := containsNL_append_false h1.2
    simp only [Items.parseSeq] at hp
    cases hpe : c.parse with
    | error err => rw [hpe] at hp; cases hp
    | ok e =>
      rw [hpe] at hp
      have he := cst_noLayout c hwf.1.2 h2.1 e hpe
      rw [pushGap_noNL st h1.1] at hp
      cases m with
      | set => cases hp
      | file =>
        simp only at hp
        exact items_noLayout rest .file cg _ st' hwf.2 h2.2 hp
          ⟨allNoLayout_append h.1 ⟨noLayoutE_setBefore he (noLayout_append.mpr ⟨h.2, noLayoutE_before he⟩), trivial⟩,
            noLayout_nil⟩
      | paren =>
        simp only at hp
        exact items_noLayout rest .paren cg _ st' hwf.2 h2.2 hp
          ⟨allNoLayout_append h.1 ⟨noLayoutE_setBefore he (noLayout_append.mpr ⟨h.2, noLayoutE_before he⟩), trivial⟩,
            noLayout_nil⟩
      | list =>
        simp only at hp
        exact items_noLayout rest .list cg _ st' hwf.2 h2.2 hp
          ⟨allNoLayout_append h.1 ⟨noLayoutE_setBefore he h.2, trivial⟩, noLayout_nil⟩
  | .bind g n c1 g1 c2 g2 v c3 g3 rest, m, cg, st, st', hwf, hn, hp, h => by
    simp only [Items.wf, Bool.and_eq_true, beq_iff_eq] at hwf
    obtain ⟨⟨⟨⟨⟨⟨⟨⟨⟨⟨hm, _⟩, _⟩, _⟩, _⟩, _⟩, _⟩, hv⟩, _⟩, _⟩, hrest⟩ := hwf
    subst hm
    have hn' : containsNL (g ++ (n ++ ((flattenGC c1 ++ g1) ++ (['='] ++ ((flattenGC c2 ++ g2) ++ (v.flatten ++
        ((flattenGC c3 ++ g3) ++ ([';'] ++ (rest.flatten ++ cg))))))))) = false := by
      simpa [Items.flatten, List.append_assoc] using hn
    have a0 := containsNL_append_false hn'
    have a1 := (containsNL_append_false a0.2).2
    have a2 := containsNL_append_false a1
    have a3 := containsNL_append_false (containsNL_append_false a2.2).2
    have a4 := containsNL_append_false a3.2
    have a5 := containsNL_append_false a4.2
    have a6 := (containsNL_append_false a5.2).2
    simp only [Items.parseSeq] at hp
    cases hpv : v.parse with
    | error err => rw [hpv] at hp; cases hp
    | ok ve =>
      rw [hpv] at hp; simp only at hp
      have hve := cst_noLayout v hv a4.1 ve hpv
      rw [pushGap_noNL st a0.1] at hp
      cases hb : bindingFromCst n c1 c2 g2 ve c3 st.before with
      | error err => rw [hb] at hp; cases hp
      | ok b =>
        rw [hb] at hp; simp only at hp
        have hbn := binding_noLayout (g1 := g1) (g3 := g3) hb a2.1 a3.1 a5.1 hve h.2
        exact items_noLayout rest .set cg _ st' hrest a6 hp ⟨allNoLayout_append h.1 ⟨hbn, trivial⟩, noLayout_nil⟩
end

theorem closedT_of_noLayout {ts : List Trivia} (hok : TrivOk ts) (h : noLayout ts) : closedT ts := by
  by_cases hne : ts = []
  · exact Or.inl hne
  · rcases last_cases ts hok hne with ⟨c, hc⟩ | ⟨t, ht, hl⟩
    · exact Or.inr ⟨c, hc⟩
    · have := h t (List.mem_of_getLast? ht)
      rw [this] at hl; cases hl

theorem noLayoutE_effAfter {e : Expr} (h : e.noLayoutE) : noLayout (e.effAfter false) := by
  cases e with
  | leaf k t b a => exact h.2
  | list v m inn b a => exact h.2.2.2
  | set v m r inn b a => exact h.2.2.2
  | binding n v g b a =>
    show noLayout (v.after ++ a)
    exact noLayout_append.mpr ⟨noLayoutE_after h.1, h.2.2⟩
  | paren v lg tg lb tb b a => exact h.2
  | app n x g fa b a => exact h.2
  | wth e bd c g s b a => exact h.2
  | asrt c bd x y b a => exact h.2
  | sel e ats g ab b a => exact h.2
  | selOr e ats g ab d dg db b a => exact h.2
  | lam n c g k bd b a => exact h.2
  | un o e g bt b a => exact h.2
  | bin o l r x y b a => exact h.2
  | ite c t e cg aic aig btc btg atc tg bec beg aec eg b a => exact h.2
  | has e ats lg rg bq aq b a => exact h.2

theorem ok_effAfter {e : Expr} (h : e.ok) : TrivOk (e.effAfter false) := by
  cases e with
  | leaf k t b a => exact h.2.2
  | list v m inn b a => exact h.2.2.2
  | set v m r inn b a => exact h.2.2.2
  | binding n v g b a =>
    show TrivOk (v.after ++ a)
    exact trivOk_append (ok_after h.2.1) h.2.2.2
  | paren v lg tg lb tb b a => exact h.2.2
  | app n x g fa b a => exact h.2.2.2.2
  | wth e bd c g s b a => exact h.2.2.2.2.2
  | asrt c bd x y b a => exact h.2.2.2.2.2
  | sel e ats g ab b a => exact h.2.2.2.2.2
  | selOr e ats g ab d dg db b a => exact h.2.2.2.2.2.2.2
  | lam n c g k bd b a => exact h.2.2.2.2
  | un o e g bt b a => exact h.2.2.2.2
  | bin o l r x y b a => exact h.2.2.2.2
  | ite c t e cg aic aig btc btg atc tg bec beg aec eg b a => exact h.2.2.2.2.2.2.2.2.2
  | has e ats lg rg bq aq b a => exact h.2.2.2.2.2.2

theorem allClosed_of_noLayout : ∀ {es : List Expr}, allOk es → allNoLayout es → allClosed es
  | [], _, _ => trivial
  | e :: rest, hok, hn => ⟨closedT_of_noLayout (ok_effAfter hok.1) (noLayoutE_effAfter hn.1), allClosed_of_noLayout hok.2 hn.2⟩

mutual
/-- in every container written on one line, every item's trailing trivia is closed -/
def Expr.flatClosed : Expr → Prop
  | .leaf .. => True
  | .list v ml _ _ _ => (ml = false → allClosed v) ∧ allFlatClosed v
  | .set v ml _ _ _ _ => (ml = false → allClosed v) ∧ allFlatClosed v
  | .binding _ v _ _ _ => v.flatClosed
  | .paren v _ _ _ _ _ _ => v.flatClosed
  | .app n x _ _ _ _ => n.flatClosed ∧ x.flatClosed
  | .wth env body _ _ _ _ _ => env.flatClosed ∧ body.flatClosed
  | .asrt .. => True
  | .sel e _ _ _ _ _ => e.flatClosed
  | .selOr e _ _ _ d _ _ _ _ => e.flatClosed ∧ d.flatClosed
  | .lam _ _ _ _ body _ _ => body.flatClosed
  | .un _ e _ _ _ _ => e.flatClosed
  | .bin _ l r _ _ _ _ => l.flatClosed ∧ r.flatClosed
  | .ite c t e _ _ _ _ _ _ _ _ _ _ _ _ _ => c.flatClosed ∧ t.flatClosed ∧ e.flatClosed
  | .has e _ _ _ _ _ _ _ => e.flatClosed
def allFlatClosed : List Expr → Prop
  | [] => True
  | e :: rest => e.flatClosed ∧ allFlatClosed rest
end

theorem flatClosed_setBefore {e : Expr} (h : e.flatClosed) (b : List Trivia) : (e.setBefore b).flatClosed := by
  cases e <;> exact h
theorem flatClosed_addAfter {e : Expr} (h : e.flatClosed) (a : List Trivia) : (e.addAfter a).flatClosed := by
  cases e <;> exact h
theorem allFlatClosed_append : ∀ {a b : List Expr}, allFlatClosed a → allFlatClosed b → allFlatClosed (a ++ b)
  | [], _, _, hb => hb
  | _ :: _, _, ha, hb => ⟨ha.1, allFlatClosed_append ha.2 hb⟩
theorem modifyLast_flatClosed (ts : List Trivia) : ∀ {items : List Expr}, allFlatClosed items →
    allFlatClosed (modifyLast (fun e => e.addAfter ts) items)
  | [], _ => trivial
  | [e], h => ⟨flatClosed_addAfter h.1 ts, trivial⟩
  | e :: e' :: rest, h => ⟨h.1, modifyLast_flatClosed ts (items := e' :: rest) h.2⟩

theorem finishSeq_flatClosed (st : SeqSt) (cgo : Option Text) (hc : Bool) (h : allFlatClosed st.items) :
    allFlatClosed (finishSeq st cgo hc).1 := by
  have stage1 : ∃ items inner, (if st.before.isEmpty then (st.items, []) else if st.items.isEmpty then ([], st.before)
        else (modifyLast (fun e => e.addAfter st.before) st.items, [])) = ((items, inner) : List Expr × List Trivia) ∧
      allFlatClosed items := by
    by_cases hb : st.before.isEmpty = true
    · exact ⟨st.items, [], by rw [if_pos hb], h⟩
    · by_cases hi : st.items.isEmpty = true
      · exact ⟨[], st.before, by rw [if_neg hb, if_pos hi], trivial⟩
      · exact ⟨_, [], by rw [if_neg hb, if_neg hi], modifyLast_flatClosed _ h⟩
  obtain ⟨items, inner, he, h1⟩ := stage1
  unfold finishSeq
  simp only [he]
  cases cgo with
  | none => exact h1
  | some cg =>
    simp only
    split
    · split
      · exact h1
      · exact modifyLast_flatClosed _ h1
    · exact h1

theorem binding_flatClosed {n : Text} {c1 c2 c3 : GC} {g2 : Text} {ve b : Expr} {before : List Trivia}
    (hb : bindingFromCst n c1 c2 g2 ve c3 before = .ok b) (hve : ve.flatClosed) : b.flatClosed := by
  unfold bindingFromCst at hb
  have h1 := flatClosed_setBefore hve (appendGapTriviaOff (gcTrivia (gcTrivia [] c1) c2) g2 ++ ve.before)
  cases c3 with
  | nil =>
    simp only at hb
    split at hb
    · cases hb
    · injection hb with hb; subst hb; exact flatClosed_addAfter h1 _
    · cases hb
  | cons p rest =>
    simp only at hb
    split at hb
    · cases hb
    · injection hb with hb; subst hb
      split
      · exact flatClosed_addAfter (flatClosed_addAfter h1 _) _
      · exact flatClosed_addAfter h1 _
    · cases hb

mutual
theorem cst_flat : (c : Cst) → c.wf = true → ∀ (e : Expr), c.parse = .ok e → e.flatClosed
  | .leaf k t, _, e, hp => by
    simp only [Cst.parse] at hp
    obtain ⟨k', t', rfl⟩ := leafFromCst_shape hp
    trivial
  | .list its cg, hwf, e, hp => by
    have hwf0 := hwf
    have hp0 := hp
    simp only [Cst.wf, Bool.and_eq_true] at hwf
    simp only [Cst.parse] at hp
    cases hps : its.parseSeq .list { before := openBefore its } with
    | error err => rw [hps] at hp; cases hp
    | ok st' =>
      rw [hps] at hp; injection hp with hp; subst hp
      have hst := items_flat its .list cg _ st' hwf.1 hps trivial
      refine ⟨fun hml => ?_, finishSeq_flatClosed st' _ _ hst⟩
      obtain ⟨e', hpe, hok, _⟩ := cst_parse_spec false (.list its cg) hwf0 (fun h => by cases h)
      rw [hp0] at hpe; injection hpe with hpe; subst hpe
      have hnl := cst_noLayout (.list its cg) hwf0 (by simpa [Cst.flatten] using hml) _ hp0
      exact allClosed_of_noLayout hok.1 hnl.1
  | .set isRec rg its cg, hwf, e, hp => by
    have hwf0 := hwf
    have hp0 := hp
    simp only [Cst.wf, Bool.and_eq_true] at hwf
    simp only [Cst.parse] at hp
    cases hps : its.parseSeq .set { before := openBefore its } with
    | error err => rw [hps] at hp; cases hp
    | ok st' =>
      rw [hps] at hp; injection hp with hp; subst hp
      have hst := items_flat its .set cg _ st' hwf.1.2 hps trivial
      refine ⟨fun hml => ?_, finishSeq_flatClosed st' _ _ hst⟩
      obtain ⟨e', hpe, hok, _⟩ := cst_parse_spec false (.set isRec rg its cg) hwf0 (fun h => by cases h)
      rw [hp0] at hpe; injection hpe with hpe; subst hpe
      have hnl := cst_noLayout (.set isRec rg its cg) hwf0 (by simpa using hml) _ hp0
      exact allClosed_of_noLayout hok.1 hnl.1
  | .paren its cg, hwf, e, hp => by
    simp only [Cst.wf, Bool.and_eq_true, beq_iff_eq] at hwf
    simp only [Cst.parse] at hp
    cases hps : its.parseSeq .paren {} with
    | error err => rw [hps] at hp; cases hp
    | ok st' =>
      rw [hps] at hp
      simp only at hp
      have hst := items_flat its .paren cg {} st' hwf.1.1 hps trivial
      have hf := finishSeq_flatClosed st' none (!its.isNil) hst
      cases hr : (finishSeq st' none (!its.isNil)).1 with
      | nil => rw [hr] at hp; cases hp
      | cons v tl =>
        cases tl with
        | cons w tl' => rw [hr] at hp; cases hp
        | nil =>
          rw [hr] at hp hf
          injection hp with hp; subst hp
          exact hf.1
  | .app f cs g a, hwf, e, hp => by
    simp only [Cst.wf, Bool.and_eq_true] at hwf
    obtain ⟨⟨⟨hfw, _⟩, _⟩, haw⟩ := hwf
    simp only [Cst.parse] at hp
    cases hpf : f.parse with
    | error err => rw [hpf] at hp; cases hp
    | ok fe =>
      rw [hpf] at hp
      cases hpa : a.parse with
      | error err => rw [hpa] at hp; cases hp
      | ok ae =>
        rw [hpa] at hp; injection hp with hp; subst hp
        exact ⟨cst_flat f hfw fe hpf, flatClosed_setBefore (cst_flat a haw ae hpa) _⟩
  | .kw w c1 g1 h c2 g2 c3 g3 b, hwf, e, hp => by
    simp only [Cst.wf, Bool.and_eq_true, List.isEmpty_iff] at hwf
    obtain ⟨⟨⟨⟨⟨⟨⟨hc1, _⟩, hhw⟩, hc2⟩, _⟩, hc3⟩, _⟩, hbw⟩ := hwf
    subst hc1; subst hc2; subst hc3
    simp only [Cst.parse] at hp
    cases hph : h.parse with
    | error err => rw [hph] at hp; cases hp
    | ok he =>
      rw [hph] at hp
      cases hpb : b.parse with
      | error err => rw [hpb] at hp; cases hp
      | ok be =>
        rw [hpb] at hp; injection hp with hp; subst hp
        split
        · rw [withFromCst_shape]
          refine ⟨cst_flat h hhw he hph, ?_⟩
          split
          · exact cst_flat b hbw be hpb
          · exact flatClosed_setBefore (cst_flat b hbw be hpb) _
        · unfold asrtFromCst; trivial
  | .sel e c1 g1 gd attrs, hwf, ex, hp => by
    simp only [Cst.wf, Bool.and_eq_true] at hwf
    simp only [Cst.parse] at hp
    cases hpe : e.parse with
    | error err => rw [hpe] at hp; cases hp
    | ok ee => rw [hpe] at hp; injection hp with hp; subst hp; exact cst_flat e hwf.1.1.1.1.1 ee hpe
  | .selOr e c1 g1 gd attrs c2 g2 g3 d, hwf, ex, hp => by
    simp only [Cst.wf, Bool.and_eq_true] at hwf
    simp only [Cst.parse] at hp
    cases hpe : e.parse with
    | error err => rw [hpe] at hp; cases hp
    | ok ee =>
      rw [hpe] at hp
      cases hpd : d.parse with
      | error err => rw [hpd] at hp; cases hp
      | ok de =>
        rw [hpd] at hp; injection hp with hp; subst hp
        exact ⟨cst_flat e hwf.1.1.1.1.1.1.1.1.1 ee hpe, cst_flat d hwf.2 de hpd⟩
  | .lam n c1 g1 c2 g2 b, hwf, ex, hp => by
    simp only [Cst.wf, Bool.and_eq_true] at hwf
    simp only [Cst.parse] at hp
    cases hpb : b.parse with
    | error err => rw [hpb] at hp; cases hp
    | ok be =>
      rw [hpb] at hp; injection hp with hp; subst hp
      unfold lamFromCst
      show Expr.flatClosed (if _ then be else _)
      split
      · exact cst_flat b hwf.2 be hpb
      · exact flatClosed_setBefore (cst_flat b hwf.2 be hpb) _
  | .un op c g e, hwf, ex, hp => by
    simp only [Cst.wf, Bool.and_eq_true] at hwf
    simp only [Cst.parse] at hp
    cases hpe : e.parse with
    | error err => rw [hpe] at hp; cases hp
    | ok ee => rw [hpe] at hp; injection hp with hp; subst hp; exact cst_flat e hwf.2 ee hpe
  | .bin l c1 g1 op c2 g2 r, hwf, ex, hp => by
    simp only [Cst.wf, Bool.and_eq_true] at hwf
    simp only [Cst.parse] at hp
    cases hpl : l.parse with
    | error err => rw [hpl] at hp; cases hp
    | ok le =>
      rw [hpl] at hp
      cases hpr : r.parse with
      | error err => rw [hpr] at hp; cases hp
      | ok re =>
        rw [hpr] at hp; injection hp with hp; subst hp
        exact ⟨cst_flat l hwf.1.1.1.1.1.1.1 le hpl, cst_flat r hwf.2 re hpr⟩
  | .ite c1 g1 c c2 g2 c3 g3 t c4 g4 c5 g5 e, hwf, ex, hp => by
    obtain ⟨⟨h1, h2, h3, h4, h5⟩, ⟨hcw, htw, hew⟩, _⟩ := ite_wf hwf
    subst h1; subst h2; subst h3; subst h4; subst h5
    simp only [Cst.parse] at hp
    cases hpt : t.parse with
    | error err => rw [hpt] at hp; cases hp
    | ok te =>
      rw [hpt] at hp
      cases hpe : e.parse with
      | error err => rw [hpe] at hp; cases hp
      | ok ee =>
        rw [hpe] at hp
        cases hpc : c.parse with
        | error err => rw [hpc] at hp; cases hp
        | ok ce =>
          rw [hpc] at hp; injection hp with hp; subst hp
          rw [iteFromCst_nil]
          exact ⟨cst_flat c hcw ce hpc, cst_flat t htw te hpt, cst_flat e hew ee hpe⟩
  | .has e c1 g1 c2 g2 attrs, hwf, ex, hp => by
    obtain ⟨_, hew, _⟩ := has_wf hwf
    simp only [Cst.parse] at hp
    cases hpe : e.parse with
    | error err => rw [hpe] at hp; cases hp
    | ok ee => rw [hpe] at hp; injection hp with hp; subst hp; exact cst_flat e hew ee hpe
theorem items_flat : (its : Items) → ∀ (m : Mode) (cg : Text) (st st' : SeqSt), its.wf m cg = true →
    its.parseSeq m st = .ok st' → allFlatClosed st.items → allFlatClosed st'.items
  | .nil, m, cg, st, st', _, hp, h => by
    simp only [Items.parseSeq] at hp; injection hp with hp; subst hp; exact h
  | .cmt g t rest, m, cg, st, st', hwf, hp, h => by
    simp only [Items.wf, Bool.and_eq_true] at hwf
    simp only [Items.parseSeq] at hp
    refine items_flat rest m cg _ st' hwf.2 hp ?_
    unfold seqComment; split
    · exact modifyLast_flatClosed _ h
    · exact h
  | .elem g c rest, m, cg, st, st', hwf, hp, h => by
    simp only [Items.wf, Bool.and_eq_true] at hwf
    simp only [Items.parseSeq] at hp
    cases hpe : c.parse with
    | error err => rw [hpe] at hp; cases hp
    | ok e =>
      rw [hpe] at hp
      have he := cst_flat c hwf.1.2 e hpe
      cases m with
      | set => cases hp
      | file =>
        simp only at hp
        exact items_flat rest .file cg _ st' hwf.2 hp (allFlatClosed_append h ⟨flatClosed_setBefore he _, trivial⟩)
      | paren =>
        simp only at hp
        exact items_flat rest .paren cg _ st' hwf.2 hp (allFlatClosed_append h ⟨flatClosed_setBefore he _, trivial⟩)
      | list =>
        simp only at hp
        exact items_flat rest .list cg _ st' hwf.2 hp (allFlatClosed_append h ⟨flatClosed_setBefore he _, trivial⟩)
  | .bind g n c1 g1 c2 g2 v c3 g3 rest, m, cg, st, st', hwf, hp, h => by
    simp only [Items.wf, Bool.and_eq_true, beq_iff_eq] at hwf
    obtain ⟨⟨⟨⟨⟨⟨⟨⟨⟨⟨hm, _⟩, _⟩, _⟩, _⟩, _⟩, _⟩, hv⟩, _⟩, _⟩, hrest⟩ := hwf
    subst hm
    simp only [Items.parseSeq] at hp
    cases hpv : v.parse with
    | error err => rw [hpv] at hp; cases hp
    | ok ve =>
      rw [hpv] at hp; simp only at hp
      have hve := cst_flat v hv ve hpv
      cases hb : bindingFromCst n c1 c2 g2 ve c3 (pushGap st g) with
      | error err => rw [hb] at hp; cases hp
      | ok b =>
        rw [hb] at hp; simp only at hp
        exact items_flat rest .set cg _ st' hrest hp (allFlatClosed_append h ⟨binding_flatClosed hb hve, trivial⟩)
end

theorem allFlat_of : ∀ {es : List Expr}, allBeforeEmpty es = true → allClosed es → allFlat es
  | [], _, _ => trivial
  | x :: r, h, hc => by
    simp only [allBeforeEmpty, Bool.and_eq_true, List.isEmpty_iff] at h
    exact ⟨h.1, hc.1, allFlat_of h.2 hc.2⟩

mutual
theorem inlineClean_of_flat : (e : Expr) → e.beforeFlatB = true → e.flatClosed → e.inlineClean
  | .leaf .., _, _ => trivial
  | .list v ml _ _ _, h, hf => by
    simp only [Expr.beforeFlatB, Bool.and_eq_true, Bool.or_eq_true] at h
    refine ⟨fun hml => ?_, allInlineClean_of_flat v h.2 hf.2⟩
    rcases h.1 with h1 | h1
    · rw [hml] at h1; cases h1
    · exact allFlat_of h1 (hf.1 hml)
  | .set v ml _ _ _ _, h, hf => by
    simp only [Expr.beforeFlatB, Bool.and_eq_true, Bool.or_eq_true] at h
    refine ⟨fun hml => ?_, allInlineClean_of_flat v h.2 hf.2⟩
    rcases h.1 with h1 | h1
    · rw [hml] at h1; cases h1
    · exact allFlat_of h1 (hf.1 hml)
  | .binding _ v _ _ _, h, hf => inlineClean_of_flat v h hf
  | .paren v lg _ _ _ _ _, h, hf => by
    simp only [Expr.beforeFlatB, Bool.and_eq_true, Bool.or_eq_true, List.isEmpty_iff] at h
    refine ⟨fun hon => ?_, inlineClean_of_flat v h.2 hf⟩
    rcases h.1 with h1 | h1
    · rw [hon] at h1; cases h1
    · exact h1
  | .app n x g _ _ _, h, hf => by
    simp only [Expr.beforeFlatB, Bool.and_eq_true, Bool.or_eq_true, List.isEmpty_iff] at h
    refine ⟨fun hon => ?_, inlineClean_of_flat n h.1.2 hf.1, inlineClean_of_flat x h.2 hf.2⟩
    rcases h.1.1 with h1 | h1
    · rw [hon] at h1; cases h1
    · exact h1
  | .wth env body _ _ _ _ _, h, hf => by
    simp only [Expr.beforeFlatB, Bool.and_eq_true] at h
    exact ⟨inlineClean_of_flat env h.1 hf.1, inlineClean_of_flat body h.2 hf.2⟩
  | .asrt .., h, _ => by simp [Expr.beforeFlatB] at h
  | .sel e _ _ _ _ _, h, hf => inlineClean_of_flat e h hf
  | .selOr e _ _ _ d _ _ _ _, h, hf => by
    simp only [Expr.beforeFlatB, Bool.and_eq_true] at h
    exact ⟨inlineClean_of_flat e h.1 hf.1, inlineClean_of_flat d h.2 hf.2⟩
  | .lam _ _ _ _ body _ _, h, hf => inlineClean_of_flat body h hf
  | .un _ e _ _ _ _, h, hf => inlineClean_of_flat e h hf
  | .bin _ l r ogl rgl _ _, h, hf => by
    simp only [Expr.beforeFlatB, Bool.and_eq_true, decide_eq_true_eq] at h
    exact ⟨h.1.1.1, h.1.1.2, inlineClean_of_flat l h.1.2 hf.1, inlineClean_of_flat r h.2 hf.2⟩
  | .ite c t e _ _ _ _ _ _ _ _ _ _ _ _ _, h, hf => by
    simp only [Expr.beforeFlatB, Bool.and_eq_true] at h
    exact ⟨inlineClean_of_flat c h.1.1 hf.1, inlineClean_of_flat t h.1.2 hf.2.1, inlineClean_of_flat e h.2 hf.2.2⟩
  | .has e _ _ _ _ _ _ _, h, hf => inlineClean_of_flat e h hf
theorem allInlineClean_of_flat : (es : List Expr) → allBeforeFlatB es = true → allFlatClosed es → allInlineClean es
  | [], _, _ => trivial
  | e :: rest, h, hf => by
    simp only [allBeforeFlatB, Bool.and_eq_true] at h
    exact ⟨inlineClean_of_flat e h.1 hf.1, allInlineClean_of_flat rest h.2 hf.2⟩
end

/-- SPACING NORMAL FORM of the whole round trip, with the exclusion in its final form -/
theorem file_nf_flat (f : File) (s : Src) (hwf : f.wf = true) (hbasic : f.basic = true) (hp : f.parse = .ok s)
    (hclean : s.beforeFlatB = true) : (summ s.rebuildP).fileOk = true := by
  refine file_nf f s hwf hbasic hp ?_
  have hwf' := hwf
  simp only [File.wf, Bool.and_eq_true, decide_eq_true_eq] at hwf'
  have hp0 := hp
  simp only [File.parse] at hp
  cases hps : f.items.parseSeq .file {} with
  | error err => rw [hps] at hp; cases hp
  | ok st' =>
    rw [hps] at hp
    injection hp with hp
    have hst := items_flat f.items .file f.endGap {} st' hwf'.1.1 hps trivial
    have hfin := finishSeq_flatClosed st' none (!f.items.isNil) hst
    have hex : s.exprs = (finishSeq st' none (!f.items.isNil)).1 := by rw [← hp]
    rw [← hex] at hfin
    exact mem_allInlineClean (allInlineClean_of_flat s.exprs hclean hfin)

end Nima.Frag
