"""C19 — edits compose predictably: repeatable, reversible, order-independent."""
from __future__ import annotations

from .. import editcorr as ec
from .. import editprops as ep
from .. import framework as fw
from ..gen import docs
from ..oracle import cstread
from .c05 import is_ident_leaf

GEN_TABLES = ()


def canonical_docs(ctx: fw.Ctx, n_random: int):
    """Editable documents that are fixed points of the tool (the operational meaning of
    'canonically formatted' used here) and parse without error."""
    from nix_manipulator import parse

    out = []
    seen = set()
    texts = []
    for text, _ops, info in docs.enumerate_single_ops():
        if text not in seen:
            seen.add(text)
            texts.append((text, info))
    for _ in range(n_random):
        t, info = docs.gen_doc(ctx.rng, final_newline=True)
        if info.get("class") == "editable" and t not in seen:
            seen.add(t)
            texts.append((t, info))
    texts += [("# c\n{\n  a = 1;\n}\n", {"wrapper": "bare", "class": "editable"}),
              ("{ pkgs }:\n# c\n{\n  a = 1;\n  b = 2;\n}\n", {"wrapper": "lambda-formals", "class": "editable"})]
    # sixth widening (after seeded round 6): trivia between the `in` of one let layer and the next
    # layer / the body — each layer carries its own `body_before`
    for t in ["let\n  a = 1;\nin\n# inner scope\nlet\n  b = 2;\nin\n{\n  c = a + b;\n}\n",
              "let\n  a = 1;\nin\nlet\n  b = 2;\nin\n# body\n{\n  c = a + b;\n}\n",
              "let\n  a = 1;\nin\n# inner scope\nlet\n  b = 2;\nin\n# body\n{\n  c = a + b;\n}\n",
              "let\n  a = 1;\nin\n\nlet\n  b = 2;\nin\n\n{\n  c = a + b;\n}\n",
              "let\n  a = 1;\nin\n# one\nlet\n  b = 2;\nin\n# two\nlet\n  d = 3;\nin\n# three\n{\n  c = a;\n}\n",
              "{ pkgs }:\nlet\n  a = 1;\nin\n# inner\nlet\n  b = 2;\nin\n{\n  c = a;\n}\n"]:
        texts.append((t, {"wrapper": "lambda-formals" if t.startswith("{ pkgs") else "bare", "class": "editable",
                          "shape": "let-layers-with-trivia"}))
    for t, info in texts:
        root = cstread.ts_parse(t)
        if root.has_error or cstread.find_target(root) is None:
            continue
        try:
            if parse(t).rebuild() != t:
                ctx.count("skipped:not-canonical")
                continue
        except Exception:  # noqa: BLE001
            continue
        tr = ep.safe_tree(t)
        if tr is None or isinstance(tr, tuple):
            continue
        out.append((t, info, tr))
    return out


def apply(text, op):
    from nix_manipulator import parse
    from nix_manipulator.cli import manipulations as M

    src = parse(text)
    if op[0] == "set":
        return M.set_value(src, op[1], op[2])
    return M.remove_value(src, op[1])


def try_apply(text, op):
    try:
        return apply(text, op), None
    except Exception as exc:  # noqa: BLE001
        return None, type(exc).__name__


def leaf_paths(tree, prefix=()):
    for k, v in tree.items():
        if not isinstance(k, str):
            continue
        if isinstance(v, dict):
            yield from leaf_paths(v, prefix + (k,))
        elif isinstance(v, str):
            yield prefix + (k,), v


def render_path(names):
    from .c12 import render_seg

    return ".".join(render_seg(n) for n in names)


def run(ctx: fw.Ctx):
    ctx.extra["rule"] = (
        "canonical (fixed-point) editable documents from the wrapper x body x let-layer cross product and random ones; "
        "laws: set;set = set, set fresh p then rm p = identity (text), rm then set of the removed value restores the "
        "tree, two sets on distinct existing paths commute (text); non-trivial = document with >= 2 bindings or a let layer"
    )
    ctx.trusted_base = [
        "Lean 4 kernel; axioms propext, Classical.choice, Quot.sound only",
        "edit model Model/Edit.lean tied by correspondence (histories of the laws are sent through the model too)",
    ]
    ctx.assumptions = ["'canonically formatted' is judged operationally: the document is a fixed point of parse/rebuild",
                       "paths whose current value is an identifier reference are excluded (C11)"]
    cds = canonical_docs(ctx, 150 if ctx.quick else 2500)
    if ctx.quick:
        cds = [c for i, c in enumerate(cds) if (i + ctx.seed) % 2 == 0]
    hists = []
    for text, info, tree in cds:
        observe_doc(ctx, text, info, tree, hists)
    ec.correspond(ctx, hists)


def observe_doc(ctx, text, info, tree, hists):
    wrapper = info.get("wrapper")
    leaves = [(p, v) for p, v in leaf_paths(tree) if not is_ident_leaf(v)]
    parents = ep.attrpath_parents_of(text)
    ctx.case({"doc": text}, len(leaves) >= 2 or "let" in text)
    key0 = {"wrapper": wrapper}
    # 1. idempotence
    cand = [(render_path(p), "7") for p, _ in leaves[:3]] + [("zz", "7"), ("zz.k", '"s"'), ("@zz", "7")]
    # a VALUE that is itself a name bound in the set: the second application sees a reference
    names_in_set = [k for k in tree if isinstance(k, str) and k.isidentifier()]
    if len(leaves) >= 2 and names_in_set:
        cand.append((render_path(leaves[0][0]), names_in_set[-1]))
    for p, v in cand:
        op = ("set", p, v)
        t1, e1 = try_apply(text, op)
        if t1 is None:
            continue
        t2, e2 = try_apply(t1, op)
        hists.append(ec.run_real(text, [op, op], dict(info, law="idem")))
        if t2 != t1:
            ctx.fail({"clause": "idempotence", **key0, "path": ep.shape_of_path(p),
                      "value": "identifier" if is_ident_leaf(v) else "other"},
                     {"doc": text, "ops": [list(op), list(op)], "once": t1, "twice": t2},
                     f"set {p!r} {v!r} twice on {text!r}: {t1!r} then {t2!r} (error {e2})")
    # 2. set fresh then rm restores the text
    for p in ["zz", '"z z"', "@zz", "@@zz", "@@@zz"]:
        op = ("set", p, "7")
        t1, e1 = try_apply(text, op)
        if t1 is None:
            continue
        if not p.startswith("@") and "zz" in tree:
            continue
        t2, e2 = try_apply(t1, ("rm", p))
        hists.append(ec.run_real(text, [op, ("rm", p)], dict(info, law="set-rm")))
        if t2 != text:
            via = "call-argument" if wrapper in docs.CALL_WRAPPERS and p.startswith("@") else "other"
            if via == "other" and not p.startswith("@") and closing_comments(text):
                via = "closing-comments"
            if via == "other" and p.startswith("@") and leading_comment_before_target(text) and t2 == text.rstrip("\n"):
                via = "comment-before-target"  # exactly the known effect: only the final newline is gone
            ctx.fail({"clause": "set-rm-restores", **key0, "scoped": p.startswith("@"), "via": via},
                     {"doc": text, "ops": [list(op), ["rm", p]], "after_set": t1, "after_rm": t2},
                     f"set {p!r} then rm on {text!r} gives {t2!r} (error {e2})")
    # 3. rm then set of the removed value restores the tree
    for p, v in leaves[:4]:
        if any(tuple(p[:k]) in parents for k in range(1, len(p) + 1)) and len(p) > 1:
            pass
        rp = render_path(p)
        t1, e1 = try_apply(text, ("rm", rp))
        if t1 is None:
            continue
        t2, e2 = try_apply(t1, ("set", rp, v))
        if t2 is None:
            ctx.fail({"clause": "rm-set-restores", **key0, "err": e2}, {"doc": text, "ops": [["rm", rp], ["set", rp, v]]},
                     f"rm {rp!r} then set back on {text!r} raised {e2}")
            continue
        tr2 = ep.safe_tree(t2)
        if tr2 != tree:
            ctx.fail({"clause": "rm-set-restores", **key0, "nested": len(p) > 1},
                     {"doc": text, "ops": [["rm", rp], ["set", rp, v]], "tree": tr2, "expected": tree},
                     f"rm {rp!r} then set {v!r} on {text!r}: tree {tr2!r}, expected {tree!r}")
    # 4. two sets on distinct existing paths commute
    for i in range(min(3, len(leaves))):
        for j in range(i + 1, min(4, len(leaves))):
            (p, _), (q, _) = leaves[i], leaves[j]
            if p[: len(q)] == q or q[: len(p)] == p:
                continue
            a = ("set", render_path(p), "7")
            b = ("set", render_path(q), '"w"')
            ab, _ = try_apply(text, a)
            ab2 = try_apply(ab, b)[0] if ab else None
            ba, _ = try_apply(text, b)
            ba2 = try_apply(ba, a)[0] if ba else None
            hists.append(ec.run_real(text, [a, b], dict(info, law="commute")))
            if ab2 != ba2:
                ctx.fail({"clause": "commute", **key0}, {"doc": text, "ops": [list(a), list(b)], "ab": ab2, "ba": ba2},
                         f"{a!r};{b!r} gives {ab2!r} but the other order gives {ba2!r}")


    # 5. a name bound both by the innermost let layer and by the set: `set @k A` and `set k B` address
    #    different bindings, so they commute, and `rm @k` followed by `set @k` of the old value restores the tree
    try:
        chain = cstread.let_chain(text)
    except cstread.Duplicate:
        chain = None
    from .c09 import adjacent_layers

    if chain and cstread.find_target(cstread.ts_parse(text)) is not None and (adjacent_layers(text) or 0) >= 1:
        # (only layers directly around the set are addressable; without one, `@k` naming an existing binding
        # of the set edits that binding — documented)
        inner = cstread.plain(chain[-1])
        both = [k for k in inner if isinstance(k, str) and k in tree and not isinstance(inner[k], (dict, list, tuple))
                and not isinstance(tree[k], (dict, list, tuple)) and k.isidentifier()
                and not is_ident_leaf(inner[k]) and not is_ident_leaf(tree[k])]
        for k in both[:2]:
            a, b = ("set", "@" + k, '"A"'), ("set", k, '"B"')
            ab = try_apply(try_apply(text, a)[0], b)[0] if try_apply(text, a)[0] else None
            ba = try_apply(try_apply(text, b)[0], a)[0] if try_apply(text, b)[0] else None
            if ab is not None and ba is not None and ab != ba:
                ctx.fail({"clause": "commute", **key0, "scoped": True}, {"doc": text, "ops": [list(a), list(b)], "ab": ab, "ba": ba},
                         f"{a!r};{b!r} gives {ab!r} but the other order gives {ba!r}")
            old = inner[k]
            t1, _ = try_apply(text, ("rm", "@" + k))
            if t1 is not None and len(inner) > 1:
                t2, e2 = try_apply(t1, ("set", "@" + k, old))
                ch2 = None
                try:
                    ch2 = cstread.let_chain(t2) if t2 else None
                except cstread.Duplicate:
                    pass
                if t2 is None or ch2 is None or cstread.plain(ch2[-1]) != inner or ep.safe_tree(t2) != tree:
                    ctx.fail({"clause": "rm-set-restores", **key0, "scoped": True},
                             {"doc": text, "ops": [["rm", "@" + k], ["set", "@" + k, old]], "output": t2},
                             f"rm @{k} then set @{k} {old!r} on {text!r} does not restore the layer and the set: {t2!r} ({e2})")


def closing_comments(text: str) -> bool:
    """does the target set end in own-line comments (between its last item and `}`)?"""
    tgt = cstread.find_target(cstread.ts_parse(text))
    if tgt is None:
        return False
    kids = [c for c in tgt.children]
    if not (len(kids) >= 3 and kids[-1].type == "}" and kids[-2].type == "comment"):
        return False
    # an own-line comment (an end-of-line comment of the last item is part of that item's line)
    prev = next((k for k in reversed(kids[:-2]) if k.type != "comment"), None)
    return prev is None or kids[-2].start_point[0] > prev.end_point[0]


def leading_comment_before_target(text: str) -> bool:
    """is there a comment or a blank line directly before the target set (so that `target.before`
    is not empty)?"""
    root = cstread.ts_parse(text)
    tgt = cstread.find_target(root)
    if tgt is None:
        return False
    prev = tgt.prev_sibling
    if prev is not None and prev.type == "comment":
        return True
    b = text.encode("utf-8")
    gap = b[prev.end_byte:tgt.start_byte] if prev is not None else b[:tgt.start_byte]
    return gap.count(b"\n") >= 2


def search(ctx: fw.Ctx):
    hists = []
    for text, info, tree in canonical_docs(ctx, 3000):
        observe_doc(ctx, text, info, tree, hists)


def replay(payload: dict) -> int:
    inp = payload["input"]
    text = inp["doc"]
    cur = text
    for op in inp.get("ops", []):
        cur, err = try_apply(cur, tuple(op))
        print(op, "->", repr(cur), err)
        if cur is None:
            return 1
    return 0
