import NimaVerif.Model.AttrPath
/-!
L6 (a): abstract documents — the storage the edit code (`cli/manipulations.py`) and the mapping API
(`AttributeSet.__*item__`, `Scope.__*item__`, `NixSourceCode.__*item__`) work on, without layout.

Python mutates shared objects (a `Binding` is referenced from `values`, from `attrpath_order`
(directly or inside an `_AttrpathEntry`) and from the `let_bindings` list). Here every `Binding`
and every `AttributeSet` object carries an identity (`id` / `sid`); the places that reference the
same object hold equal copies, and a mutation of the object is an update of **every** copy with that
identity (`updBind`, `updSet`). Trivia (`before`/`after`) are opaque token lists (`Payload`).
-/
namespace Nima

abbrev Payload := List Nat

/-- Untyped node of the object graph (Python is dynamically typed too); `WF` says which shapes the
    parser produces. -/
inductive Node where
  /-- any expression that is neither an attribute set nor an identifier; opaque text -/
  | atom (text : Text)
  /-- `Identifier(name)` as a value -/
  | ident (name : Text)
  /-- `AttributeSet`: identity, `values`, `attrpath_order`, `multiline`, `recursive` -/
  | set (sid : Nat) (values : List Node) (order : List Node) (multiline recursive : Bool)
  /-- `Binding`: identity, rendered name, `nested`, value, `before`, `after` -/
  | bind (id : Nat) (name : Text) (nested : Bool) (value : Node) (before after : Payload)
  /-- `Inherit`: identity, names -/
  | inherit (id : Nat) (names : List Text)
  /-- `_AttrpathEntry(segments, binding, before, after)` -/
  | entry (segments : List Text) (leaf : Node) (before after : Option Payload)
deriving Repr, Inhabited

namespace Node

def isSet : Node → Bool | set .. => true | _ => false
def isBind : Node → Bool | bind .. => true | _ => false

def bindId? : Node → Option Nat | bind id .. => some id | _ => none
def bindName? : Node → Option Text | bind _ n .. => some n | _ => none
def bindNested : Node → Bool | bind _ _ n .. => n | _ => false
def bindValue? : Node → Option Node | bind _ _ _ v .. => some v | _ => none

def setValues : Node → List Node | set _ vs .. => vs | _ => []
def setOrder : Node → List Node | set _ _ o .. => o | _ => []
def setSid? : Node → Option Nat | set sid .. => some sid | _ => none
def setMultiline : Node → Bool | set _ _ _ m _ => m | _ => true
def setRecursive : Node → Bool | set _ _ _ _ r => r | _ => false

mutual
  /-- `binding.value = v` for the Binding object with identity `id`: every copy is updated. -/
  def updBind (id : Nat) (v : Node) : Node → Node
    | atom t => atom t
    | ident n => ident n
    | set sid vs o m r => set sid (updBindL id v vs) (updBindL id v o) m r
    | bind i n ne val b a =>
        if i = id then bind i n ne v b a else bind i n ne (updBind id v val) b a
    | inherit i ns => inherit i ns
    | entry segs leaf b a => entry segs (updBind id v leaf) b a
  def updBindL (id : Nat) (v : Node) : List Node → List Node
    | [] => []
    | x :: xs => updBind id v x :: updBindL id v xs
end

mutual
  /-- in-place mutation `f` of the AttributeSet object with identity `sid` (every copy). -/
  def updSet (sid : Nat) (f : Node → Node) : Node → Node
    | atom t => atom t
    | ident n => ident n
    | set s vs o m r =>
        if s = sid then f (set s vs o m r)
        else set s (updSetL sid f vs) (updSetL sid f o) m r
    | bind i n ne val b a => bind i n ne (updSet sid f val) b a
    | inherit i ns => inherit i ns
    | entry segs leaf b a => entry segs (updSet sid f leaf) b a
  def updSetL (sid : Nat) (f : Node → Node) : List Node → List Node
    | [] => []
    | x :: xs => updSet sid f x :: updSetL sid f xs
end

mutual
  /-- largest identity used (fresh ones are allocated above it) -/
  def maxId : Node → Nat
    | atom _ => 0
    | ident _ => 0
    | set s vs o _ _ => max s (max (maxIdL vs) (maxIdL o))
    | bind i _ _ v _ _ => max i (maxId v)
    | inherit i _ => i
    | entry _ leaf _ _ => maxId leaf
  def maxIdL : List Node → Nat
    | [] => 0
    | x :: xs => max (maxId x) (maxIdL xs)
end

mutual
  /-- current state of the AttributeSet object `sid` inside a node -/
  def findSet (sid : Nat) : Node → Option Node
    | atom _ => none
    | ident _ => none
    | set s vs o m r =>
        if s = sid then some (set s vs o m r)
        else match findSetL sid vs with
          | some x => some x
          | none => findSetL sid o
    | bind _ _ _ v _ _ => findSet sid v
    | inherit _ _ => none
    | entry _ leaf _ _ => findSet sid leaf
  def findSetL (sid : Nat) : List Node → Option Node
    | [] => none
    | x :: xs => match findSet sid x with
      | some r => some r
      | none => findSetL sid xs
end

end Node

open Node

/-- `ScopeLayer` -/
structure Layer where
  scope : List Node
  order : List Node
  bodyBefore : Payload
  bodyAfter : Payload
  afterLet : Option Nat
deriving Repr, Inhabited

/-- Why a document has no edit target (`_resolve_target_set` raises `ValueError`). -/
inductive NoTarget where
  | raw        -- syntax error: the whole file is one RawExpression
  | empty      -- no expression
  | multi      -- more than one top-level expression
  | shape      -- top-level expression of an unsupported shape
  | resolution -- target resolution dereferences an identifier and `ResolutionError` escapes
deriving DecidableEq, Repr

/-- The part of a `NixSourceCode` the edit code reads or writes. -/
structure Doc where
  /-- `none`: editable; `some r`: target resolution raises -/
  noTarget : Option NoTarget := none
  /-- the target `AttributeSet` object -/
  target : Node := .set 0 [] [] true false
  /-- `target.before` / `target.after` -/
  tBefore : Payload := []
  tAfter : Payload := []
  /-- `target.scope` (bindings of the outermost let layer lifted onto the target) -/
  scope : List Node := []
  /-- `target.scope_state` fields -/
  stBodyBefore : Payload := []
  stBodyAfter : Payload := []
  stOrder : List Node := []
  stAfterLet : Option Nat := none
  stack : List Layer := []
  /-- `source.trailing` as tokens: 0 = linebreak, 1 = empty_line, other = a comment -/
  trailing : Payload := []
  /-- bindings of `source.expressions[0].scope` when the top expression is not the target itself
      (`let_bindings` of `set_value`); `none` when the top expression is the target. -/
  topScope : Option (List Node) := none
  /-- next fresh identity -/
  next : Nat := 1
  /-- the text returned by a scoped `rm` is `rstrip("\n")`-ed (observable flag only) -/
  rstripped : Bool := false
  /-- scratch `AttributeSet` built around a scope layer while a scoped edit runs -/
  scratch : Option Node := none
deriving Repr, Inhabited

namespace Layer
def updBind (id : Nat) (v : Node) (l : Layer) : Layer :=
  { l with scope := updBindL id v l.scope, order := updBindL id v l.order }
def updSet (sid : Nat) (f : Node → Node) (l : Layer) : Layer :=
  { l with scope := updSetL sid f l.scope, order := updSetL sid f l.order }
end Layer

namespace Doc

/-- mutate the Binding object `id` wherever the document references it -/
def updBind (id : Nat) (v : Node) (d : Doc) : Doc :=
  { d with
    target := Node.updBind id v d.target
    scratch := d.scratch.map (Node.updBind id v)
    scope := updBindL id v d.scope
    stOrder := updBindL id v d.stOrder
    stack := d.stack.map (Layer.updBind id v)
    topScope := d.topScope.map (updBindL id v) }

/-- mutate the AttributeSet object `sid` wherever the document references it -/
def updSet (sid : Nat) (f : Node → Node) (d : Doc) : Doc :=
  { d with
    target := Node.updSet sid f d.target
    scratch := d.scratch.map (Node.updSet sid f)
    scope := updSetL sid f d.scope
    stOrder := updSetL sid f d.stOrder
    stack := d.stack.map (Layer.updSet sid f)
    topScope := d.topScope.map (updSetL sid f) }

/-- current state of the AttributeSet object `sid`, wherever the document references it -/
def findSet (sid : Nat) (d : Doc) : Option Node :=
  match d.scratch.bind (Node.findSet sid) with
  | some r => some r
  | none => match Node.findSet sid d.target with
    | some r => some r
    | none => match findSetL sid d.scope with
      | some r => some r
      | none => match findSetL sid (d.stack.flatMap (·.scope)) with
        | some r => some r
        | none => (d.topScope.bind (findSetL sid))

end Doc

end Nima
