import NimaVerif.Lemmas.Trivia
/-! # C01 — trivia-algebra theorems (being proved; see Lemmas/Trivia.lean). -/
namespace Nima.C01
theorem formatTrivia_nil (i : Nat) : formatTrivia [] i = [] := rfl
end Nima.C01
