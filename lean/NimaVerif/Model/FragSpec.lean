import NimaVerif.Model.Rebuild
/-!
SPEC definitions for the container-fragment theorems (C01 C03 C18 sections `Fragment`). Nothing
here models Python code: these are the decidable notions the statements are written in — the
lexical content of a piece list, the "comment never absorbs code" scan, the spacing summary, and
the two decidable exclusions (`File.orderOk`, `Src.inlineCleanB`). The driver evaluates them on
every sample (`(facts …)`). Core Lean only.
-/
namespace Nima.Frag
open Nima

def FP.lex? : FP → Option Lex
  | .tok s => some (.tok s)
  | .cmt s => some (.cmt s)
  | .ws _ => none

/-- the tokens and comments of a piece list, in order (whitespace left out) -/
def lexOf (ps : List FP) : List Lex := ps.filterMap FP.lex?

/-- the code tokens of a piece list -/
def toks (ps : List FP) : List Text := (lexOf ps).filterMap Lex.tok?

/-- a rendered comment token is a line comment -/
def isLineTok (t : Text) : Bool := t.head? == some '#'

/-- does writing piece `p` after a state `o` (= a line comment is open) keep the comment from
    absorbing anything? whitespace after an open line comment must start with the line break; a
    token or comment must not follow it directly; empty pieces write nothing -/
def stepOk (o : Bool) (p : FP) : Bool :=
  p.text.isEmpty ||
    match p with
    | .ws s => !o || startsWithNL s
    | _ => !o

/-- the state after writing `p` -/
def stepOpen (o : Bool) (p : FP) : Bool :=
  if p.text.isEmpty then o
  else match p with
    | .cmt s => isLineTok s
    | _ => false

/-- Scan of a piece list for "a comment never absorbs code". -/
def safeGo : Bool → List FP → Bool
  | _, [] => true
  | o, p :: rest => stepOk o p && safeGo (stepOpen o p) rest

/-- the state after the scan -/
def openAfter : Bool → List FP → Bool
  | o, [] => o
  | o, p :: rest => openAfter (stepOpen o p) rest

/-- Between function and argument, `FunctionCall.from_cst` moves the comments on the function's row
    (`function_after`) in front of the others (`argument.before`). The only way a comment that stays
    behind precedes one that is moved: the first comment touches the function (`f/* a */ /* b */ x`:
    `start_byte > function_node.end_byte` fails for it) and the second one is on the same row. -/
def appOrderOk : GC → Bool
  | p :: q :: _ => !(p.1.isEmpty && !containsNL q.1)
  | _ => true

/-- an `assert … ; …` node -/
def Cst.isAsrt : Cst → Bool
  | .kw false .. => true
  | _ => false

def Items.noCmt : Items → Bool
  | .nil => true
  | .cmt .. => false
  | .elem _ _ rest => rest.noCmt
  | .bind _ _ _ _ _ _ _ _ _ rest => rest.noCmt

mutual
/-- A comment that is attached to the previous item (same row) while comments are still pending in
    `before` overtakes them. `orderOk` says this does not happen: `pending` = "`before` holds a
    comment", `hasItem` = "`items` is not empty". -/
def Cst.orderOk : Cst → Bool
  | .leaf _ _ => true
  | .list its _ => its.orderOk .list .none false false
  | .set _ _ its _ => its.orderOk .set .none false false
  | .paren its _ => its.orderOk .paren .none false false
  | .app f cs _ a => f.orderOk && appOrderOk cs && a.orderOk
  | .kw _ _ _ h _ _ _ _ b => h.orderOk && b.orderOk
  | .sel e _ _ _ _ => e.orderOk
  | .selOr e _ _ _ _ _ _ _ d => e.orderOk && d.orderOk
  | .lam _ _ _ _ _ b => b.orderOk
  | .un _ _ _ e => e.orderOk
  | .bin l _ _ _ _ _ r => l.orderOk && r.orderOk
  | .ite _ _ c _ _ _ _ t _ _ _ _ e => c.orderOk && t.orderOk && e.orderOk
  | .has e _ _ _ _ _ => e.orderOk
/-- An `assert` renders its trailing trivia (`after`) between its `;` and its body: a comment that the
    enclosing sequence attaches to an `assert` item (any comment after it: top level, parentheses) comes
    out in front of the body (`C03.cex_comment_after_assert`). The value of a binding is rendered without
    its trailing trivia, which are written after the binding's `;`: no condition there. -/
def Items.orderOk : Items → Mode → Prev → Bool → Bool → Bool
  | .nil, _, _, _, _ => true
  | .cmt g _ rest, m, prev, pending, hasItem =>
    let inl := prevAllowsInline m prev && !containsNL g && hasItem
    if inl then !pending && rest.orderOk m .cmt pending hasItem
    else rest.orderOk m .cmt true hasItem
  | .elem _ c rest, m, _, _, _ => c.orderOk && (!c.isAsrt || rest.noCmt) && rest.orderOk m .item false true
  | .bind _ _ _ _ _ _ v _ _ rest, m, _, _, _ => v.orderOk && rest.orderOk m .item false true
end

def File.orderOk (f : File) : Bool := f.items.orderOk .file .none false false

mutual
/-- the part of `orderOk` that is about item sequences (lists, sets, parentheses, top level) only:
    `orderOk` without the condition `appOrderOk` on calls (used to state that `appOrderOk` is needed) -/
def Cst.orderOkSeq : Cst → Bool
  | .leaf _ _ => true
  | .list its _ => its.orderOkSeq .list .none false false
  | .set _ _ its _ => its.orderOkSeq .set .none false false
  | .paren its _ => its.orderOkSeq .paren .none false false
  | .app f _ _ a => f.orderOkSeq && a.orderOkSeq
  | .kw _ _ _ h _ _ _ _ b => h.orderOkSeq && b.orderOkSeq
  | .sel e _ _ _ _ => e.orderOkSeq
  | .selOr e _ _ _ _ _ _ _ d => e.orderOkSeq && d.orderOkSeq
  | .lam _ _ _ _ _ b => b.orderOkSeq
  | .un _ _ _ e => e.orderOkSeq
  | .bin l _ _ _ _ _ r => l.orderOkSeq && r.orderOkSeq
  | .ite _ _ c _ _ _ _ t _ _ _ _ e => c.orderOkSeq && t.orderOkSeq && e.orderOkSeq
  | .has e _ _ _ _ _ => e.orderOkSeq
def Items.orderOkSeq : Items → Mode → Prev → Bool → Bool → Bool
  | .nil, _, _, _, _ => true
  | .cmt g _ rest, m, prev, pending, hasItem =>
    let inl := prevAllowsInline m prev && !containsNL g && hasItem
    if inl then !pending && rest.orderOkSeq m .cmt pending hasItem
    else rest.orderOkSeq m .cmt true hasItem
  | .elem _ c rest, m, _, _, _ => c.orderOkSeq && (!c.isAsrt || rest.noCmt) && rest.orderOkSeq m .item false true
  | .bind _ _ _ _ _ _ v _ _ rest, m, _, _, _ => v.orderOkSeq && rest.orderOkSeq m .item false true
end

def File.orderOkSeq (f : File) : Bool := f.items.orderOkSeq .file .none false false

/-- is `w` an acceptable separator in front of the token/comment `x`: formatter normal form
    (`""`, `" "`, one or two line breaks followed by spaces), and nothing at all in front of `;` -/
def sepOk (w : Text) (x : Lex) : Bool := isNormalSep w && (x != .tok [';'] || w.isEmpty)

inductive Summ where
  /-- whitespace only -/
  | blank (w : Text)
  /-- leading whitespace, first token/comment, all inner separators acceptable, trailing whitespace -/
  | lexy (lead : Text) (first : Lex) (inner : Bool) (trail : Text)
deriving DecidableEq, Repr

def Summ.comb : Summ → Summ → Summ
  | .blank w, .blank w' => .blank (w ++ w')
  | .blank w, .lexy l f i t => .lexy (w ++ l) f i t
  | .lexy l f i t, .blank w => .lexy l f i (t ++ w)
  | .lexy l f i t, .lexy l' f' i' t' => .lexy l f (i && sepOk (t ++ l') f' && i') t'

def summ1 : FP → Summ
  | .ws s => .blank s
  | .tok s => .lexy [] (.tok s) true []
  | .cmt s => .lexy [] (.cmt s) true []

def summ : List FP → Summ
  | [] => .blank []
  | p :: rest => (summ1 p).comb (summ rest)

/-- THE NORMAL FORM of a whole output: no whitespace before the first token, every separator
    acceptable, at most one blank line at the end -/
def Summ.fileOk : Summ → Bool
  | .blank w => w.isEmpty
  | .lexy l _ i t => l.isEmpty && i && (t == [] || t == ['\n'] || t == ['\n', '\n'])

/-- the trailing trivia an expression is rendered with -/
def Expr.effAfter : Expr → Bool → List Trivia
  | .binding _ v _ _ a, na => v.after ++ (if na then [] else a)
  | .leaf _ _ _ a, na => if na then [] else a
  | .list _ _ _ _ a, na => if na then [] else a
  | .set _ _ _ _ _ a, na => if na then [] else a
  | .paren _ _ _ _ _ _ a, na => if na then [] else a
  | .app _ _ _ _ _ a, na => if na then [] else a
  | .wth _ _ _ _ _ _ a, na => if na then [] else a
  | .asrt _ _ _ _ _ a, na => if na then [] else a
  | .sel _ _ _ _ _ a, na => if na then [] else a
  | .selOr _ _ _ _ _ _ _ _ a, na => if na then [] else a
  | .lam _ _ _ _ _ _ a, na => if na then [] else a
  | .un _ _ _ _ _ a, na => if na then [] else a
  | .bin _ _ _ _ _ _ a, na => if na then [] else a
  | .ite _ _ _ _ _ _ _ _ _ _ _ _ _ _ _ a, na => if na then [] else a
  | .has _ _ _ _ _ _ _ a, na => if na then [] else a

def closedB (ts : List Trivia) : Bool :=
  match ts.getLast? with
  | none => true
  | some (.comment _) => true
  | some _ => false

def allFlatB : List Expr → Bool
  | [] => true
  | x :: r => x.before.isEmpty && closedB (x.effAfter false) && allFlatB r

mutual
/-- `Expr.inlineClean` as a Boolean: in every container written on one line, no item has leading
    trivia and every item's trailing trivia is empty or ends with a comment -/
def Expr.inlineCleanB : Expr → Bool
  | .leaf .. => true
  | .list v ml _ _ _ => (ml || allFlatB v) && allInlineCleanB v
  | .set v ml _ _ _ _ => (ml || allFlatB v) && allInlineCleanB v
  | .binding _ v _ _ _ => v.inlineCleanB
  | .paren v lg _ _ _ _ _ => ((Layout.fromGap lg).onNewline || v.before.isEmpty) && v.inlineCleanB
  | .app n x g _ _ _ => ((Layout.fromGap g).onNewline || x.before.isEmpty) && n.inlineCleanB && x.inlineCleanB
  | .wth env body _ _ _ _ _ => env.inlineCleanB && body.inlineCleanB
  | .asrt .. => false     -- `assert`: outside the spacing theorem so far (`File.basic`)
  | .sel e _ _ _ _ _ => e.inlineCleanB
  | .selOr e _ _ _ d _ _ _ _ => e.inlineCleanB && d.inlineCleanB
  | .lam _ _ _ _ body _ _ => body.inlineCleanB
  | .un _ e _ _ _ _ => e.inlineCleanB
  -- at most one blank line in front of / after a binary operator (`cex_blank_lines_around_operator`)
  | .bin _ l r ogl rgl _ _ => decide (ogl ≤ 2) && decide (rgl ≤ 2) && l.inlineCleanB && r.inlineCleanB
  | .ite c t e _ _ _ _ _ _ _ _ _ _ _ _ _ => c.inlineCleanB && t.inlineCleanB && e.inlineCleanB
  | .has e _ _ _ _ _ _ _ => e.inlineCleanB
def allInlineCleanB : List Expr → Bool
  | [] => true
  | e :: rest => e.inlineCleanB && allInlineCleanB rest
end

def Src.inlineCleanB (s : Src) : Bool := allInlineCleanB s.exprs

def allBeforeEmpty : List Expr → Bool
  | [] => true
  | x :: r => x.before.isEmpty && allBeforeEmpty r

mutual
/-- THE EXCLUSION of the spacing theorem, in its final form: in every container written on one
    line, no item has leading trivia (i.e. no comment stands in front of an item); the value of a
    parenthesis that follows `(` on the same line has no leading trivia (no comment between `(` and
    it: `cex_comment_after_open_paren`); the argument of a call that follows the function on the
    same line has no leading trivia (no comment touching the function: `cex_comment_touching_function`) -/
def Expr.beforeFlatB : Expr → Bool
  | .leaf .. => true
  | .list v ml _ _ _ => (ml || allBeforeEmpty v) && allBeforeFlatB v
  | .set v ml _ _ _ _ => (ml || allBeforeEmpty v) && allBeforeFlatB v
  | .binding _ v _ _ _ => v.beforeFlatB
  | .paren v lg _ _ _ _ _ => ((Layout.fromGap lg).onNewline || v.before.isEmpty) && v.beforeFlatB
  | .app n x g _ _ _ => ((Layout.fromGap g).onNewline || x.before.isEmpty) && n.beforeFlatB && x.beforeFlatB
  | .wth env body _ _ _ _ _ => env.beforeFlatB && body.beforeFlatB
  | .asrt .. => false     -- `assert`: outside the spacing theorem so far (`File.basic`)
  | .sel e _ _ _ _ _ => e.beforeFlatB
  | .selOr e _ _ _ d _ _ _ _ => e.beforeFlatB && d.beforeFlatB
  | .lam _ _ _ _ body _ _ => body.beforeFlatB
  | .un _ e _ _ _ _ => e.beforeFlatB
  -- at most one blank line in front of / after a binary operator (`cex_blank_lines_around_operator`)
  | .bin _ l r ogl rgl _ _ => decide (ogl ≤ 2) && decide (rgl ≤ 2) && l.beforeFlatB && r.beforeFlatB
  | .ite c t e _ _ _ _ _ _ _ _ _ _ _ _ _ => c.beforeFlatB && t.beforeFlatB && e.beforeFlatB
  | .has e _ _ _ _ _ _ _ => e.beforeFlatB
def allBeforeFlatB : List Expr → Bool
  | [] => true
  | e :: rest => e.beforeFlatB && allBeforeFlatB rest
end

def Src.beforeFlatB (s : Src) : Bool := allBeforeFlatB s.exprs

mutual
/-- `beforeFlatB` carried through parentheses and calls homomorphically (no condition of their own):
    the exclusion of the container fragment alone. `C18.cex_comment_after_open_paren` shows that it
    does not suffice once parentheses are in the fragment. -/
def Expr.beforeFlatG : Expr → Bool
  | .leaf .. => true
  | .list v ml _ _ _ => (ml || allBeforeEmpty v) && allBeforeFlatG v
  | .set v ml _ _ _ _ => (ml || allBeforeEmpty v) && allBeforeFlatG v
  | .binding _ v _ _ _ => v.beforeFlatG
  | .paren v _ _ _ _ _ _ => v.beforeFlatG
  | .app n x _ _ _ _ => n.beforeFlatG && x.beforeFlatG
  | .wth env body _ _ _ _ _ => env.beforeFlatG && body.beforeFlatG
  | .asrt .. => false     -- `assert`: outside the spacing theorem so far (`File.basic`)
  | .sel e _ _ _ _ _ => e.beforeFlatG
  | .selOr e _ _ _ d _ _ _ _ => e.beforeFlatG && d.beforeFlatG
  | .lam _ _ _ _ body _ _ => body.beforeFlatG
  | .un _ e _ _ _ _ => e.beforeFlatG
  | .bin _ l r _ _ _ _ => l.beforeFlatG && r.beforeFlatG
  | .ite c t e _ _ _ _ _ _ _ _ _ _ _ _ _ => c.beforeFlatG && t.beforeFlatG && e.beforeFlatG
  | .has e _ _ _ _ _ _ _ => e.beforeFlatG
def allBeforeFlatG : List Expr → Bool
  | [] => true
  | e :: rest => e.beforeFlatG && allBeforeFlatG rest
end

def Src.beforeFlatG (s : Src) : Bool := allBeforeFlatG s.exprs

mutual
/-- `beforeFlatB` without its clause for calls (the clause for parentheses kept):
    `C18.cex_comment_touching_function` shows that the clause for calls is needed. -/
def Expr.beforeFlatP : Expr → Bool
  | .leaf .. => true
  | .list v ml _ _ _ => (ml || allBeforeEmpty v) && allBeforeFlatP v
  | .set v ml _ _ _ _ => (ml || allBeforeEmpty v) && allBeforeFlatP v
  | .binding _ v _ _ _ => v.beforeFlatP
  | .paren v lg _ _ _ _ _ => ((Layout.fromGap lg).onNewline || v.before.isEmpty) && v.beforeFlatP
  | .app n x _ _ _ _ => n.beforeFlatP && x.beforeFlatP
  | .wth env body _ _ _ _ _ => env.beforeFlatP && body.beforeFlatP
  | .asrt .. => false     -- `assert`: outside the spacing theorem so far (`File.basic`)
  | .sel e _ _ _ _ _ => e.beforeFlatP
  | .selOr e _ _ _ d _ _ _ _ => e.beforeFlatP && d.beforeFlatP
  | .lam _ _ _ _ body _ _ => body.beforeFlatP
  | .un _ e _ _ _ _ => e.beforeFlatP
  -- at most one blank line in front of / after a binary operator (`cex_blank_lines_around_operator`)
  | .bin _ l r ogl rgl _ _ => decide (ogl ≤ 2) && decide (rgl ≤ 2) && l.beforeFlatP && r.beforeFlatP
  | .ite c t e _ _ _ _ _ _ _ _ _ _ _ _ _ => c.beforeFlatP && t.beforeFlatP && e.beforeFlatP
  | .has e _ _ _ _ _ _ _ => e.beforeFlatP
def allBeforeFlatP : List Expr → Bool
  | [] => true
  | e :: rest => e.beforeFlatP && allBeforeFlatP rest
end

def Src.beforeFlatP (s : Src) : Bool := allBeforeFlatP s.exprs

mutual
/-- `orderOk` without the condition on `assert` items (used to state that it is needed) -/
def Cst.orderOkNA : Cst → Bool
  | .leaf _ _ => true
  | .list its _ => its.orderOkNA .list .none false false
  | .set _ _ its _ => its.orderOkNA .set .none false false
  | .paren its _ => its.orderOkNA .paren .none false false
  | .app f cs _ a => f.orderOkNA && appOrderOk cs && a.orderOkNA
  | .kw _ _ _ h _ _ _ _ b => h.orderOkNA && b.orderOkNA
  | .sel e _ _ _ _ => e.orderOkNA
  | .selOr e _ _ _ _ _ _ _ d => e.orderOkNA && d.orderOkNA
  | .lam _ _ _ _ _ b => b.orderOkNA
  | .un _ _ _ e => e.orderOkNA
  | .bin l _ _ _ _ _ r => l.orderOkNA && r.orderOkNA
  | .ite _ _ c _ _ _ _ t _ _ _ _ e => c.orderOkNA && t.orderOkNA && e.orderOkNA
  | .has e _ _ _ _ _ => e.orderOkNA
def Items.orderOkNA : Items → Mode → Prev → Bool → Bool → Bool
  | .nil, _, _, _, _ => true
  | .cmt g _ rest, m, prev, pending, hasItem =>
    let inl := prevAllowsInline m prev && !containsNL g && hasItem
    if inl then !pending && rest.orderOkNA m .cmt pending hasItem
    else rest.orderOkNA m .cmt true hasItem
  | .elem _ c rest, m, _, _, _ => c.orderOkNA && rest.orderOkNA m .item false true
  | .bind _ _ _ _ _ _ v _ _ rest, m, _, _, _ => v.orderOkNA && rest.orderOkNA m .item false true
end

def File.orderOkNA (f : File) : Bool := f.items.orderOkNA .file .none false false

/-! ### the part of the fragment without `assert`

The theorems of C18 (spacing normal form) and C02 are proved for the files without `assert` and with
at most one blank line after the colon of a lambda (`File.basic`: containers, parentheses, calls,
`with`, select, `or`, lambda, unary and binary operators, `if` / `then` / `else`, has-attr); C06 (fixed point of
comment-free files) for all of these (`Cst.cf`: no `assert`, no `-` fused with a path); C01 and C03 cover the
whole fragment. -/

mutual
def Cst.basic : Cst → Bool
  | .leaf _ _ => true
  | .list its _ => its.basic
  | .set _ _ its _ => its.basic
  | .paren its _ => its.basic
  | .app f _ _ a => f.basic && a.basic
  | .kw w _ _ h _ _ _ _ b => w && h.basic && b.basic     -- `with`; not `assert`
  | .sel e _ _ _ _ => e.basic
  | .selOr e _ _ _ _ _ _ _ d => e.basic && d.basic
  -- at most one blank line between the colon of a lambda and its body (`cex_blank_lines_after_colon`)
  | .lam _ _ _ _ g2 b => decide (g2.count '\n' ≤ 2) && b.basic
  | .un _ _ _ e => e.basic
  | .bin l _ _ _ _ _ r => l.basic && r.basic
  | .ite _ _ c _ _ _ _ t _ _ _ _ e => c.basic && t.basic && e.basic
  | .has e _ _ _ _ _ => e.basic
def Items.basic : Items → Bool
  | .nil => true
  | .cmt _ _ rest => rest.basic
  | .elem _ c rest => c.basic && rest.basic
  | .bind _ _ _ _ _ _ v _ _ rest => v.basic && rest.basic
end

def File.basic (f : File) : Bool := f.items.basic

/-! ### comment-free files: the tree of the output (`C06.frag_fixed_point_comment_free`) -/

/-- the leftmost token of an expression when it is a leaf reached through calls, selects and binary
    operators -/
def Cst.headLeaf : Cst → Option (LeafKind × Text)
  | .leaf k t => some (k, t)
  | .app f _ _ _ => f.headLeaf
  | .sel e _ _ _ _ => e.headLeaf
  | .selOr e _ _ _ _ _ _ _ _ => e.headLeaf
  | .bin l _ _ _ _ _ _ => l.headLeaf
  | .has e _ _ _ _ _ => e.headLeaf
  | _ => none

/-- a `-` written directly in front of the expression fuses with its first token into ONE path token
    (`- ./p.nix` is rebuilt as `-./p.nix`: `C01.cex_unary_minus_path_fused`) -/
def Cst.fusesMinus (e : Cst) : Bool :=
  match e.headLeaf with
  | some (.path, t) => t.head? != some '<'
  | _ => false

mutual
def Cst.cf : Cst → Bool
  | .leaf _ _ => true
  | .list its _ => its.cf
  | .set _ _ its _ => its.cf
  | .paren its _ => its.cf
  | .app f cs _ a => f.cf && cs.isEmpty && a.cf
  -- `with`; the normaliser `Cst.norm` does not cover `assert` yet
  | .kw w c1 _ h c2 _ c3 _ b => w && c1.isEmpty && h.cf && c2.isEmpty && c3.isEmpty && b.cf
  | .sel e c1 _ _ _ => e.cf && c1.isEmpty
  | .selOr e c1 _ _ _ c2 _ _ d => e.cf && c1.isEmpty && c2.isEmpty && d.cf
  | .lam _ c1 _ c2 _ b => c1.isEmpty && c2.isEmpty && b.cf
  | .un op c _ e => c.isEmpty && e.cf && !(op == ['-'] && e.fusesMinus)
  | .bin l c1 _ _ c2 _ r => l.cf && c1.isEmpty && c2.isEmpty && r.cf
  | .ite c1 _ c c2 _ c3 _ t c4 _ c5 _ e =>
    c.cf && t.cf && e.cf && c1.isEmpty && c2.isEmpty && c3.isEmpty && c4.isEmpty && c5.isEmpty
  | .has e c1 _ c2 _ _ => e.cf && c1.isEmpty && c2.isEmpty
def Items.cf : Items → Bool
  | .nil => true
  | .cmt _ _ _ => false
  | .elem _ c rest => c.cf && rest.cf
  | .bind _ _ c1 _ c2 _ v c3 _ rest => c1.isEmpty && c2.isEmpty && c3.isEmpty && v.cf && rest.cf
end

/-- `Expr.absorbable` read off the tree -/
def Cst.absorbableC : Cst → Bool
  | .paren (.elem _ c .nil) _ => c.absorbableC
  | .list .. => true
  | .set .. => true
  | _ => false

/-- `Expr.sameOpChain` read off the tree -/
def Cst.sameOpChainC : Cst → Text → Bool
  | .bin _ _ g1 o _ _ _, op => o == op && g1.count '\n' != 0
  | _, _ => false

/-- `binRightIndent` read off the tree (comment-free: no leading comment on the right operand) -/
def binRightIndentC (op : Text) (r : Cst) (i : Nat) : Nat :=
  if chainable op then
    if r.sameOpChainC op then i
    else if r.absorbableC then i
    else i + 2
  else i

/-- the extra line break a blank line in the gap leaves behind -/
def blankGap (g : Text) : Text := if gapHasEmptyLineOffsets g then ['\n'] else []

/-- line break, optional blank line, indentation -/
def vgap (g : Text) (k : Nat) : Text := '\n' :: blankGap g ++ spaces k

/-- one space, or a line break (one blank line kept) and the indentation read from the gap -/
def sepGap (g : Text) : Text := if containsNL g then vgap g (indentFromGap g) else [' ']

/-- the indentation of what follows a `sepGap` -/
def sepIndent (g : Text) (i : Nat) : Nat := if containsNL g then indentFromGap g else i

mutual
/-- what the round trip makes of a comment-free tree whose first line is indented by `i` -/
def Cst.norm : Cst → Nat → Cst
  | .leaf k t, _ => .leaf k t
  | .list its cg, i =>
    if its.isNil then
      (if gapHasEmptyLineOffsets cg then .list .nil (vgap cg i) else .list .nil [' '])
    else if containsNL (its.flatten ++ cg) then .list (its.normML (i + 2)) (vgap cg i)
    else .list (its.normFlat i) [' ']
  | .set r rg its cg, i =>
    if its.isNil then
      (if gapHasEmptyLineOffsets cg then .set r (if r then [' '] else []) .nil (vgap cg i)
       else .set r (if r then [' '] else []) .nil [' '])
    else if containsNL ((if r then rg else []) ++ its.flatten ++ cg) then
      .set r (if r then [' '] else []) (its.normML (i + 2)) (vgap cg i)
    else .set r (if r then [' '] else []) (its.normFlat (i + 2)) [' ']
  -- `(` value `)`: the value stays on the line of `(` or goes on its own line at the indentation read
  -- from the gap; `)` stays on the value's last line or goes on its own line at the current indentation
  | .paren (.elem g c .nil) cg, i =>
    .paren (.elem (if containsNL g then vgap g (indentFromGap g) else [])
        (c.norm (if containsNL g then indentFromGap g else i)) .nil)
      (if containsNL cg then vgap cg i else [])
  | .paren its cg, _ => .paren its cg     -- (not a comment-free parenthesis)
  -- function, one space or a line break (the argument then at the indentation read from the gap), argument
  | .app f cs g a, i =>
    .app (f.norm i) cs (if containsNL g then vgap g (indentFromGap g) else [' '])
      (a.norm (if containsNL g then indentFromGap g else i))
  -- `with`, one space or a line break (the environment then at the indentation read from the gap), environment,
  -- `;` attached, then the body: on its own line at the current indentation (after one blank line if the source has
  -- one around the `;`) when the source has a line break around the `;`; else after one space when it is a set /
  -- list (or one in parentheses); else on its own line when it spans several lines; else after one space
  | .kw true c1 g1 h c2 g2 c3 g3 b, i =>
    .kw true c1 (if containsNL g1 then vgap g1 (indentFromGap g1) else [' '])
      (h.norm (if containsNL g1 then indentFromGap g1 else i)) c2 [] c3
      (if gapHasEmptyLine (g2 ++ ';' :: g3) then '\n' :: '\n' :: spaces i
       else if containsNL (g2 ++ ';' :: g3) then '\n' :: spaces i
       else if b.absorbableC then [' ']
       else if containsNL (b.norm i).flatten then '\n' :: spaces i
       else [' '])
      (b.norm i)
  | .kw false c1 g1 h c2 g2 c3 g3 b, _ => .kw false c1 g1 h c2 g2 c3 g3 b     -- `assert`: not covered by the normaliser
  -- expression, nothing or a line break (at the indentation read from the gap), `.`, attrpath
  | .sel e c1 g1 _ attrs, i =>
    .sel (e.norm i) c1 (if containsNL g1 then vgap g1 (indentFromGap g1) else []) [] attrs
  -- … one space or a line break (the default then at the indentation read from the gap), `or`, one space, default
  | .selOr e c1 g1 _ attrs c2 g2 _ d, i =>
    .selOr (e.norm i) c1 (if containsNL g1 then vgap g1 (indentFromGap g1) else []) [] attrs c2
      (if containsNL g2 then vgap g2 (indentFromGap g2) else [' ']) [' ']
      (d.norm (if containsNL g2 then indentFromGap g2 else i))
  -- argument, nothing or a line break, `:`, one space or as many line breaks as the source has and the
  -- current indentation, body
  | .lam n c1 g1 c2 g2 b, i =>
    .lam n c1 (if containsNL g1 then vgap g1 (indentFromGap g1) else []) c2
      (if g2.count '\n' = 0 then [' '] else List.replicate (g2.count '\n') '\n' ++ spaces i) (b.norm i)
  -- operator, nothing or a line break (the operand then at the indentation read from the gap), operand
  | .un op c g e, i =>
    .un op c (if containsNL g then vgap g (indentFromGap g) else []) (e.norm (if containsNL g then indentFromGap g else i))
  -- left, one space or as many line breaks as the source has and the current indentation, operator, one space
  -- or as many line breaks as the source has and the indentation of the right operand, right
  | .bin l c1 g1 op c2 g2 r, i =>
    .bin (l.norm i) c1 (if g1.count '\n' = 0 then [' '] else List.replicate (g1.count '\n') '\n' ++ spaces i) op c2
      (if g2.count '\n' = 0 then [' '] else List.replicate (g2.count '\n') '\n' ++ spaces (binRightIndentC op r i))
      (r.norm (if g2.count '\n' = 0 then i else binRightIndentC op r i))
  -- `if`, condition, `then`, consequence, `else`, alternative: each separated from what precedes it by one space or by a
  -- line break (after one blank line if the source has one) and the indentation read from the gap (condition and
  -- branches are then rendered at that indentation)
  | .ite c1 g1 c c2 g2 c3 g3 t c4 g4 c5 g5 e, i =>
    .ite c1 (sepGap g1) (c.norm (sepIndent g1 i)) c2 (sepGap g2) c3 (sepGap g3) (t.norm (sepIndent g3 i)) c4 (sepGap g4) c5
      (sepGap g5) (e.norm (sepIndent g5 i))
  -- expression, one space or a line break, `?`, one space or a line break, attrpath
  | .has e c1 g1 c2 g2 attrs, i => .has (e.norm i) c1 (sepGap g1) c2 (sepGap g2) attrs
/-- items of a container that spans several lines, one per line at indentation `j` -/
def Items.normML : Items → Nat → Items
  | .nil, _ => .nil
  | .cmt _ _ rest, j => rest.normML j
  | .elem g c rest, j => .elem (vgap g j) (c.norm j) (rest.normML j)
  | .bind g n _ _ _ g2 v _ _ rest, j =>
    if containsNL g2 then
      .bind (vgap g j) n [] [' '] [] (vgap g2 (indentFromGap g2)) (v.norm (indentFromGap g2)) [] [] (rest.normML j)
    else .bind (vgap g j) n [] [' '] [] [' '] (v.norm j) [] [] (rest.normML j)
/-- items of a container on one line -/
def Items.normFlat : Items → Nat → Items
  | .nil, _ => .nil
  | .cmt _ _ rest, j => rest.normFlat j
  | .elem _ c rest, j => .elem [' '] (c.norm j) (rest.normFlat j)
  | .bind _ n _ _ _ _ v _ _ rest, j => .bind [' '] n [] [' '] [] [' '] (v.norm j) [] [] (rest.normFlat j)
end

/-- the whole file -/
def File.norm (f : File) : File :=
  match f.items with
  | .elem _ c .nil =>
    { items := .elem [] (c.norm 0) .nil,
      endGap := if !containsNL f.endGap then [] else if gapHasEmptyLineOffsets f.endGap then ['\n', '\n'] else ['\n'] }
  | _ => f


end Nima.Frag
