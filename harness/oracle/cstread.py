"""Independent observer: reads Nix text through tree-sitter directly (own parser instance; no
code of nix_manipulator involved) — tokens, comments, attribute trees, let chains."""
from __future__ import annotations

import threading

import tree_sitter_nix as _tsn
from tree_sitter import Language, Node, Parser

_LANG = Language(_tsn.language())
_local = threading.local()


def ts_parse(text: str | bytes) -> Node:
    p = getattr(_local, "p", None)
    if p is None:
        p = _local.p = Parser(_LANG)
    b = text.encode("utf-8") if isinstance(text, str) else text
    tree = p.parse(b)
    # keep the tree alive with the node
    root = tree.root_node
    return root


def leaves(node: Node) -> list[Node]:
    """Leaf nodes in document order. String / indented string / path expressions are kept whole
    (their text is their content), comments are leaves."""
    out = []
    stack = [node]
    while stack:
        n = stack.pop()
        if n.child_count == 0 or n.type in (
            "string_expression", "indented_string_expression", "path_expression", "hpath_expression",
            "spath_expression", "uri_expression", "comment",
        ):
            if n.type == "source_code":
                continue
            out.append(n)
        else:
            stack.extend(reversed(n.children))
    return out


def has_missing(node: Node) -> bool:
    stack = [node]
    while stack:
        n = stack.pop()
        if n.is_missing:
            return True
        stack.extend(n.children)
    return False


def strip_formals_trailing_commas(text: str) -> str:
    """Delete every `,` whose next non-trivia token is the `}` closing a formals list.

    The bundled grammar flags that (valid, RFC-prescribed) trailing comma as an error; outputs
    are judged after removing exactly this pattern. Works on the leaf sequence of the tolerant
    parse: a `,` directly followed (ignoring comments) by `}` that is itself followed by `:` or `@`.
    """
    root = ts_parse(text)
    b = text.encode("utf-8")
    ls = [n for n in leaves(root) if n.type != "comment" and not n.is_missing]
    cut = []
    for i, n in enumerate(ls):
        if n.type == "," or (n.type == "ERROR" and b[n.start_byte:n.end_byte] == b","):
            if i + 2 < len(ls) and b[ls[i + 1].start_byte:ls[i + 1].end_byte] == b"}" and \
               b[ls[i + 2].start_byte:ls[i + 2].end_byte] in (b":", b"@"):
                cut.append((n.start_byte, n.end_byte))
    if not cut:
        return text
    out = bytearray()
    pos = 0
    for s, e in cut:
        out += b[pos:s]
        pos = e
    out += b[pos:]
    return out.decode("utf-8")


def error_free(text: str) -> bool:
    """No syntax error, where the formals trailing comma is not counted as one."""
    root = ts_parse(text)
    if not root.has_error:
        return True
    t2 = strip_formals_trailing_commas(text)
    if t2 == text:
        return False
    return not ts_parse(t2).has_error


# ------------------------------------------------------------------ names and attribute trees
_UNESC = {"n": "\n", "r": "\r", "t": "\t"}


def decode_string_node(node: Node) -> str | None:
    """Value of a `"…"` string_expression without interpolation (None if it has one)."""
    out = []
    for ch in node.children:
        if ch.type == "string_fragment":
            out.append(ch.text.decode())
        elif ch.type == "escape_sequence":
            t = ch.text.decode()
            out.append(_UNESC.get(t[1:], t[1:]))
        elif ch.type == "interpolation":
            return None
        elif ch.type in ('"',):
            continue
        elif ch.type == "dollar_escape":
            out.append(ch.text.decode()[1:])
        else:
            # unknown piece: be explicit
            out.append(ch.text.decode())
    return "".join(out)


def attr_name(node: Node) -> str | None:
    if node.type == "identifier":
        return node.text.decode()
    if node.type == "string_expression":
        return decode_string_node(node)
    return None  # interpolation: dynamic attribute


class Duplicate(Exception):
    pass


class Leaf:
    __slots__ = ("text", "node")

    def __init__(self, text, node=None):
        self.text, self.node = text, node

    def __eq__(self, o):
        return isinstance(o, Leaf) and o.text == self.text

    def __repr__(self):
        return f"Leaf({self.text!r})"


def _insert(tree: dict, path: list, value, strict=True):
    cur = tree
    for seg in path[:-1]:
        nxt = cur.get(seg)
        if nxt is None:
            nxt = cur[seg] = {}
        elif not isinstance(nxt, dict):
            raise Duplicate(".".join(map(str, path)))
        cur = nxt
    last = path[-1]
    if last in cur:
        old = cur[last]
        if isinstance(old, dict) and isinstance(value, dict):
            for k, v in value.items():
                _insert(old, [k], v)
            return
        raise Duplicate(".".join(map(str, path)))
    cur[last] = value


def read_bindings(binding_nodes: list[Node]) -> dict:
    """Attribute tree of a binding_set: attrpaths merged, names decoded; raises Duplicate."""
    tree: dict = {}
    for b in binding_nodes:
        if b.type == "binding":
            ap = b.child_by_field_name("attrpath")
            val = b.child_by_field_name("expression")
            names = [attr_name(a) for a in ap.named_children if a.type != "comment"]
            if any(n is None for n in names):
                names = [n if n is not None else ("<dyn>", a.text.decode()) for n, a in
                         zip(names, [a for a in ap.named_children if a.type != "comment"])]
            value = read_value(val)
            _insert(tree, names, value)
        elif b.type in ("inherit", "inherit_from"):
            src = b.child_by_field_name("expression")
            attrs = b.child_by_field_name("attrs")
            for a in (attrs.named_children if attrs else []):
                if a.type == "comment":
                    continue
                nm = attr_name(a)
                _insert(tree, [nm], Leaf(("inherit", src.text.decode() if src else None, nm)))
    return tree


def read_value(node: Node):
    if node.type in ("attrset_expression", "rec_attrset_expression"):
        bs = [c for c in node.named_children if c.type == "binding_set"]
        return read_bindings(bs[0].named_children if bs else [])
    return Leaf(" ".join(node.text.decode().split()), node)


def find_target(node: Node) -> Node | None:
    """The attribute set an edit addresses: through lambda / let / with / assert / parenthesis /
    call-argument wrappers."""
    while node is not None:
        t = node.type
        if t == "source_code":
            kids = [c for c in node.named_children if c.type != "comment"]
            if len(kids) != 1:
                return None
            node = kids[0]
        elif t in ("attrset_expression", "rec_attrset_expression"):
            return node
        elif t in ("function_expression", "let_expression", "with_expression", "assert_expression"):
            node = node.child_by_field_name("body")
        elif t == "parenthesized_expression":
            node = node.child_by_field_name("expression")
        elif t == "apply_expression":
            node = node.child_by_field_name("argument")
        elif t == "variable_expression":
            node = lexical_set_binding(node)
        else:
            return None
    return None


def lexical_set_binding(ref: Node) -> Node | None:
    """`ref` is a name in body / argument position: the value expression of the binding that defines
    it under Nix lexical scoping (innermost enclosing `let` or `rec { }` that binds the name with a
    plain binding; a lambda formal of that name hides outer binders), or None."""
    name = ref.text.decode()
    node = ref
    while node.parent is not None:
        par = node.parent
        if par.type in ("let_expression", "rec_attrset_expression"):
            bs = [c for c in par.named_children if c.type == "binding_set"]
            for b in (bs[0].named_children if bs else []):
                if b.type == "binding":
                    ap = b.child_by_field_name("attrpath")
                    names = [attr_name(a) for a in ap.named_children if a.type != "comment"]
                    if names == [name]:
                        return b.child_by_field_name("expression")
                elif b.type in ("inherit", "inherit_from"):
                    attrs = b.child_by_field_name("attrs")
                    if any(attr_name(a) == name for a in (attrs.named_children if attrs else []) if a.type != "comment"):
                        return None
        elif par.type == "function_expression":
            formals = par.child_by_field_name("formals")
            univ = par.child_by_field_name("universal")
            fnames = [f.child_by_field_name("name").text.decode() for f in (formals.named_children if formals else [])
                      if f.type == "formal" and f.child_by_field_name("name") is not None]
            if univ is not None:
                fnames.append(univ.text.decode())
            if name in fnames:
                return None
        node = par
    return None


def read_doc_tree(text: str) -> dict | None:
    root = ts_parse(text)
    tgt = find_target(root)
    if tgt is None:
        return None
    return read_value(tgt)


def plain(tree):
    """Attribute tree as plain nested dict of strings (for comparison / JSON)."""
    if isinstance(tree, dict):
        return {(k if isinstance(k, str) else repr(k)): plain(v) for k, v in tree.items()}
    return tree.text if isinstance(tree, Leaf) else tree


def let_chain(text: str) -> list[dict] | None:
    """let layers from outermost to innermost that enclose the edit target, as attribute trees."""
    root = ts_parse(text)
    layers = []
    node = root
    while node is not None:
        t = node.type
        if t == "source_code":
            kids = [c for c in node.named_children if c.type != "comment"]
            if len(kids) != 1:
                return None
            node = kids[0]
        elif t in ("attrset_expression", "rec_attrset_expression"):
            return layers
        elif t == "let_expression":
            bs = [c for c in node.named_children if c.type == "binding_set"]
            layers.append(read_bindings(bs[0].named_children if bs else []))
            node = node.child_by_field_name("body")
        elif t in ("function_expression", "with_expression", "assert_expression"):
            node = node.child_by_field_name("body")
        elif t == "parenthesized_expression":
            node = node.child_by_field_name("expression")
        elif t == "apply_expression":
            node = node.child_by_field_name("argument")
        else:
            return None
    return None


# ------------------------------------------------------------------ plain data (C13)
class NotData(Exception):
    """The text is not (only) Nix data: syntax error, interpolation, application, identifier…"""


NIX_INT_MAX = 2**63 - 1


def _data_of(node: Node, allow_minus: bool):
    t = node.type
    if t == "integer_expression":
        n = int(node.text.decode())
        if n > NIX_INT_MAX:
            raise NotData(f"integer literal {n} does not fit Nix's 64-bit integers")
        return n
    if t == "float_expression":
        return float(node.text.decode())
    if t == "string_expression":
        s = decode_string_node(node)
        if s is None:
            raise NotData("string with interpolation")
        if any(ch.type == "string_fragment" and b"\r" in ch.text for ch in node.children):
            # Nix (unescapeStr) normalises a raw CR / CRLF inside a string literal to LF
            raise NotData("raw carriage return in a string literal (Nix reads it as a line feed)")
        return s
    if t == "variable_expression":
        name = node.text.decode()
        if name == "true":
            return True
        if name == "false":
            return False
        if name == "null":
            return None
        raise NotData(f"free identifier {name}")
    if t == "list_expression":
        return [_data_of(c, False) for c in node.named_children if c.type != "comment"]
    if t == "attrset_expression":
        out: dict = {}
        sets = [c for c in node.named_children if c.type == "binding_set"]
        for b in (sets[0].named_children if sets else []):
            if b.type == "comment":
                continue
            if b.type != "binding":
                raise NotData(b.type)
            ap = b.child_by_field_name("attrpath")
            attrs = [a for a in ap.named_children if a.type != "comment"]
            if len(attrs) != 1:
                raise NotData("dotted attribute path")
            name = attr_name(attrs[0])
            if name is None:
                raise NotData("dynamic attribute name")
            if name in out:
                raise NotData(f"duplicate attribute {name}")
            out[name] = _data_of(b.child_by_field_name("expression"), True)
        return out
    if t == "parenthesized_expression":
        inner = node.child_by_field_name("expression")
        if inner is None:
            raise NotData("empty parentheses")
        return _data_of(inner, True)
    if t == "unary_expression" and allow_minus:
        op = node.child_by_field_name("operator")
        arg = node.child_by_field_name("argument")
        if op is not None and op.text == b"-" and arg is not None and arg.type in (
            "integer_expression", "float_expression"
        ):
            v = _data_of(arg, False)
            return -v
    raise NotData(t)


def read_data(text: str):
    """The Python data a Nix text denotes, read from tree-sitter's CST (no nix_manipulator code).

    int / float / str / bool / None / list / dict; raises NotData for anything that is not plain
    data or has a syntax error. A minus sign is accepted in front of a number only where the grammar
    makes it a unary expression (never as a list element: that is a syntax error)."""
    root = ts_parse(text)
    if root.has_error or has_missing(root):
        raise NotData("syntax error")
    kids = [c for c in root.named_children if c.type != "comment"]
    if len(kids) != 1:
        raise NotData("not a single expression")
    return _data_of(kids[0], True)


def same_data(a, b) -> bool:
    """Typed equality: bool is not int, int is not float, -0.0 is not 0.0, dict order is irrelevant."""
    if type(a) is not type(b):
        return False
    if isinstance(a, float):
        import math

        return a == b and math.copysign(1.0, a) == math.copysign(1.0, b)
    if isinstance(a, list):
        return len(a) == len(b) and all(same_data(x, y) for x, y in zip(a, b))
    if isinstance(a, dict):
        return a.keys() == b.keys() and all(same_data(a[k], b[k]) for k in a)
    return a == b
