import NimaVerif.Model.Basic
/-!
L9 (paths): pathlib's pure path operations, a filesystem without symlinks, POSIX path resolution,
and import following (`parser.py:parse_file`, `expressions/path.py:source_path_context /
NixPath.from_cst / NixPath.resolved_path`, `expressions/import_expression.py:
Import._resolve_argument / _follow_import / __getitem__`).

Import-free (core Lean only). Bug-compatible transliteration: the model does what the code does.
-/
namespace Nima

/-! ## pathlib (pure paths, POSIX flavour) -/

abbrev Comp := Text

/-- `pathlib.PurePosixPath`: the anchor (`/` or none) and the components. `.` components and empty
    components never occur (the constructor drops them); `..` is kept (pathlib never collapses it). -/
structure PPath where
  abs : Bool
  comps : List Comp
deriving DecidableEq, Repr

/-- `text.split("/")` -/
def splitSlash : Text → List Text
  | [] => [[]]
  | c :: cs =>
    if c = '/' then [] :: splitSlash cs
    else match splitSlash cs with
      | [] => [[c]]
      | x :: xs => (c :: x) :: xs

/-- `Path(text)`: absolute iff the text starts with `/`; empty and `.` components are dropped.
    (Exactly two leading slashes give pathlib the root `//`, which Linux resolves like `/`.) -/
def parsePath (t : Text) : PPath :=
  ⟨t.head? == some '/', (splitSlash t).filter fun c => !(c == [] || c == ['.'])⟩

/-- `p.parent` (purely lexical: drops the last component, whatever it is; the anchor is its own
    parent). -/
def PPath.parent (p : PPath) : PPath := ⟨p.abs, p.comps.dropLast⟩

/-- `a / b`: an absolute right operand replaces the left one. -/
def PPath.join (a b : PPath) : PPath := if b.abs then b else ⟨a.abs, a.comps ++ b.comps⟩

/-- `~/…` literal (hpath_expression): `self.path.startswith("~/")`. -/
def isHome (t : Text) : Bool := (['~', '/'] : Text).isPrefixOf t

/-- `p.expanduser()`, `home` being `Path(os.path.expanduser("~"))` (the value of `$HOME`, or the
    password database's entry when it is unset): a relative path whose first component is exactly
    `~` gets that component replaced by the home path (anchor included); `~user` needs the password
    database, which is outside the model; every other path is returned as it is. -/
def PPath.expanduser (p home : PPath) : Except Err PPath :=
  if p.abs then .ok p
  else match p.comps with
    | [] => .ok p
    | c :: rest =>
      if c == ['~'] then .ok ⟨home.abs, home.comps ++ rest⟩
      else if c.head? == some '~' then .error (.internal "pwd")
      else .ok p

/-! ## Values and files -/

/-- Argument of an `import` application, as far as `_resolve_argument`/`_follow_import` look at it. -/
inductive Arg where
  | path (text : Text)      -- `NixPath` (path_expression / hpath_expression / spath_expression)
  | paren (a : Arg)         -- `Parenthesis`
  | other                   -- string, integer, identifier, set, list …
deriving DecidableEq, Repr

inductive Val where
  | lit (n : Nat)
  | imp (a : Arg)
  | set (bs : List (Text × Val))
deriving Repr

mutual
def Val.decEq : (a b : Val) → Decidable (a = b)
  | .lit n, .lit m =>
    if h : n = m then isTrue (by rw [h]) else isFalse (by intro h'; injection h' with h'; exact h h')
  | .imp a, .imp b =>
    if h : a = b then isTrue (by rw [h]) else isFalse (by intro h'; injection h' with h'; exact h h')
  | .set as, .set bs =>
    match Val.decEqL as bs with
    | isTrue h => isTrue (by rw [h])
    | isFalse h => isFalse (by intro h'; injection h' with h'; exact h h')
  | .lit _, .imp _ => isFalse (by intro h; cases h)
  | .lit _, .set _ => isFalse (by intro h; cases h)
  | .imp _, .lit _ => isFalse (by intro h; cases h)
  | .imp _, .set _ => isFalse (by intro h; cases h)
  | .set _, .lit _ => isFalse (by intro h; cases h)
  | .set _, .imp _ => isFalse (by intro h; cases h)
def Val.decEqL : (a b : List (Text × Val)) → Decidable (a = b)
  | [], [] => isTrue rfl
  | [], _ :: _ => isFalse (by intro h; cases h)
  | _ :: _, [] => isFalse (by intro h; cases h)
  | (k, v) :: r, (k', v') :: r' =>
    if hk : k = k' then
      match Val.decEq v v' with
      | isTrue hv =>
        match Val.decEqL r r' with
        | isTrue hr => isTrue (by rw [hk, hv, hr])
        | isFalse hr => isFalse (by intro h; injection h with _ h2; exact hr h2)
      | isFalse hv => isFalse (by intro h; injection h with h1 _; injection h1 with _ h4; exact hv h4)
    else isFalse (by intro h; injection h with h1 _; injection h1 with h3 _; exact hk h3)
end

instance : DecidableEq Val := Val.decEq

/-- The top-level expression of a file: an attribute set (possibly under let / lambda / with
    wrappers, which `_resolve_target_set` looks through) or something else. -/
inductive Content where
  | attrs (bs : List (Text × Val))
  | notSet
deriving Repr, DecidableEq

/-- A filesystem WITHOUT symlinks: regular files by canonical absolute path, plus explicitly
    listed (possibly empty) directories. Every proper prefix of an entry is a directory. -/
structure FS where
  files : List (List Comp × Content)
  dirs : List (List Comp)

def FS.isDir (fs : FS) (d : List Comp) : Bool :=
  d.isEmpty || fs.dirs.any (fun p => d.isPrefixOf p) ||
    fs.files.any (fun e => d.isPrefixOf e.1 && d.length < e.1.length)

/-- A regular file: has content and is not a directory (the two are exclusive by definition). -/
def FS.isFile (fs : FS) (p : List Comp) : Bool := !fs.isDir p && (fs.files.lookup p).isSome

def FS.content (fs : FS) (p : List Comp) : Content := (fs.files.lookup p).getD .notSet

/-! ## POSIX path resolution (no symlinks): a walk over the components from a start directory.
`..` is resolved physically, i.e. against the node reached so far, and every intermediate node
must exist and be a directory (ENOENT / ENOTDIR otherwise). -/

def FS.step (fs : FS) (cur : List Comp) (c : Comp) : Except Err (List Comp) :=
  if !fs.isDir cur then .error .os                       -- ENOTDIR
  else if c == ['.'] then .ok cur
  else if c == ['.', '.'] then .ok cur.dropLast          -- the root is its own parent
  else if fs.isDir (cur ++ [c]) || fs.isFile (cur ++ [c]) then .ok (cur ++ [c])
  else .error .os                                        -- ENOENT

def FS.walk (fs : FS) : List Comp → List Comp → Except Err (List Comp)
  | cur, [] => .ok cur
  | cur, c :: cs => match fs.step cur c with
    | .ok n => fs.walk n cs
    | .error e => .error e

/-- `open(path)` for reading, `path` taken relative to the directory `start`: the canonical path of
    the regular file it names, or an OSError (ENOENT, ENOTDIR, EISDIR). -/
def FS.locateFrom (fs : FS) (start : List Comp) (comps : List Comp) : Except Err (List Comp) :=
  if !fs.isDir start then .error .os
  else match fs.walk start comps with
    | .ok n => if fs.isFile n then .ok n else .error .os
    | .error e => .error e

/-- The OS view of a pure path under working directory `cwd`. -/
def FS.locate (fs : FS) (cwd : List Comp) (p : PPath) : Except Err (List Comp) :=
  fs.locateFrom (if p.abs then [] else cwd) p.comps

/-! ## The implementation -/

/-- `Import._resolve_argument`: strip parentheses. -/
def resolveArg : Arg → Arg
  | .paren a => resolveArg a
  | a => a

/-- `self.path.startswith("<") and self.path.endswith(">")` -/
def isAngle (t : Text) : Bool := t.head? == some '<' && t.getLast? == some '>'

/-- `NixPath.resolved_path`, `src` being the `source_path` captured by `NixPath.from_cst` from the
    context variable that `parse_file` set (the path `parse_file` was called with, as spelled) and
    `home` what `Path.home()` is when the method runs. A `~/` literal is anchored at the home
    directory whatever `src` is. -/
def resolvedPath (t : Text) (src : Option PPath) (home : PPath) : Except Err PPath :=
  if isAngle t then .error .value
  else if isHome t then (parsePath t).expanduser home
  else
    let r := parsePath t
    match src with
    | some s => if !r.abs then .ok (s.parent.join r) else .ok r
    | none => .ok r

/-- `_resolve_target_set` as far as this model goes. -/
def topSet : Content → Except Err (List (Text × Val))
  | .attrs bs => .ok bs
  | .notSet => .error .value

def getKey (bs : List (Text × Val)) (k : Text) : Except Err Val :=
  match bs.lookup k with
  | some v => .ok v
  | none => .error .key

/-- `parse_file(r)[k]`: read the file (OSError first), then the top-level set, then the key. -/
def enterFile (fs : FS) (cwd : List Comp) (r : PPath) (k : Text) : Except Err Val :=
  match fs.locate cwd r with
  | .error e => .error e
  | .ok n => match topSet (fs.content n) with
    | .error e => .error e
    | .ok bs => getKey bs k

/-- `v[k1][k2]…` on a value that came out of a file parsed under `source_path = src`.
    Every key follows at most one import hop, so cyclic imports do not loop: they are simply
    followed again, once per key. `home` is the process's home path (constant during the lookup). -/
def implGet (fs : FS) (home : PPath) (cwd : List Comp) : Option PPath → Val → List Text → Except Err Val
  | _, v, [] => .ok v
  | _, .lit _, _ :: _ => .error .type              -- 'IntegerPrimitive' object is not subscriptable
  | src, .set bs, k :: ks =>
    match getKey bs k with
    | .ok v => implGet fs home cwd src v ks
    | .error e => .error e
  | src, .imp a, k :: ks =>
    match resolveArg a with
    | .path t =>
      match resolvedPath t src home with
      | .error e => .error e
      | .ok r =>
        match enterFile fs cwd r k with
        | .ok v => implGet fs home cwd (some r) v ks
        | .error e => .error e
    | _ => .error .type                             -- "Import following requires a NixPath argument"

/-- `parse_file(entry)[k][k1][k2]…` under working directory `cwd` and home path `home`. -/
def implLookup (fs : FS) (home : PPath) (cwd : List Comp) (entry : Text) (k : Text) (ks : List Text) :
    Except Err Val :=
  let p := parsePath entry
  match enterFile fs cwd p k with
  | .ok v => implGet fs home cwd (some p) v ks
  | .error e => .error e

/-! ## The specification: every hop is resolved against the directory of the file that contains
the literal, files being identified by their canonical location; a `~/x` literal is `$HOME/x`. -/

/-- Where the property says the literal `t`, written in the file at `file`, points.
    `~/x` is Nix's home-relative path: the text of `$HOME` (the pure path `home`, whatever it is —
    the OS resolves it, from the working directory should it be relative) followed by `/x`;
    the importing file plays no part. `Props/C17.lean: home_literal_in_home_directory` shows that
    for a canonical home directory `h` this is resolution of `x` from `h`. -/
def specTarget (fs : FS) (home : PPath) (cwd : List Comp) (file : List Comp) (t : Text) :
    Except Err (List Comp) :=
  if isAngle t then .error .value
  else if isHome t then fs.locate cwd ⟨home.abs, home.comps ++ (parsePath (t.drop 2)).comps⟩
  else
    let p := parsePath t
    fs.locateFrom (if p.abs then [] else file.dropLast) p.comps

def specEnter (fs : FS) (n : List Comp) (k : Text) : Except Err Val :=
  match topSet (fs.content n) with
  | .error e => .error e
  | .ok bs => getKey bs k

def specGet (fs : FS) (home : PPath) (cwd : List Comp) : List Comp → Val → List Text → Except Err Val
  | _, v, [] => .ok v
  | _, .lit _, _ :: _ => .error .type
  | file, .set bs, k :: ks =>
    match getKey bs k with
    | .ok v => specGet fs home cwd file v ks
    | .error e => .error e
  | file, .imp a, k :: ks =>
    match resolveArg a with
    | .path t =>
      match specTarget fs home cwd file t with
      | .error e => .error e
      | .ok n =>
        match specEnter fs n k with
        | .ok v => specGet fs home cwd n v ks
        | .error e => .error e
    | _ => .error .type

/-- Lookup starting in the file at canonical location `file`. -/
def specLookup (fs : FS) (home : PPath) (cwd : List Comp) (file : List Comp) (k : Text) (ks : List Text) :
    Except Err Val :=
  match specEnter fs file k with
  | .ok v => specGet fs home cwd file v ks
  | .error e => .error e

/-- The whole specification: locate the entry the way the OS does, then `specLookup`. -/
def specFrom (fs : FS) (home : PPath) (cwd : List Comp) (entry : Text) (k : Text)
    (ks : List Text) : Except Err Val :=
  match fs.locate cwd (parsePath entry) with
  | .ok file => specLookup fs home cwd file k ks
  | .error e => .error e

/-- A canonical absolute location: no `.` and no `..` among the components. -/
def canonical (p : List Comp) : Bool := p.all fun c => !(c == ['.'] || c == ['.', '.'])

/-! ## Filesystems without any `~/` literal (there the home path plays no part:
`Props/C17.lean: home_irrelevant_without_home_literals`). -/

def Arg.noHome : Arg → Bool
  | .path t => !isHome t
  | .paren a => a.noHome
  | .other => true

mutual
def Val.noHome : Val → Bool
  | .lit _ => true
  | .imp a => a.noHome
  | .set bs => noHomeL bs
def noHomeL : List (Text × Val) → Bool
  | [] => true
  | (_, v) :: r => v.noHome && noHomeL r
end

def Content.noHome : Content → Bool
  | .attrs bs => noHomeL bs
  | .notSet => true

def FS.noHome (fs : FS) : Bool := fs.files.all fun e => e.2.noHome

/-! ## Lexical normalisation (how Nix itself canonicalises a path literal): collapse `.` and `..`
without looking at the filesystem. -/

def pathLexStep (cur : List Comp) (c : Comp) : List Comp :=
  if c == ['.'] then cur else if c == ['.', '.'] then cur.dropLast else cur ++ [c]

def lexNorm (start comps : List Comp) : List Comp := comps.foldl pathLexStep start

/-! ## The resolution recipe as data (what the translator re-extracts from `resolved_path`). -/

inductive PExpr where
  | ofText                  -- `Path(self.path)`
  | src                     -- `self.source_path`
  | cwd                     -- `Path.cwd()` / `Path(".").resolve()` (not used by the current code)
  | parent (e : PExpr)      -- `e.parent`
  | join (a b : PExpr)      -- `a / b`
  | expanduser (e : PExpr)  -- `e.expanduser()`
deriving DecidableEq, Repr

inductive PCond where
  | isAbs (e : PExpr)       -- `e.is_absolute()`
  | srcSome                 -- `self.source_path is not None`
  | startsWith (t : Text)   -- `self.path.startswith(t)`
  | endsWith (t : Text)     -- `self.path.endswith(t)`
  | not (c : PCond)
  | and (a b : PCond)
deriving DecidableEq, Repr

/-- `resolved_path` in normal form: raise sites in order, then the early returns
    (`if c: return e`) in order, then `if cond then a else b`. -/
structure Recipe where
  guards : List (PCond × Err)
  early : List (PCond × PExpr)
  cond : PCond
  thenE : PExpr
  elseE : PExpr
deriving DecidableEq, Repr

def PExpr.eval (t : Text) (src : Option PPath) (home cwd : PPath) : PExpr → Except Err PPath
  | .ofText => .ok (parsePath t)
  | .src => match src with
    | some s => .ok s
    | none => .error (.internal "AttributeError")
  | .cwd => .ok cwd
  | .parent e => match e.eval t src home cwd with
    | .ok p => .ok p.parent
    | .error e => .error e
  | .join a b => match a.eval t src home cwd, b.eval t src home cwd with
    | .ok x, .ok y => .ok (x.join y)
    | .error e, _ => .error e
    | _, .error e => .error e
  | .expanduser e => match e.eval t src home cwd with
    | .ok p => p.expanduser home
    | .error e => .error e

def PCond.eval (t : Text) (src : Option PPath) (home cwd : PPath) : PCond → Except Err Bool
  | .isAbs e => match e.eval t src home cwd with
    | .ok p => .ok p.abs
    | .error e => .error e
  | .srcSome => .ok src.isSome
  | .startsWith s => .ok (s.isPrefixOf t)
  | .endsWith s => .ok (s.reverse.isPrefixOf t.reverse)
  | .not c => match c.eval t src home cwd with
    | .ok b => .ok !b
    | .error e => .error e
  | .and a b => match a.eval t src home cwd with     -- Python `and` short-circuits
    | .ok true => b.eval t src home cwd
    | .ok false => .ok false
    | .error e => .error e

def Recipe.runGuards (t : Text) (src : Option PPath) (home cwd : PPath) :
    List (PCond × Err) → Except Err Unit
  | [] => .ok ()
  | (c, err) :: rest => match c.eval t src home cwd with
    | .ok true => .error err
    | .ok false => Recipe.runGuards t src home cwd rest
    | .error e => .error e

/-- The early returns in order: the first whose condition holds decides; `none` = fall through. -/
def Recipe.runEarly (t : Text) (src : Option PPath) (home cwd : PPath) :
    List (PCond × PExpr) → Except Err (Option PPath)
  | [] => .ok none
  | (c, e) :: rest => match c.eval t src home cwd with
    | .ok true => match e.eval t src home cwd with
      | .ok p => .ok (some p)
      | .error err => .error err
    | .ok false => Recipe.runEarly t src home cwd rest
    | .error err => .error err

def Recipe.eval (r : Recipe) (t : Text) (src : Option PPath) (home cwd : PPath) : Except Err PPath :=
  match Recipe.runGuards t src home cwd r.guards with
  | .error e => .error e
  | .ok () => match Recipe.runEarly t src home cwd r.early with
    | .error e => .error e
    | .ok (some p) => .ok p
    | .ok none => match r.cond.eval t src home cwd with
      | .ok true => r.thenE.eval t src home cwd
      | .ok false => r.elseE.eval t src home cwd
      | .error e => .error e

/-- The recipe the model's `resolvedPath` implements (`Props/C17.lean`: `recipe_sound` proves
    that, `tie_resolved_path` proves the Python source still has exactly this recipe). -/
def recipeModel : Recipe where
  guards := [(.and (.endsWith ['>']) (.startsWith ['<']), .value)]
  early := [(.startsWith ['~', '/'], .expanduser .ofText)]
  cond := .and (.not (.isAbs .ofText)) .srcSome
  thenE := .join (.parent .src) .ofText
  elseE := .ofText

/-- Data flow of the plumbing around `resolved_path`, every local variable inlined (translator:
    `Gen.plumbing`; `CV` is the module-level context variable, `arg` the function's parameter):
    `parse_file` reads the very `Path(arg)` it publishes through `source_path_context` and parses
    inside that context; the context manager stores its argument in `CV`; `NixPath.from_cst` reads
    `CV` into `source_path` and the raw node text into `path`; `_resolve_argument` strips
    `Parenthesis`; `_follow_import` raises `TypeError` unless the stripped argument is a `NixPath`
    and calls `parse_file` on its `resolved_path()`; `Import.__getitem__` indexes the result. -/
def plumbingModel : List (String × String) := [
  ("parse_file.returns", "within[source_path_context(Path(arg))](parse(Path(arg).read_text(), source_path=Path(arg)))"),
  ("contextvar.default", "None"),
  ("source_path_context.calls", "CV.set(arg); yield; finally; CV.reset(CV.set(arg))"),
  ("from_cst.path", "node.text.decode()"),
  ("from_cst.source_path", "CV.get()"),
  ("resolve_argument.guards", "self.argument is None -> TypeError"),
  ("resolve_argument.loops", "x=self.argument; while isinstance(x, Parenthesis): x=x.value"),
  ("resolve_argument.returns", "loop"),
  ("follow_import.guards", "not isinstance(self._resolve_argument(), NixPath) -> TypeError"),
  ("follow_import.returns", "parse_file(self._resolve_argument().resolved_path())"),
  ("getitem.returns", "self._follow_import()[key]")]

end Nima
