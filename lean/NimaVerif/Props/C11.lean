import NimaVerif.Model.Edit
/-! # C11 — placeholder until the theorems are in. -/
namespace Nima.C11
theorem resolve_fuel_zero (c : List (List Node)) (n : Text) (v : List Nat) : resolveIdent 0 c n v = none := rfl
end Nima.C11
