"""Gen/Value.lean: constants and dispatch orders of the value-construction / rendering code (C13).

Each table is found by role inside the function that uses it; if the source no longer has the shape
the extractor understands, a `none` sentinel is emitted and the `tie_*` theorem of Props/C13.lean fails.
"""
from __future__ import annotations

import ast

from .translate import ExtractError, Result, const_str, find_function, lean_text, parse_file, run_table


def _find_class(mod: ast.Module, name: str) -> ast.ClassDef:
    for node in ast.walk(mod):
        if isinstance(node, ast.ClassDef) and node.name == name:
            return node
    raise ExtractError(f"class {name} not found")


def _method(cls: ast.ClassDef, name: str) -> ast.FunctionDef:
    for node in cls.body:
        if isinstance(node, (ast.FunctionDef, ast.AsyncFunctionDef)) and node.name == name:
            return node
    raise ExtractError(f"method {cls.name}.{name} not found")


def _int_const(node) -> int | None:
    if isinstance(node, ast.Constant) and isinstance(node.value, int) and not isinstance(node.value, bool):
        return node.value
    return None


def extract_max_inline_width() -> int:
    """The default of `max_width` in `NixList.simple_inline_preview` (a module constant or a literal)."""
    mod = parse_file("expressions/list.py")
    fn = _method(_find_class(mod, "NixList"), "simple_inline_preview")
    args = fn.args
    default = None
    for a, d in zip(args.kwonlyargs, args.kw_defaults):
        if a.arg == "max_width":
            default = d
    pos = args.posonlyargs + args.args
    for a, d in zip(pos[len(pos) - len(args.defaults):], args.defaults):
        if a.arg == "max_width":
            default = d
    if default is None:
        raise ExtractError("simple_inline_preview has no max_width default")
    v = _int_const(default)
    if v is not None:
        return v
    if isinstance(default, ast.Name):
        for node in mod.body:
            if isinstance(node, ast.Assign) and any(isinstance(t, ast.Name) and t.id == default.id for t in node.targets):
                v = _int_const(node.value)
                if v is not None:
                    return v
    raise ExtractError("cannot evaluate the max_width default")


def _gt_const(node, var: str) -> int | None:
    """`<var> > N` -> N"""
    if (
        isinstance(node, ast.Compare)
        and len(node.ops) == 1
        and isinstance(node.ops[0], ast.Gt)
        and isinstance(node.left, ast.Name)
        and node.left.id == var
    ):
        return _int_const(node.comparators[0])
    return None


def extract_auto_multiline() -> tuple[int, int]:
    """Tail of `_auto_multiline`: `count = len(self.value)`, `if inline and indent == 0: return count > A`,
    `return count > B`  ->  (A, B)."""
    mod = parse_file("expressions/list.py")
    fn = _method(_find_class(mod, "NixList"), "_auto_multiline")
    body = fn.body
    if len(body) < 3:
        raise ExtractError("_auto_multiline: body too short")
    last, cond = body[-1], body[-2]
    count_var = None
    for st in body:
        if (
            isinstance(st, ast.Assign)
            and isinstance(st.value, ast.Call)
            and isinstance(st.value.func, ast.Name)
            and st.value.func.id == "len"
            and isinstance(st.targets[0], ast.Name)
        ):
            a = st.value.args[0]
            if isinstance(a, ast.Attribute) and a.attr == "value":
                count_var = st.targets[0].id
    if count_var is None:
        raise ExtractError("_auto_multiline: no `count = len(self.value)`")
    if not isinstance(last, ast.Return) or _gt_const(last.value, count_var) is None:
        raise ExtractError("_auto_multiline: last statement is not `return count > N`")
    if not (isinstance(cond, ast.If) and not cond.orelse and len(cond.body) == 1 and isinstance(cond.body[0], ast.Return)):
        raise ExtractError("_auto_multiline: no `if inline and indent == 0: return …` before the last return")
    a = _gt_const(cond.body[0].value, count_var)
    if a is None:
        raise ExtractError("_auto_multiline: guarded return is not `count > N`")
    t = cond.test
    ok = (
        isinstance(t, ast.BoolOp)
        and isinstance(t.op, ast.And)
        and len(t.values) == 2
        and isinstance(t.values[0], ast.Name)
        and t.values[0].id == "inline"
        and isinstance(t.values[1], ast.Compare)
        and isinstance(t.values[1].left, ast.Name)
        and t.values[1].left.id == "indent"
        and isinstance(t.values[1].ops[0], ast.Eq)
        and _int_const(t.values[1].comparators[0]) == 0
    )
    if not ok:
        raise ExtractError("_auto_multiline: guard is not `inline and indent == 0`")
    return a, _gt_const(last.value, count_var)


def _len_cmp_const(node, op) -> int | None:
    """`len(<x>) <op> N` -> N"""
    if (
        isinstance(node, ast.Compare)
        and len(node.ops) == 1
        and isinstance(node.ops[0], op)
        and isinstance(node.left, ast.Call)
        and isinstance(node.left.func, ast.Name)
        and node.left.func.id == "len"
    ):
        return _int_const(node.comparators[0])
    return None


def extract_single_binding() -> int:
    """`from_dict`: `multiline = len(values_list) != N`; `__post_init__`: `if self.multiline and len(items) == N`."""
    mod = parse_file("expressions/set.py")
    cls = _find_class(mod, "AttributeSet")
    fd = _method(cls, "from_dict")
    n1 = None
    for node in ast.walk(fd):
        if isinstance(node, ast.Assign) and isinstance(node.targets[0], ast.Name) and node.targets[0].id == "multiline":
            n1 = _len_cmp_const(node.value, ast.NotEq)
    pi = _method(cls, "__post_init__")
    n2 = None
    for node in ast.walk(pi):
        if isinstance(node, ast.If) and isinstance(node.test, ast.BoolOp) and isinstance(node.test.op, ast.And):
            vals = node.test.values
            if (
                len(vals) == 2
                and isinstance(vals[0], ast.Attribute)
                and vals[0].attr == "multiline"
                and _len_cmp_const(vals[1], ast.Eq) is not None
            ):
                sets_false = any(
                    isinstance(st, ast.Assign)
                    and isinstance(st.targets[0], ast.Attribute)
                    and st.targets[0].attr == "multiline"
                    and isinstance(st.value, ast.Constant)
                    and st.value.value is False
                    for st in node.body
                )
                if sets_false:
                    n2 = _len_cmp_const(vals[1], ast.Eq)
    if n1 is None:
        raise ExtractError("from_dict: no `multiline = len(…) != N`")
    if n2 is None:
        raise ExtractError("__post_init__: no `if self.multiline and len(items) == N: self.multiline = False`")
    if n1 != n2:
        raise ExtractError(f"from_dict and __post_init__ disagree on the single-binding count ({n1} vs {n2})")
    return n1


def _returned(fn: ast.FunctionDef):
    rets = [n for n in ast.walk(fn) if isinstance(n, ast.Return)]
    if len(rets) != 1:
        raise ExtractError(f"{fn.name}: expected one return")
    return rets[0].value


def extract_literals() -> dict:
    """`_render_value` of NullPrimitive / BooleanPrimitive / StringPrimitive / IntegerPrimitive."""
    mod = parse_file("expressions/primitive.py")
    null = const_str(_returned(_method(_find_class(mod, "NullPrimitive"), "_render_value")))
    b = _returned(_method(_find_class(mod, "BooleanPrimitive"), "_render_value"))
    if not (isinstance(b, ast.IfExp) and isinstance(b.test, ast.Attribute) and b.test.attr == "value"):
        raise ExtractError("BooleanPrimitive._render_value is not `A if self.value else B`")
    t, f = const_str(b.body), const_str(b.orelse)
    if null is None or t is None or f is None:
        raise ExtractError("literal spellings are not constants")
    # string: f'"{raw_value}"' with raw_value = self.value if self.raw_string else <escaper>(self.value)
    sfn = _method(_find_class(mod, "StringPrimitive"), "_render_value")
    s = _returned(sfn)
    if not (isinstance(s, ast.JoinedStr) and len(s.values) == 3 and const_str(s.values[0]) is not None
            and isinstance(s.values[1], ast.FormattedValue) and const_str(s.values[2]) is not None):
        raise ExtractError("StringPrimitive._render_value is not f'<q>{raw}<q>'")
    esc_kw = None
    for node in ast.walk(sfn):
        if isinstance(node, ast.IfExp) and isinstance(node.orelse, ast.Call) and isinstance(node.orelse.func, ast.Name):
            call = node.orelse
            escaper = find_function(mod, call.func.id)
            kw = [k for k in call.keywords if k.arg == "escape_interpolation"]
            if kw:
                if isinstance(kw[0].value, ast.Constant):
                    esc_kw = bool(kw[0].value.value)
            else:
                for a, d in zip(escaper.args.kwonlyargs, escaper.args.kw_defaults):
                    if a.arg == "escape_interpolation" and isinstance(d, ast.Constant):
                        esc_kw = bool(d.value)
    if esc_kw is None:
        raise ExtractError("StringPrimitive._render_value: cannot tell how the escaper is called")
    # integer: f"{self.value}"
    i = _returned(_method(_find_class(mod, "IntegerPrimitive"), "_render_value"))
    int_plain = (
        isinstance(i, ast.JoinedStr) and len(i.values) == 1 and isinstance(i.values[0], ast.FormattedValue)
        and i.values[0].format_spec is None and i.values[0].conversion == -1
    ) or (isinstance(i, ast.Call) and isinstance(i.func, ast.Name) and i.func.id == "str")
    if not int_plain:
        raise ExtractError("IntegerPrimitive._render_value is not the plain decimal form")
    return {"null": null, "true": t, "false": f, "open": const_str(s.values[0]), "close": const_str(s.values[2]),
            "interp": esc_kw}


def _dispatch_order(fn: ast.FunctionDef, var: str) -> list[str]:
    out = []
    for st in fn.body:
        if not isinstance(st, ast.If):
            continue
        t = st.test
        if (isinstance(t, ast.Call) and isinstance(t.func, ast.Name) and t.func.id == "isinstance"
                and isinstance(t.args[0], ast.Name) and t.args[0].id == var and isinstance(t.args[1], ast.Name)):
            out.append(t.args[1].id)
        elif (isinstance(t, ast.Compare) and isinstance(t.left, ast.Name) and t.left.id == var
              and isinstance(t.ops[0], ast.Is) and isinstance(t.comparators[0], ast.Constant)
              and t.comparators[0].value is None):
            out.append("None")
        else:
            raise ExtractError(f"{fn.name}: unrecognised dispatch test")
    return out


def extract_coerce_order() -> dict:
    """Order of the type tests in `coerce_expression` and `_primitive_cls_from_value` (bool before int),
    and that floats are rendered through `repr`."""
    emod = parse_file("expressions/expression.py")
    ce = find_function(emod, "coerce_expression")
    order = _dispatch_order(ce, ce.args.args[0].arg)
    pmod = parse_file("expressions/primitive.py")
    pc = find_function(pmod, "_primitive_cls_from_value")
    porder = _dispatch_order(pc, pc.args.args[0].arg)
    float_repr = False
    for node in ast.walk(ce):
        if isinstance(node, ast.Call) and isinstance(node.func, ast.Name) and node.func.id == "FloatExpression":
            for kw in node.keywords:
                if kw.arg == "value" and isinstance(kw.value, ast.Call) and isinstance(kw.value.func, ast.Name) \
                        and kw.value.func.id in ("repr", "str"):  # identical for floats in Python 3
                    float_repr = True
    if not float_repr:
        raise ExtractError("coerce_expression: floats are not rendered as FloatExpression(value=repr(value))")
    return {"coerce": order, "primitive": porder}


def emit(res: Result) -> dict[str, str]:
    out = [
        "/- GENERATED by harness/translate/translate.py from /repo on every run. Do not edit. -/",
        "namespace Nima.Gen",
        "",
    ]
    w = run_table(res, "max_inline_width", extract_max_inline_width)
    out.append(f"def maxInlineListWidth : Option Nat := {'none' if w is None else f'some {w}'}")
    am = run_table(res, "auto_multiline", extract_auto_multiline)
    out.append("def autoMultilineThresholds : Option (Nat × Nat) := "
               + ("none" if am is None else f"some ({am[0]}, {am[1]})"))
    sb = run_table(res, "single_binding", extract_single_binding)
    out.append(f"def singleBindingCount : Option Nat := {'none' if sb is None else f'some {sb}'}")
    lit = run_table(res, "literals", extract_literals)
    if lit is None:
        out += ["def litNull : Option (List Char) := none", "def litTrue : Option (List Char) := none",
                "def litFalse : Option (List Char) := none", "def stringQuotes : Option (List Char × List Char) := none",
                "def stringEscapesInterpolation : Option Bool := none"]
    else:
        out += [f"def litNull : Option (List Char) := some {lean_text(lit['null'])}",
                f"def litTrue : Option (List Char) := some {lean_text(lit['true'])}",
                f"def litFalse : Option (List Char) := some {lean_text(lit['false'])}",
                f"def stringQuotes : Option (List Char × List Char) := some ({lean_text(lit['open'])}, {lean_text(lit['close'])})",
                f"def stringEscapesInterpolation : Option Bool := some {'true' if lit['interp'] else 'false'}"]
    co = run_table(res, "coerce_order", extract_coerce_order)
    fmt = lambda xs: "[" + ", ".join('"' + x + '"' for x in xs) + "]"
    if co is None:
        out += ["def coerceOrder : Option (List String) := none", "def primitiveOrder : Option (List String) := none"]
    else:
        out += [f"def coerceOrder : Option (List String) := some {fmt(co['coerce'])}",
                f"def primitiveOrder : Option (List String) := some {fmt(co['primitive'])}"]
    out += ["", "end Nima.Gen", ""]
    return {"Value.lean": "\n".join(out)}
