import NimaVerif.Props.C07
open Nima.C07
#print axioms tie_gate
#print axioms passthrough
#print axioms flagged
#print axioms set_refused
#print axioms rm_refused
#print axioms bad_value_refused
#print axioms erroneous_text
