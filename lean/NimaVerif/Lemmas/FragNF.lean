import NimaVerif.Lemmas.FragSafe
/-! Spacing normal form of the piece-level renderer's output (container fragment). Core Lean only. -/
namespace Nima.Frag
open Nima

/-! ### summaries: a piece list read as leading whitespace, first token, "everything between is in
normal form", trailing whitespace -/

theorem comb_assoc (a b c : Summ) : (a.comb b).comb c = a.comb (b.comb c) := by
  cases a <;> cases b <;> cases c <;> simp [Summ.comb, List.append_assoc, Bool.and_assoc]

theorem comb_blank_nil_left (a : Summ) : (Summ.blank []).comb a = a := by cases a <;> simp [Summ.comb]
theorem comb_blank_nil_right (a : Summ) : a.comb (.blank []) = a := by cases a <;> simp [Summ.comb]

theorem summ_append : ∀ (a b : List FP), summ (a ++ b) = (summ a).comb (summ b)
  | [], b => by simp [summ, comb_blank_nil_left]
  | p :: a, b => by simp only [List.cons_append, summ, summ_append a b, comb_assoc]

@[simp] theorem summ_nil : summ [] = .blank [] := rfl
theorem summ_ws (s : Text) : summ [.ws s] = .blank s := by simp [summ, summ1, Summ.comb]
theorem summ_tok (s : Text) : summ [.tok s] = .lexy [] (.tok s) true [] := by simp [summ, summ1, Summ.comb]
theorem summ_cmt (s : Text) : summ [.cmt s] = .lexy [] (.cmt s) true [] := by simp [summ, summ1, Summ.comb]
theorem summ_cons (p : FP) (rest : List FP) : summ (p :: rest) = (summ1 p).comb (summ rest) := rfl

def nl (n : Nat) : Text := List.replicate n '\n'

@[simp] theorem nl_zero : nl 0 = [] := rfl
theorem nl_succ (n : Nat) : nl (n + 1) = '\n' :: nl n := rfl
theorem nl_one : nl 1 = ['\n'] := rfl

theorem isNormalSep_nl_spaces (k : Nat) : isNormalSep ('\n' :: spaces k) = true := by
  have := all_spaces k
  cases k with
  | zero => rfl
  | succ n => simp only [isNormalSep, spaces_succ]; simpa [spaces_succ] using this

theorem isNormalSep_nlnl_spaces (k : Nat) : isNormalSep ('\n' :: '\n' :: spaces k) = true := by
  have := all_spaces k
  simp only [isNormalSep]; exact this

/-- one or two line breaks followed by an indentation run: an acceptable separator in front of
    anything but `;` -/
theorem sepOk_vert (a : Nat) (ha : a ≤ 1) (k : Nat) (x : Lex) (hx : x ≠ .tok [';']) :
    sepOk ('\n' :: nl a ++ spaces k) x = true := by
  have hne : (x != Lex.tok [';']) = true := by simpa using hx
  unfold sepOk
  rw [hne, Bool.true_or, Bool.and_true]
  match a, ha with
  | 0, _ => exact isNormalSep_nl_spaces k
  | 1, _ => exact isNormalSep_nlnl_spaces k

/-! ### summaries of whitespace-only lists and cuts -/

theorem summ_of_concat_nil : ∀ {ps : List FP}, Solid ps → concat ps = [] → summ ps = .blank []
  | [], _, _ => rfl
  | p :: rest, hs, h => by
    obtain ⟨hp, hr⟩ := solid_of_cons hs
    rw [concat_cons] at h
    have h1 : p.text = [] := (List.append_eq_nil_iff.mp h).1
    have h2 := summ_of_concat_nil hr (List.append_eq_nil_iff.mp h).2
    cases p with
    | ws s => simp only [text_ws] at h1; subst h1; simp [summ_cons, summ1, h2, Summ.comb]
    | tok s => exact absurd h1 hp.1
    | cmt s => exact absurd h1 hp.1

/-- the last character of the trailing whitespace -/
def Summ.dropLastWs : Summ → Summ
  | .blank w => .blank w.dropLast
  | .lexy l f i t => .lexy l f i t.dropLast

def Summ.endsWs : Summ → Bool
  | .blank w => !w.isEmpty
  | .lexy _ _ _ t => !t.isEmpty

theorem comb_dropLastWs (a b : Summ) (hb : b.endsWs = true) : (a.comb b).dropLastWs = a.comb b.dropLastWs := by
  cases a <;> cases b <;> simp only [Summ.comb, Summ.dropLastWs, Summ.endsWs, Bool.not_eq_true',
    List.isEmpty_eq_false_iff] at hb ⊢
  · rw [List.dropLast_append_of_ne_nil hb]
  · rw [List.dropLast_append_of_ne_nil hb]

theorem summ_concat_nonempty : ∀ {ps : List FP}, Solid ps → concat ps ≠ [] → (summ ps ≠ .blank [])
  | [], _, h => absurd rfl h
  | p :: rest, hs, h => by
    obtain ⟨hp, hr⟩ := solid_of_cons hs
    cases p with
    | ws s =>
      by_cases hs0 : s = []
      · subst hs0
        simp only [concat_cons, text_ws, List.nil_append] at h
        have := summ_concat_nonempty hr h
        simp only [summ_cons, summ1]
        cases hsr : summ rest with
        | blank w => rw [hsr] at this; simp only [Summ.comb, List.nil_append]; exact this
        | lexy l f i t => simp [Summ.comb]
      · simp only [summ_cons, summ1]
        cases summ rest with
        | blank w => simp [Summ.comb, hs0]
        | lexy l f i t => simp [Summ.comb]
    | tok s => simp only [summ_cons, summ1]; cases summ rest <;> simp [Summ.comb]
    | cmt s => simp only [summ_cons, summ1]; cases summ rest <;> simp [Summ.comb]

/-- a solid list that ends in whitespace: its summary says so -/
theorem endsWs_of_endsWithNL : ∀ {ps : List FP}, Solid ps → endsWithNL (concat ps) = true → (summ ps).endsWs = true
  | [], _, h => by simp [endsWithNL] at h
  | p :: rest, hs, h => by
    obtain ⟨hp, hr⟩ := solid_of_cons hs
    by_cases he : concat rest = []
    · rw [concat_cons, he, List.append_nil] at h
      rw [summ_cons, summ_of_concat_nil hr he, comb_blank_nil_right]
      cases p with
      | ws s =>
        simp only [text_ws] at h
        cases s with
        | nil => simp [endsWithNL] at h
        | cons c r => rfl
      | tok s => simp only [text_tok] at h; rw [hp.2] at h; cases h
      | cmt s => simp only [text_cmt] at h; rw [hp.2] at h; cases h
    · rw [concat_cons, endsWithNL_append_of_ne_nil _ _ he] at h
      have ih := endsWs_of_endsWithNL hr h
      rw [summ_cons]
      cases hsr : summ rest with
      | blank w => rw [hsr] at ih; cases summ1 p <;> simp_all [Summ.comb, Summ.endsWs]
      | lexy l f i t => rw [hsr] at ih; cases summ1 p <;> simp_all [Summ.comb, Summ.endsWs]

theorem summ_dropLastCharP : ∀ {ps : List FP}, Solid ps → (summ ps).endsWs = true →
    summ (dropLastCharP ps) = (summ ps).dropLastWs
  | [], _, h => by simp [Summ.endsWs] at h
  | p :: rest, hs, h => by
    obtain ⟨hp, hr⟩ := solid_of_cons hs
    simp only [dropLastCharP]
    by_cases he : (concat rest).isEmpty = true
    · have h0 : concat rest = [] := by simpa using he
      have hsr := summ_of_concat_nil hr h0
      rw [summ_cons, hsr, comb_blank_nil_right] at h ⊢
      simp only [he, if_true]
      cases p with
      | ws s =>
        by_cases hl : s.length ≤ 1
        · simp only [text_ws, hl, if_true, summ_nil, summ1, Summ.dropLastWs]
          match s, hl with
          | [], _ => rfl
          | [_], _ => rfl
        · simp only [text_ws, hl, if_false, FP.withText, summ_ws, summ1, Summ.dropLastWs]
      | tok s => simp [summ1, Summ.endsWs] at h
      | cmt s => simp [summ1, Summ.endsWs] at h
    · have h0 : concat rest ≠ [] := by simpa using he
      simp only [he, Bool.false_eq_true, if_false]
      have hne := summ_concat_nonempty hr h0
      have hrest : (summ rest).endsWs = true := by
        rw [summ_cons] at h
        cases hsr : summ rest with
        | blank w =>
          rw [hsr] at h hne
          have hw : w ≠ [] := by intro e; subst e; exact hne rfl
          simp [Summ.endsWs, hw]
        | lexy l f i t =>
          rw [hsr] at h
          cases hp1 : summ1 p <;> rw [hp1] at h <;> simpa [Summ.comb, Summ.endsWs] using h
      rw [summ_cons, summ_cons, summ_dropLastCharP hr hrest, comb_dropLastWs _ _ hrest]

/-! ### trivia lists as the parser builds them -/

/-- no two layout markers in a row -/
def Alt : List Trivia → Prop
  | [] => True
  | [_] => True
  | x :: y :: r => ¬ (x.isLayout = true ∧ y.isLayout = true) ∧ Alt (y :: r)

def leadE : List Trivia → Nat
  | .emptyLine :: _ => 1
  | _ => 0

def trailE (ts : List Trivia) : Nat :=
  match ts.getLast? with
  | some .emptyLine => 1
  | _ => 0

theorem leadE_le (ts : List Trivia) : leadE ts ≤ 1 := by
  unfold leadE; split <;> omega
theorem trailE_le (ts : List Trivia) : trailE ts ≤ 1 := by
  unfold trailE; split <;> omega

theorem alt_tail {t : Trivia} {ts : List Trivia} (h : Alt (t :: ts)) : Alt ts := by
  cases ts with
  | nil => trivial
  | cons y r => exact h.2

theorem trailE_cons (t : Trivia) {ts : List Trivia} (h : ts ≠ []) : trailE (t :: ts) = trailE ts := by
  unfold trailE; rw [List.getLast?_cons_of_ne_nil h]

/-- without comments such a list has at most one element -/
theorem alt_noCmt {ts : List Trivia} (hok : TrivOk ts) (ha : Alt ts) (hc : cm ts = []) :
    ts = [] ∨ ts = [.emptyLine] ∨ ts = [.linebreak] := by
  match ts, hok, ha, hc with
  | [], _, _, _ => exact Or.inl rfl
  | .comment c :: _, _, _, hc => simp at hc
  | .comma :: _, hok, _, _ => exact absurd (List.mem_cons_self ..) hok.1
  | [.emptyLine], _, _, _ => exact Or.inr (Or.inl rfl)
  | [.linebreak], _, _, _ => exact Or.inr (Or.inr rfl)
  | .emptyLine :: y :: r, hok, ha, hc =>
    exfalso
    cases y with
    | emptyLine => exact ha.1 ⟨rfl, rfl⟩
    | linebreak => exact ha.1 ⟨rfl, rfl⟩
    | comma => exact hok.1 (by simp)
    | comment c => simp at hc
  | .linebreak :: y :: r, hok, ha, hc =>
    exfalso
    cases y with
    | emptyLine => exact ha.1 ⟨rfl, rfl⟩
    | linebreak => exact ha.1 ⟨rfl, rfl⟩
    | comma => exact hok.1 (by simp)
    | comment c => simp at hc

theorem cmtP_summ {c : Comment} (i : Nat) :
    summ (cmtP c i ++ [.ws ['\n']]) = .lexy (spaces (c.effIndent i)) (.cmt (c.token (c.effIndent i))) true ['\n'] := by
  simp [cmtP, summ_cons, summ1, Summ.comb]

theorem cmt_ne_semi (s : Text) : Lex.cmt s ≠ Lex.tok [';'] := by intro h; cases h

/-- the summary of `format_trivia` on such a list -/
theorem linesP_summ (i : Nat) : ∀ (ts : List Trivia), TrivOk ts → Alt ts →
    (cm ts = [] → summ (linesP i ts) = .blank (nl (leadE ts))) ∧
    (cm ts ≠ [] → ∃ k s, summ (linesP i ts) = .lexy (nl (leadE ts) ++ spaces k) (.cmt s) true ('\n' :: nl (trailE ts)) ∧
      (∀ c rest, ts = .comment c :: rest → k = c.effIndent i))
  | [], _, _ => ⟨fun _ => rfl, fun h => absurd rfl h⟩
  | .comma :: rest, hok, _ => absurd (List.mem_cons_self ..) hok.1
  | .comment c :: rest, hok, ha => by
    have ih := linesP_summ i rest (trivOk_cons hok) (alt_tail ha)
    refine ⟨fun h => by simp at h, fun _ => ?_⟩
    rw [linesP_cons, summ_append]
    simp only [itemP, cmtP_summ]
    by_cases hc : cm rest = []
    · rw [ih.1 hc]
      refine ⟨c.effIndent i, c.token (c.effIndent i), ?_, fun c' rest' he => by injection he with h1 _; injection h1 with h1; subst h1; rfl⟩
      have h0 : leadE (Trivia.comment c :: rest) = 0 := rfl
      rw [h0]
      simp only [Summ.comb, nl_zero, List.nil_append]
      rcases alt_noCmt (trivOk_cons hok) (alt_tail ha) hc with h | h | h <;> subst h <;> rfl
    · obtain ⟨k', s', hs, _⟩ := ih.2 hc
      rw [hs]
      have hne : rest ≠ [] := by intro e; subst e; exact hc rfl
      refine ⟨c.effIndent i, c.token (c.effIndent i), ?_, fun c' rest' he => by injection he with h1 _; injection h1 with h1; subst h1; rfl⟩
      have h0 : leadE (Trivia.comment c :: rest) = 0 := rfl
      rw [h0]
      simp only [Summ.comb, nl_zero, List.nil_append, trailE_cons _ hne, Bool.true_and, Bool.and_true]
      rw [show (['\n'] ++ (nl (leadE rest) ++ spaces k')) = '\n' :: nl (leadE rest) ++ spaces k' from rfl,
        sepOk_vert _ (leadE_le rest) _ _ (cmt_ne_semi _)]
  | .emptyLine :: rest, hok, ha => by
    have ih := linesP_summ i rest (trivOk_cons hok) (alt_tail ha)
    rw [linesP_cons, summ_append]
    simp only [itemP, summ_ws]
    match rest, hok, ha, ih with
    | [], _, _, _ => exact ⟨fun _ => rfl, fun h => absurd rfl h⟩
    | .comma :: r, hok, _, _ => exact absurd (by simp) hok.1
    | .emptyLine :: r, _, ha, _ => exact absurd ⟨rfl, rfl⟩ ha.1
    | .linebreak :: r, _, ha, _ => exact absurd ⟨rfl, rfl⟩ ha.1
    | .comment c :: r, _, _, ih =>
      refine ⟨fun h => by simp at h, fun _ => ?_⟩
      obtain ⟨k', s', hs, hk⟩ := ih.2 (by simp)
      rw [hs]
      refine ⟨k', s', ?_, fun c' rest' he => by cases he⟩
      simp [Summ.comb, leadE, nl_succ, trailE_cons]
  | .linebreak :: rest, hok, ha => by
    have ih := linesP_summ i rest (trivOk_cons hok) (alt_tail ha)
    rw [linesP_cons, summ_append]
    simp only [itemP, summ_nil, comb_blank_nil_left]
    match rest, hok, ha, ih with
    | [], _, _, _ => exact ⟨fun _ => rfl, fun h => absurd rfl h⟩
    | .comma :: r, hok, _, _ => exact absurd (by simp) hok.1
    | .emptyLine :: r, _, ha, _ => exact absurd ⟨rfl, rfl⟩ ha.1
    | .linebreak :: r, _, ha, _ => exact absurd ⟨rfl, rfl⟩ ha.1
    | .comment c :: r, _, _, ih =>
      refine ⟨fun h => by simp at h, fun _ => ?_⟩
      obtain ⟨k', s', hs, hk⟩ := ih.2 (by simp)
      rw [hs]
      refine ⟨k', s', ?_, fun c' rest' he => by cases he⟩
      simp [leadE, trailE_cons]

def TrailT (t : Text) : Prop := t = [] ∨ t = ['\n'] ∨ t = ['\n', '\n']
def VLead (l : Text) : Prop := ∃ a k, a ≤ 1 ∧ l = nl a ++ spaces k
/-- the list is empty or ends with a comment -/
def closedT (ts : List Trivia) : Prop := ts = [] ∨ ∃ c, ts.getLast? = some (.comment c)

def Summ.trailT : Summ → Text
  | .blank w => w
  | .lexy _ _ _ t => t

theorem trailT_nl (b : Nat) (hb : b ≤ 1) : TrailT ('\n' :: nl b) := by
  match b, hb with
  | 0, _ => exact Or.inr (Or.inl rfl)
  | 1, _ => exact Or.inr (Or.inr rfl)

theorem vlead_nil : VLead [] := ⟨0, 0, by omega, rfl⟩
theorem vlead_spaces (k : Nat) : VLead (spaces k) := ⟨0, k, by omega, rfl⟩
theorem vlead_mk (a k : Nat) (ha : a ≤ 1) : VLead (nl a ++ spaces k) := ⟨a, k, ha, rfl⟩

theorem sepOk_nl_vlead {l : Text} (hl : VLead l) (x : Lex) (hx : x ≠ .tok [';']) : sepOk ('\n' :: l) x = true := by
  obtain ⟨a, k, ha, rfl⟩ := hl
  exact sepOk_vert a ha k x hx

theorem sepOk_space (x : Lex) (hx : x ≠ .tok [';']) : sepOk [' '] x = true := by
  have hne : (x != Lex.tok [';']) = true := by simpa using hx
  simp [sepOk, hne, isNormalSep]

theorem sepOk_nil (x : Lex) : sepOk [] x = true := by simp [sepOk, isNormalSep]

theorem getLast?_concat_comment {ts : List Trivia} {c : Comment} (h : ts.getLast? = some (.comment c)) :
    ∃ init, ts = init ++ [.comment c] := by
  have hne : ts ≠ [] := by intro e; subst e; cases h
  refine ⟨ts.dropLast, ?_⟩
  have h1 := List.dropLast_concat_getLast hne
  have h2 := List.getLast?_eq_some_getLast hne
  rw [h] at h2; injection h2 with h2
  rw [← h2] at h1; exact h1.symm

theorem trailE_of_comment {ts : List Trivia} {c : Comment} (h : ts.getLast? = some (.comment c)) : trailE ts = 0 := by
  unfold trailE; rw [h]

theorem cm_ne_nil_of_last {ts : List Trivia} {c : Comment} (h : ts.getLast? = some (.comment c)) : cm ts ≠ [] := by
  obtain ⟨init, rfl⟩ := getLast?_concat_comment h
  simp

/-- `trim_trailing_layout_newline` on a list that ends with a comment: the trailing line break goes -/
theorem trimmed_summ_comment (i : Nat) {ts all : List Trivia} (hok : TrivOk ts) (ha : Alt ts) {c : Comment}
    (hl : ts.getLast? = some (.comment c)) (hall : all.getLast? = some (.comment c)) :
    ∃ k s, summ (trimP all (linesP i ts)) = .lexy (nl (leadE ts) ++ spaces k) (.cmt s) true [] ∧
      (∀ c' rest, ts = .comment c' :: rest → k = c'.effIndent i) := by
  obtain ⟨k, s, hs, hk⟩ := (linesP_summ i ts hok ha).2 (cm_ne_nil_of_last hl)
  obtain ⟨init, hinit⟩ := getLast?_concat_comment hl
  have hends : endsWithNL (concat (linesP i ts)) = true := by
    rw [hinit, linesP_append, linesP_cons, linesP_nil]
    simp only [itemP, List.append_nil]
    rw [← List.append_assoc]; exact endsWithNL_concat_snoc_nl _
  have hsolid : Solid (linesP i ts) := by rw [← fmtP_lines hok.1]; exact fmtP_solid hok i
  refine ⟨k, s, ?_, hk⟩
  unfold trimP
  rw [hall]
  simp only [Trivia.isLayout, Bool.not_false, Bool.true_and, hends, if_true]
  rw [summ_dropLastCharP hsolid (by rw [hs]; rfl), hs, trailE_of_comment hl]
  rfl

theorem trimP_of_layout_last (all : List Trivia) (ps : List FP)
    (h : all = [] ∨ ∃ t, all.getLast? = some t ∧ t.isLayout = true) : trimP all ps = ps := by
  unfold trimP
  rcases h with h | ⟨t, ht, hl⟩
  · subst h; rfl
  · rw [ht]; simp [hl]

theorem nlBlockP_summ {ps : List FP} (hs : Solid ps) :
    summ (nlBlockP ps) = if summ ps = .blank [] then .blank [] else (Summ.blank ['\n']).comb (summ ps) := by
  unfold nlBlockP
  by_cases he : (concat ps).isEmpty = true
  · have h0 : concat ps = [] := by simpa using he
    simp [he, summ_of_concat_nil hs h0]
  · have h0 : concat ps ≠ [] := by simpa using he
    have := summ_concat_nonempty hs h0
    simp only [he, Bool.false_eq_true, if_false, this]
    rw [summ_cons]; rfl

/-- the shape of a block that starts on a new line after a token: nothing, a blank line, or
    comment lines -/
def BlockS (X : Summ) : Prop :=
  X = .blank [] ∨ X = .blank ['\n', '\n'] ∨
  ∃ l' s t, X = .lexy ('\n' :: l') (.cmt s) true t ∧ VLead l' ∧ TrailT t

theorem last_cases (ts : List Trivia) (hok : TrivOk ts) (hne : ts ≠ []) :
    (∃ c, ts.getLast? = some (.comment c)) ∨ (∃ t, ts.getLast? = some t ∧ t.isLayout = true) := by
  have h2 := List.getLast?_eq_some_getLast hne
  cases hl : ts.getLast hne with
  | comment c => exact Or.inl ⟨c, by rw [h2, hl]⟩
  | emptyLine => exact Or.inr ⟨_, by rw [h2, hl], rfl⟩
  | linebreak => exact Or.inr ⟨_, by rw [h2, hl], rfl⟩
  | comma => exact absurd (by rw [← hl]; exact List.getLast_mem hne) hok.1

theorem block_summ (i : Nat) {ts all : List Trivia} (hok : TrivOk ts) (ha : Alt ts) (hne : ts ≠ [])
    (hall : all.getLast? = ts.getLast?) :
    BlockS (summ (nlBlockP (trimP all (linesP i ts)))) ∧
    (closedT ts → (summ (nlBlockP (trimP all (linesP i ts)))).trailT = []) := by
  have hsolid : Solid (linesP i ts) := by rw [← fmtP_lines hok.1]; exact fmtP_solid hok i
  rcases last_cases ts hok hne with ⟨c, hc⟩ | ⟨t, ht, htl⟩
  · -- ends with a comment
    obtain ⟨k, s, hs, _⟩ := trimmed_summ_comment i hok ha hc (by rw [hall, hc])
    have hsol2 : Solid (trimP all (linesP i ts)) := (trimP_lex all hsolid).2
    rw [nlBlockP_summ hsol2, hs]
    simp only [Summ.comb, reduceCtorEq, if_false]
    exact ⟨Or.inr (Or.inr ⟨_, s, [], rfl, vlead_mk _ _ (leadE_le ts), Or.inl rfl⟩), fun _ => rfl⟩
  · -- ends with a layout marker: nothing is trimmed
    rw [trimP_of_layout_last all _ (Or.inr ⟨t, by rw [hall, ht], htl⟩), nlBlockP_summ hsolid]
    have hncl : ¬ closedT ts := by
      rintro (h | ⟨c, hc⟩)
      · exact hne h
      · rw [ht] at hc; injection hc with hc; subst hc; cases htl
    by_cases hcm : cm ts = []
    · rw [(linesP_summ i ts hok ha).1 hcm]
      rcases alt_noCmt hok ha hcm with h | h | h
      · exact absurd h hne
      · subst h; exact ⟨Or.inr (Or.inl rfl), fun hc => absurd hc hncl⟩
      · subst h; exact ⟨Or.inl rfl, fun hc => absurd hc hncl⟩
    · obtain ⟨k, s, hs, _⟩ := (linesP_summ i ts hok ha).2 hcm
      rw [hs]
      simp only [Summ.comb, reduceCtorEq, if_false]
      exact ⟨Or.inr (Or.inr ⟨_, s, _, rfl, vlead_mk _ _ (leadE_le ts), trailT_nl _ (trailE_le ts)⟩),
        fun hc => absurd hc hncl⟩

/-- the shape of what `apply_trailing_trivia` appends: a block, or an end-of-line comment and a block -/
def TrailS (S : Summ) : Prop :=
  BlockS S ∨ ∃ s t, S = .lexy [' '] (.cmt s) true t ∧ TrailT t

theorem closedT_tail {t : Trivia} {ts : List Trivia} (h : closedT (t :: ts)) (hne : ts ≠ []) : closedT ts := by
  rcases h with h | ⟨c, hc⟩
  · cases h
  · exact Or.inr ⟨c, by rw [List.getLast?_cons_of_ne_nil hne] at hc; exact hc⟩

theorem trailP_summ {after : List Trivia} (hok : TrivOk after) (ha : Alt after) (i : Nat) :
    TrailS (summ (trailP after i)) ∧ (closedT after → (summ (trailP after i)).trailT = []) := by
  have hgen : after ≠ [] → BlockS (summ (nlBlockP (trimP after (fmtP after i)))) ∧
      (closedT after → (summ (nlBlockP (trimP after (fmtP after i)))).trailT = []) := by
    intro hne; rw [fmtP_lines hok.1]; exact block_summ i hok ha hne rfl
  unfold trailP
  match after, hok, ha, hgen with
  | [], _, _, _ => exact ⟨Or.inl (Or.inl rfl), fun _ => rfl⟩
  | .comma :: rest, hok, _, _ => exact absurd (List.mem_cons_self ..) hok.1
  | .emptyLine :: rest, _, _, hgen => exact ⟨Or.inl (hgen (by simp)).1, (hgen (by simp)).2⟩
  | .linebreak :: rest, _, _, hgen => exact ⟨Or.inl (hgen (by simp)).1, (hgen (by simp)).2⟩
  | .comment c :: rest, hok, ha, hgen =>
    simp only
    split
    · rename_i hin
      have hr := trivOk_cons hok
      have har := alt_tail ha
      have hhead : summ (FP.ws [' '] :: cmtP c 0) = .lexy [' '] (.cmt (c.token 0)) true [] := by
        simp [cmtP, Comment.effIndent, hin, summ_cons, summ1, Summ.comb]
      rw [show (FP.ws [' '] :: cmtP c 0 ++ nlBlockP (trimP (Trivia.comment c :: rest) (fmtP rest i))) =
        (FP.ws [' '] :: cmtP c 0) ++ nlBlockP (trimP (Trivia.comment c :: rest) (fmtP rest i)) from rfl,
        summ_append, hhead, fmtP_lines hr.1]
      by_cases hre : rest = []
      · subst hre
        simp only [linesP_nil, trimP_nil_ps, nlBlockP, concat_nil, List.isEmpty_nil, if_true, summ_nil,
          comb_blank_nil_right]
        exact ⟨Or.inr ⟨_, [], rfl, Or.inl rfl⟩, fun _ => rfl⟩
      · have hb := block_summ i (all := Trivia.comment c :: rest) hr har hre (List.getLast?_cons_of_ne_nil hre)
        rcases hb.1 with h | h | ⟨l', s, t, h, hv, ht⟩
        · rw [h]; exact ⟨Or.inr ⟨_, [], rfl, Or.inl rfl⟩, fun _ => rfl⟩
        · rw [h] at hb ⊢
          refine ⟨Or.inr ⟨_, _, rfl, Or.inr (Or.inr rfl)⟩, fun hc => ?_⟩
          have := hb.2 (closedT_tail hc hre); simp [Summ.trailT] at this
        · rw [h] at hb ⊢
          simp only [Summ.comb, List.nil_append, sepOk_nl_vlead hv _ (cmt_ne_semi s), Bool.and_self]
          exact ⟨Or.inr ⟨_, t, rfl, ht⟩, fun hc => hb.2 (closedT_tail hc hre)⟩
    · exact ⟨Or.inl (hgen (by simp)).1, (hgen (by simp)).2⟩

theorem token_head_ne_nl {c : Comment} (hc : cOk c) (j : Nat) : startsWithNL (c.token j) = false := by
  unfold Comment.token
  cases hk : c.kind with
  | line =>
    simp only
    rw [str_line_of_no_nl c hc]
    split
    · rfl
    · split
      · rfl
      · split <;> rfl
  | block doc ii =>
    simp only [show containsNL c.text = false from hc, Bool.false_eq_true, if_false]
    cases doc <;> rfl

theorem startsWithNL_spaces_append (k : Nat) (s : Text) (hs : startsWithNL s = false) :
    startsWithNL (spaces k ++ s) = false := by
  cases k with
  | zero => simpa using hs
  | succ n => rfl

theorem linesP_comment_not_nl (i : Nat) {c : Comment} (hc : cOk c) (r : List Trivia) :
    startsWithNL (concat (linesP i (.comment c :: r))) = false := by
  rw [linesP_cons]
  simp only [itemP, cmtP, List.cons_append, List.nil_append, concat_cons, text_ws, text_cmt, List.append_assoc]
  apply startsWithNL_spaces_append
  have h1 := token_head_ne_nl hc (c.effIndent i)
  have hne := token_ne_nil c (c.effIndent i) (cOk_tokenLike hc)
  cases ht : c.token (c.effIndent i) with
  | nil => exact absurd ht hne
  | cons a r' => rw [ht] at h1; simpa [startsWithNL] using h1

theorem closedT_append_of_closed {a b : List Trivia} (hb : b ≠ []) (h : closedT (a ++ b)) : closedT b := by
  rcases h with h | ⟨c, hc⟩
  · exact absurd (List.append_eq_nil_iff.mp h).2 hb
  · refine Or.inr ⟨c, ?_⟩
    rw [List.getLast?_append] at hc
    cases hb' : b.getLast? with
    | none => exact absurd (List.getLast?_eq_none_iff.mp hb') hb
    | some t => rw [hb'] at hc; simpa using hc

theorem blank_concat : ∀ {ps : List FP} {w : Text}, summ ps = .blank w → concat ps = w
  | [], w, h => by
    simp only [summ_nil, Summ.blank.injEq] at h
    rw [← h]; rfl
  | p :: rest, w, h => by
    rw [summ_cons] at h
    cases p with
    | ws s =>
      cases hr : summ rest with
      | blank w' =>
        rw [hr] at h; simp only [summ1, Summ.comb] at h; injection h with h
        rw [concat_cons, blank_concat hr, text_ws]; exact h
      | lexy l f i t => rw [hr] at h; simp [summ1, Summ.comb] at h
    | tok s => cases hr : summ rest <;> (rw [hr] at h; simp [summ1, Summ.comb] at h)
    | cmt s => cases hr : summ rest <;> (rw [hr] at h; simp [summ1, Summ.comb] at h)

/-- the rendered text ends with a line break exactly when the trailing whitespace does -/
theorem endsWithNL_summ : ∀ {ps : List FP}, Solid ps → endsWithNL (concat ps) = endsWithNL (summ ps).trailT
  | [], _ => rfl
  | p :: rest, hs => by
    obtain ⟨hp, hr⟩ := solid_of_cons hs
    have ih := endsWithNL_summ hr
    by_cases he : concat rest = []
    · rw [concat_cons, he, List.append_nil, summ_cons, summ_of_concat_nil hr he, comb_blank_nil_right]
      cases p with
      | ws s => rfl
      | tok s => simp only [text_tok, summ1, Summ.trailT]; rw [hp.2]; rfl
      | cmt s => simp only [text_cmt, summ1, Summ.trailT]; rw [hp.2]; rfl
    · rw [concat_cons, endsWithNL_append_of_ne_nil _ _ he, ih, summ_cons]
      cases hsr : summ rest with
      | blank w =>
        have hw : w ≠ [] := by intro e; subst e; exact he (blank_concat hsr)
        cases p with
        | ws s => simp only [summ1, Summ.comb, Summ.trailT]; rw [endsWithNL_append_of_ne_nil _ _ hw]
        | tok s => simp [summ1, Summ.comb, Summ.trailT]
        | cmt s => simp [summ1, Summ.comb, Summ.trailT]
      | lexy l f i t => cases p <;> simp [summ1, Summ.comb, Summ.trailT]

theorem endsWithNL_nl_cons (b : Nat) : endsWithNL ('\n' :: nl b) = true := by
  have : ('\n' :: nl b) = nl b ++ ['\n'] := by
    induction b with
    | zero => rfl
    | succ n ih => rw [nl_succ, List.cons_append, ← ih]
  rw [this]; simp [endsWithNL]

/-- the shape of what `Binding.rebuild` writes after `;` -/
theorem bindingTailP_summ {after : List Trivia} (hok : TrivOk after) (ha : Alt after) (i : Nat) :
    TrailS (summ (bindingTailP after i)) ∧ (closedT after → (summ (bindingTailP after i)).trailT = []) := by
  unfold bindingTailP
  match after, hok, ha with
  | [], hok, ha => exact trailP_summ hok ha i
  | .emptyLine :: rest, hok, ha => exact trailP_summ hok ha i
  | .comma :: rest, hok, ha => exact trailP_summ hok ha i
  | .comment c :: rest, hok, ha => exact trailP_summ hok ha i
  | .linebreak :: rest, hok, ha =>
    have hr := trivOk_cons hok
    have har := alt_tail ha
    simp only [fmtP_lines hr.1 i]
    match rest, hr, ha, har with
    | [], _, _, _ =>
      have e : (if endsWithNL (concat (if startsWithNL (concat (linesP i [])) = true then linesP i []
            else FP.ws ['\n'] :: linesP i [])) = true
          then dropLastCharP (if startsWithNL (concat (linesP i [])) = true then linesP i [] else FP.ws ['\n'] :: linesP i [])
          else (if startsWithNL (concat (linesP i [])) = true then linesP i [] else FP.ws ['\n'] :: linesP i [])) = [] := by
        simp [linesP_nil, startsWithNL, endsWithNL, dropLastCharP]
      rw [e]
      exact ⟨Or.inl (Or.inl rfl), fun _ => rfl⟩
    | .comma :: r, hr, _, _ => exact absurd (List.mem_cons_self ..) hr.1
    | .emptyLine :: r, _, ha, _ => exact absurd ⟨rfl, rfl⟩ ha.1
    | .linebreak :: r, _, ha, _ => exact absurd ⟨rfl, rfl⟩ ha.1
    | .comment c :: r, hr, _, har =>
      have hc : cOk c := hr.2 c (List.mem_cons_self ..)
      obtain ⟨k, s, hs, _⟩ := (linesP_summ i _ hr har).2 (by simp)
      have hsolid : Solid (linesP i (.comment c :: r)) := by rw [← fmtP_lines hr.1]; exact fmtP_solid hr i
      rw [linesP_comment_not_nl i hc r]
      simp only [Bool.false_eq_true, if_false]
      have hs2 : summ (FP.ws ['\n'] :: linesP i (.comment c :: r)) =
          .lexy ('\n' :: spaces k) (.cmt s) true ('\n' :: nl (trailE (.comment c :: r))) := by
        rw [summ_cons, hs]; simp [summ1, Summ.comb, leadE]
      have hsol2 : Solid (FP.ws ['\n'] :: linesP i (.comment c :: r)) := solid_cons (solid_ws _) hsolid
      have hends : endsWithNL (concat (FP.ws ['\n'] :: linesP i (.comment c :: r))) = true := by
        rw [endsWithNL_summ hsol2, hs2]; exact endsWithNL_nl_cons _
      rw [hends]
      simp only [if_true]
      rw [summ_dropLastCharP hsol2 (by rw [hs2]; rfl), hs2]
      simp only [Summ.dropLastWs]
      refine ⟨Or.inl (Or.inr (Or.inr ⟨spaces k, s, _, rfl, vlead_spaces k, ?_⟩)), fun hcl => ?_⟩
      · have := trailE_le (.comment c :: r)
        match htr : trailE (.comment c :: r), this with
        | 0, _ => exact Or.inl rfl
        | 1, _ => exact Or.inr (Or.inl rfl)
      · have hcl' := closedT_append_of_closed (a := [Trivia.linebreak]) (b := .comment c :: r) (by simp) hcl
        rcases hcl' with h | ⟨c', hc'⟩
        · cases h
        · simp [Summ.trailT, trailE_of_comment hc']

/-! ### blocks -/

theorem tok_ne_semi_of {c : Char} (hc : c ≠ ';') : Lex.tok [c] ≠ Lex.tok [';'] := by
  intro h; injection h with h; injection h with h; exact hc h

theorem trailT_sep_spaces {tb : Text} (ht : TrailT tb) (i : Nat) (x : Lex) (hx : x ≠ .tok [';']) :
    sepOk (tb ++ (if endsWithNL tb then [] else ['\n']) ++ spaces i) x = true := by
  rcases ht with h | h | h <;> subst h
  · exact sepOk_vert 0 (by omega) i x hx
  · exact sepOk_vert 0 (by omega) i x hx
  · exact sepOk_vert 1 (by omega) i x hx

theorem indentP_summ (i : Nat) (b : Bool) : summ (indentP i b) = .blank (if b then [] else spaces i) := by
  unfold indentP; split
  · rfl
  · exact summ_ws _

/-- `multilineBlockP` without the leading trivia: `{indent}{opener}\n{body}{sep}{indent}{closer}` -/
def blockCore (op body : List FP) (closer : Char) (i : Nat) (b s : Bool) : List FP :=
  indentP i b ++ op ++ [.ws ['\n']] ++ body ++
    (if ((concat body).isEmpty && !s) || endsWithNL (concat body) then [] else [.ws ['\n']]) ++
    [.ws (spaces i), .tok [closer]]

theorem multilineBlockP_eq (bp op body : List FP) (closer : Char) (i : Nat) (b s : Bool) :
    multilineBlockP bp op body closer i b s = bp ++ blockCore op body closer i b s := by
  simp [multilineBlockP, blockCore, List.append_assoc]

/-- `{indent}{opener}\n{body}{sep}{indent}{closer}` around a body of items -/
theorem block_items_summ {op body : List FP} {fo : Lex} (hop : summ op = .lexy [] fo true [])
    {lb tb : Text} {fb : Lex} (hbody : summ body = .lexy lb fb true tb) (hsol : Solid body)
    (hlb : VLead lb) (hfb : fb ≠ .tok [';']) (htb : TrailT tb) (closer : Char) (hcl : closer ≠ ';')
    (i : Nat) (b s : Bool) :
    summ (blockCore op body closer i b s) = .lexy (if b then [] else spaces i) fo true [] := by
  unfold blockCore
  have hne : (concat body).isEmpty = false := by
    cases he : (concat body).isEmpty with
    | false => rfl
    | true =>
      have : concat body = [] := by simpa using he
      have := summ_of_concat_nil hsol this; rw [hbody] at this; cases this
  have hend : endsWithNL (concat body) = endsWithNL tb := by rw [endsWithNL_summ hsol, hbody]; rfl
  have hsep : summ (if ((concat body).isEmpty && !s) || endsWithNL (concat body) then [] else [FP.ws ['\n']]) =
      .blank (if endsWithNL tb then [] else ['\n']) := by
    rw [hne, hend]; simp only [Bool.false_and, Bool.false_or]
    split
    · rfl
    · exact summ_ws _
  simp only [summ_append, indentP_summ, hop, hbody, hsep, summ_ws, summ_cons, summ_nil, summ1]
  simp only [Summ.comb, List.nil_append, List.append_nil, Bool.true_and, Bool.and_true]
  rw [show (['\n'] ++ lb) = '\n' :: lb from rfl, sepOk_nl_vlead hlb fb hfb]
  have := trailT_sep_spaces htb i (.tok [closer]) (tok_ne_semi_of hcl)
  simp only [List.append_assoc] at this ⊢
  rw [this]
  rfl

/-- the same around inner trivia (no items) -/
theorem block_inner_summ {op : List FP} {fo : Lex} (hop : summ op = .lexy [] fo true [])
    {inner : List Trivia} (hok : TrivOk inner) (ha : Alt inner) (closer : Char) (hcl : closer ≠ ';')
    (i j : Nat) (b : Bool) :
    summ (blockCore op (linesP j inner) closer i b false) = .lexy (if b then [] else spaces i) fo true [] := by
  unfold blockCore
  have hsol : Solid (linesP j inner) := by rw [← fmtP_lines hok.1]; exact fmtP_solid hok j
  have hx := tok_ne_semi_of hcl
  by_cases hc : cm inner = []
  · have hs := (linesP_summ j inner hok ha).1 hc
    have hcat := blank_concat hs
    have hsep : summ (if ((concat (linesP j inner)).isEmpty && !false) || endsWithNL (concat (linesP j inner)) then []
        else [FP.ws ['\n']]) = .blank [] := by
      rw [hcat]
      have := leadE_le inner
      match hl : leadE inner, this with
      | 0, _ => rfl
      | 1, _ => rfl
    simp only [summ_append, indentP_summ, hop, hs, hsep, summ_ws, summ_cons, summ_nil, summ1]
    simp only [Summ.comb, List.nil_append, List.append_nil, Bool.true_and, Bool.and_true]
    have := sepOk_vert (leadE inner) (leadE_le inner) i (.tok [closer]) hx
    rw [show (['\n'] ++ nl (leadE inner) ++ spaces i) = '\n' :: nl (leadE inner) ++ spaces i from rfl, this]
  · obtain ⟨k, s, hs, _⟩ := (linesP_summ j inner hok ha).2 hc
    have hend : endsWithNL (concat (linesP j inner)) = true := by
      rw [endsWithNL_summ hsol, hs]; exact endsWithNL_nl_cons _
    have hsep : summ (if ((concat (linesP j inner)).isEmpty && !false) || endsWithNL (concat (linesP j inner)) then []
        else [FP.ws ['\n']]) = .blank [] := by
      rw [hend]; simp
    simp only [summ_append, indentP_summ, hop, hs, hsep, summ_ws, summ_cons, summ_nil, summ1]
    simp only [Summ.comb, List.nil_append, List.append_nil, Bool.true_and, Bool.and_true]
    rw [show (['\n'] ++ (nl (leadE inner) ++ spaces k)) = '\n' :: nl (leadE inner) ++ spaces k from rfl,
      sepOk_vert _ (leadE_le inner) _ _ (cmt_ne_semi s),
      show ('\n' :: nl (trailE inner) ++ spaces i) = '\n' :: nl (trailE inner) ++ spaces i from rfl,
      sepOk_vert _ (trailE_le inner) _ _ hx]
    rfl

def semi : Lex := .tok [';']

def headCmt : List Trivia → Prop
  | .comment _ :: _ => True
  | _ => False

theorem trailS_trailT {S : Summ} (h : TrailS S) : TrailT S.trailT := by
  rcases h with (h | h | ⟨l', s, t, h, _, ht⟩) | ⟨s, t, h, ht⟩
  · rw [h]; exact Or.inl rfl
  · rw [h]; exact Or.inr (Or.inr rfl)
  · rw [h]; exact ht
  · rw [h]; exact ht

theorem vlead_indent (a : Nat) (ha : a ≤ 1) (i : Nat) (b : Bool) : VLead (nl a ++ (if b then [] else spaces i)) := by
  cases b
  · exact vlead_mk a i ha
  · exact ⟨a, 0, ha, by simp⟩

theorem sepOk_vert_indent (a : Nat) (ha : a ≤ 1) (i : Nat) (b : Bool) (x : Lex) (hx : x ≠ .tok [';']) :
    sepOk ('\n' :: nl a ++ (if b then [] else spaces i)) x = true := by
  cases b
  · exact sepOk_vert a ha i x hx
  · have := sepOk_vert a ha 0 x hx; simpa using this

/-- leading trivia, an indented core that starts and ends with a token, a trailing block -/
theorem wrap_summ {before : List Trivia} (hok : TrivOk before) (ha : Alt before) {coreI T : List FP} {fc : Lex}
    (i : Nat) (b : Bool) (hcore : summ coreI = .lexy (if b then [] else spaces i) fc true []) (hfc : fc ≠ semi)
    (hT : TrailS (summ T)) :
    ∃ l f, summ (linesP i before ++ coreI ++ T) = .lexy l f true (summ T).trailT ∧ f ≠ semi ∧ VLead l ∧
      (before = [] → l = if b then [] else spaces i) ∧ (headCmt before → i = 0 → l = []) ∧
      (leadE before = 0 → ∃ k, l = spaces k) := by
  -- the leading part
  have hlead : ∃ l f, summ (linesP i before ++ coreI) = .lexy l f true [] ∧ f ≠ semi ∧ VLead l ∧
      (before = [] → l = if b then [] else spaces i) ∧ (headCmt before → i = 0 → l = []) ∧
      (leadE before = 0 → ∃ k, l = spaces k) := by
    rw [summ_append, hcore]
    by_cases hc : cm before = []
    · rw [(linesP_summ i before hok ha).1 hc]
      refine ⟨_, fc, rfl, hfc, vlead_indent _ (leadE_le before) i b, fun h => by subst h; rfl, fun h => ?_,
        fun h0 => ?_⟩
      · cases before with
        | nil => exact absurd h (by simp [headCmt])
        | cons t r => cases t <;> simp [headCmt] at h; simp at hc
      · rw [h0]
        cases b
        · exact ⟨i, by simp⟩
        · exact ⟨0, by simp⟩
    · obtain ⟨k, s, hs, hk⟩ := (linesP_summ i before hok ha).2 hc
      rw [hs]
      simp only [Summ.comb, Bool.true_and, Bool.and_true]
      rw [show ('\n' :: nl (trailE before) ++ if b = true then [] else spaces i) =
        '\n' :: nl (trailE before) ++ (if b then [] else spaces i) from rfl,
        sepOk_vert_indent _ (trailE_le before) i b fc hfc]
      refine ⟨_, _, rfl, cmt_ne_semi s, vlead_mk _ _ (leadE_le before), fun h => by subst h; simp at hc, fun h hi => ?_,
        fun h0 => ⟨k, by rw [h0]; simp⟩⟩
      cases before with
      | nil => exact absurd rfl hc
      | cons t r =>
        cases t with
        | comment c =>
          have := hk c r rfl
          subst hi
          have hz : c.effIndent 0 = 0 := by unfold Comment.effIndent; split <;> rfl
          rw [this, hz]; rfl
        | emptyLine => simp [headCmt] at h
        | linebreak => simp [headCmt] at h
        | comma => simp [headCmt] at h
  obtain ⟨l, f, hs, hf, hl, h1, h2, h3⟩ := hlead
  refine ⟨l, f, ?_, hf, hl, h1, h2, h3⟩
  rw [summ_append, hs]
  rcases hT with (h | h | ⟨l', s, t, h, hv, _⟩) | ⟨s, t, h, _⟩
  · rw [h]; rfl
  · rw [h]; rfl
  · rw [h]; simp only [Summ.comb, Summ.trailT, List.nil_append, Bool.true_and, Bool.and_true,
      sepOk_nl_vlead hv _ (cmt_ne_semi s)]
  · rw [h]; simp only [Summ.comb, Summ.trailT, List.nil_append, Bool.true_and, Bool.and_true,
      sepOk_space _ (cmt_ne_semi s)]

/-! ### expressions -/

def nonLastClosed : List Expr → Prop
  | [] => True
  | [_] => True
  | x :: y :: r => closedT (x.effAfter false) ∧ nonLastClosed (y :: r)

/-- children of a container written on one line: no leading trivia, trailing trivia ends with a comment -/
def allFlat : List Expr → Prop
  | [] => True
  | x :: r => x.before = [] ∧ closedT (x.effAfter false) ∧ allFlat r

mutual
/-- the layout invariants of expressions as `fromCst` builds them (`Lemmas/FragNFParse.lean`) -/
def Expr.nfInv : Expr → Prop
  | .leaf _ t b a => t ≠ [';'] ∧ Alt b ∧ Alt a
  | .list v _ inner b a => allNfInv v ∧ Alt inner ∧ Alt b ∧ Alt a ∧ nonLastClosed v
  | .set v _ _ inner b a => allNfInv v ∧ Alt inner ∧ Alt b ∧ Alt a ∧ nonLastClosed v
  | .binding n v vg b a => n ≠ [';'] ∧ v.nfInv ∧ v.notBinding = true ∧ Alt b ∧ Alt (v.after ++ a) ∧ Alt v.after ∧
      (bindOnNewline vg v.before = false → v.before = [])
  -- the value of a parenthesis: trailing trivia closed, no blank-line marker in front
  | .paren v _ _ _ _ b a => v.nfInv ∧ closedT (v.effAfter false) ∧ leadE v.before = 0 ∧ Alt b ∧ Alt a
  -- function without trivia of its own; an argument on its own line: no blank-line marker in front
  | .app n x g _ b a => n.nfInv ∧ x.nfInv ∧ n.before = [] ∧
      ((Layout.fromGap g).onNewline = true → leadE x.before = 0) ∧ Alt b ∧ Alt a
  -- `with` / `assert`: outside the spacing theorem so far (`File.basic`)
  | .wth env body awc _ asc b a => env.nfInv ∧ env.before = [] ∧ awc = [] ∧ body.nfInv ∧ Alt b ∧ Alt a
  | .asrt .. => False
  | .sel e _ _ ab b a => e.nfInv ∧ e.before = [] ∧ ab = [] ∧ Alt b ∧ Alt a
  | .selOr e _ _ ab d _ db b a =>
    e.nfInv ∧ e.before = [] ∧ ab = [] ∧ d.nfInv ∧ d.before = [] ∧ db = [] ∧ Alt b ∧ Alt a
  | .lam n bcc _ k body b a =>
    body.nfInv ∧ bcc = [] ∧ k ≤ 1 ∧ (k = 0 → body.before = []) ∧ n ≠ [';'] ∧ Alt b ∧ Alt a
  | .un op e _ bt b a => e.nfInv ∧ e.before = [] ∧ bt = [] ∧ op ≠ [';'] ∧ Alt b ∧ Alt a
  | .bin op l r _ _ b a => l.nfInv ∧ l.before = [] ∧ r.nfInv ∧ r.before = [] ∧ op ≠ [';'] ∧ Alt b ∧ Alt a
  -- `if`: condition and branches without leading trivia, no comment in the five gaps
  | .ite c t e cg aic aig btc _ atc _ bec _ aec _ b a =>
    c.nfInv ∧ c.before = [] ∧ t.nfInv ∧ t.before = [] ∧ e.nfInv ∧ e.before = [] ∧ cg = aig ∧ aic = [] ∧ btc = [] ∧
      atc = [] ∧ bec = [] ∧ aec = [] ∧ Alt b ∧ Alt a
  | .has e attrs _ _ bq aq b a => e.nfInv ∧ e.before = [] ∧ bq = [] ∧ aq = [] ∧ (∀ x ∈ attrs, x ≠ [';']) ∧ Alt b ∧ Alt a
def allNfInv : List Expr → Prop
  | [] => True
  | e :: rest => e.nfInv ∧ allNfInv rest
end

mutual
/-- THE EXCLUSION of the spacing theorem: in a container written on one line no item has leading
    trivia (a comment in front of it) and every item's trailing trivia ends with a comment.
    (`cex_block_comment_after_opener`: `{ /* c */ a = 1; }` comes out as `{   /* c */⏎a = 1; }`.)
    The second half always holds for what `fromCst` builds (nothing in a one-line container can
    produce a layout marker: `Lemmas/FragFlat.lean`), so the theorem's exclusion is the first. -/
def Expr.inlineClean : Expr → Prop
  | .leaf .. => True
  | .list v ml _ _ _ => (ml = false → allFlat v) ∧ allInlineClean v
  | .set v ml _ _ _ _ => (ml = false → allFlat v) ∧ allInlineClean v
  | .binding _ v _ _ _ => v.inlineClean
  | .paren v lg _ _ _ _ _ => ((Layout.fromGap lg).onNewline = false → v.before = []) ∧ v.inlineClean
  | .app n x g _ _ _ => ((Layout.fromGap g).onNewline = false → x.before = []) ∧ n.inlineClean ∧ x.inlineClean
  | .wth env body _ _ _ _ _ => env.inlineClean ∧ body.inlineClean
  | .asrt .. => False
  | .sel e _ _ _ _ _ => e.inlineClean
  | .selOr e _ _ _ d _ _ _ _ => e.inlineClean ∧ d.inlineClean
  | .lam _ _ _ _ body _ _ => body.inlineClean
  | .un _ e _ _ _ _ => e.inlineClean
  -- at most one blank line in front of / after a binary operator (`cex_blank_lines_around_operator`)
  | .bin _ l r ogl rgl _ _ => ogl ≤ 2 ∧ rgl ≤ 2 ∧ l.inlineClean ∧ r.inlineClean
  | .ite c t e _ _ _ _ _ _ _ _ _ _ _ _ _ => c.inlineClean ∧ t.inlineClean ∧ e.inlineClean
  | .has e _ _ _ _ _ _ _ => e.inlineClean
def allInlineClean : List Expr → Prop
  | [] => True
  | e :: rest => e.inlineClean ∧ allInlineClean rest
end

/-- what the summary of a rendered expression looks like -/
def ExprS (e : Expr) (na : Bool) (i : Nat) (b : Bool) (S : Summ) : Prop :=
  ∃ l f t, S = .lexy l f true t ∧ f ≠ semi ∧ VLead l ∧ TrailT t ∧
    (e.before = [] → l = if b then [] else spaces i) ∧ (headCmt e.before → i = 0 → l = []) ∧
    (closedT (e.effAfter na) → t = []) ∧ (leadE e.before = 0 → ∃ k, l = spaces k)

theorem alt_dropWhile (p : Trivia → Bool) : ∀ {ts : List Trivia}, Alt ts → Alt (ts.dropWhile p)
  | [], _ => trivial
  | t :: rest, h => by
    rw [List.dropWhile_cons]; split
    · exact alt_dropWhile p (alt_tail h)
    · exact h

theorem leafBefore_alt (k : LeafKind) (t : Text) {b : List Trivia} (h : Alt b) (i : Nat) (inl : Bool) :
    Alt (leafBefore k t b i inl) := by
  unfold leafBefore; split
  · simp only; split
    · exact alt_dropWhile _ h
    · exact h
  · exact h

theorem leafBefore_nil (k : LeafKind) (t : Text) (i : Nat) (inl : Bool) : leafBefore k t [] i inl = [] := by
  unfold leafBefore; split
  · simp [trimLeadingLayoutTrivia]
  · rfl

theorem leafBefore_headCmt (k : LeafKind) (t : Text) {b : List Trivia} (h : headCmt b) (i : Nat) (inl : Bool) :
    leafBefore k t b i inl = b := by
  cases b with
  | nil => exact absurd h (by simp [headCmt])
  | cons x r =>
    cases x with
    | comment c =>
      unfold leafBefore; split
      · simp [trimLeadingLayoutTrivia, List.dropWhile_cons, Trivia.isLayout]
      · rfl
    | emptyLine => simp [headCmt] at h
    | linebreak => simp [headCmt] at h
    | comma => simp [headCmt] at h

theorem alt_ite_nil (na : Bool) {a : List Trivia} (h : Alt a) : Alt (if na = true then [] else a) := by
  split
  · trivial
  · exact h

theorem leadE_dropWhile (ts : List Trivia) : leadE (ts.dropWhile Trivia.isLayout) = 0 := by
  induction ts with
  | nil => rfl
  | cons t r ih =>
    rw [List.dropWhile_cons]; split
    · exact ih
    · rename_i h; cases t <;> simp_all [leadE, Trivia.isLayout]

theorem leafBefore_leadE (k : LeafKind) (t : Text) {b : List Trivia} (h : leadE b = 0) (i : Nat) (inl : Bool) :
    leadE (leafBefore k t b i inl) = 0 := by
  unfold leafBefore; split
  · simp only; split
    · exact leadE_dropWhile b
    · exact h
  · exact h

theorem effIndent_zero (c : Comment) : c.effIndent 0 = 0 := by unfold Comment.effIndent; split <;> rfl

theorem fnOk_inline : ∀ {fa : List Comment}, fnOk fa → ∀ c ∈ fa, c.inline = true
  | [], _, c, hc => by cases hc
  | [d], h, c, hc => by simp only [List.mem_singleton] at hc; subst hc; exact h
  | d :: d' :: r, h, c, hc => by
    rcases List.mem_cons.mp hc with h1 | h1
    · subst h1; exact h.1
    · exact fnOk_inline h.2.2 c h1

/-- the comments after the function of a call: each after one space -/
theorem fnAfterP_summ : ∀ (fa : List Comment) (acc : List FP) (i : Nat) (l : Text) (f : Lex),
    (∀ c ∈ fa, c.inline = true) → summ acc = .lexy l f true [] → summ (fnAfterP acc fa i) = .lexy l f true []
  | [], acc, i, l, f, _, h => h
  | c :: rest, acc, i, l, f, hin, h => by
    have hc := hin c (List.mem_cons_self ..)
    simp only [fnAfterP, hc, if_true]
    apply fnAfterP_summ rest _ i l f (fun c' h' => hin c' (List.mem_cons_of_mem _ h'))
    have hcm : summ (cmtP c 0) = .lexy [] (.cmt (c.token 0)) true [] := by
      simp [cmtP, effIndent_zero, spaces, summ_cons, summ1, Summ.comb]
    rw [summ_append, summ_append, h, hcm]
    split
    · simp [Summ.comb, sepOk_nil]
    · simp only [summ_ws, Summ.comb, List.nil_append, List.append_nil, Bool.true_and, Bool.and_true]
      rw [sepOk_space _ (cmt_ne_semi _)]

theorem leadE_zero_of_nil : leadE ([] : List Trivia) = 0 := rfl

theorem spaces_add (a b : Nat) : spaces a ++ spaces b = spaces (a + b) := by
  simp [spaces, List.replicate_append_replicate]

/-- the argument of a call on its own line -/
theorem arg_on_summ {A : List FP} {k : Nat} {f : Lex} (sp : Text) (ai : Nat) (hs : summ A = .lexy (spaces k) f true [])
    (hsep : ∀ k', sepOk (sp ++ spaces k') f = true) (c : Bool) :
    ∃ la, summ (FP.ws sp :: (if c = true then FP.ws (spaces ai) :: A else A)) = .lexy la f true [] ∧ sepOk la f = true := by
  cases c
  · exact ⟨sp ++ spaces k, by simp [summ_cons, hs, summ1, Summ.comb], hsep _⟩
  · exact ⟨sp ++ (spaces ai ++ spaces k), by simp [summ_cons, hs, summ1, Summ.comb], by rw [spaces_add]; exact hsep _⟩


theorem endsWithNL_nil' : endsWithNL ([] : Text) = false := rfl

theorem sepOk_nl (k : Nat) (x : Lex) (hx : x ≠ .tok [';']) : sepOk ('\n' :: spaces k) x = true := by
  have := sepOk_vert 0 (by omega) k x hx; simpa using this
theorem sepOk_nlnl (k : Nat) (x : Lex) (hx : x ≠ .tok [';']) : sepOk ('\n' :: '\n' :: spaces k) x = true := by
  have := sepOk_vert 1 (by omega) k x hx
  simpa [nl, List.replicate] using this

theorem selSep_sepOk (exprStr g : Text) (i : Nat) (h : endsWithNL exprStr = false) (x : Lex) (hx : x ≠ .tok [';']) :
    sepOk (selSep exprStr g [] i) x = true := by
  unfold selSep formatInterstitialTriviaWithSeparator
  simp only [formatInterstitialTrivia, formatInterstitialGo, separatorFromLayoutWithComments, List.isEmpty_nil, Bool.not_true,
    Bool.false_eq_true, if_false, Bool.false_and, h, List.nil_append, endsWithNL_nil']
  cases hon : (Layout.fromGap g).onNewline with
  | false => simp [sepOk_nil]
  | true =>
    simp only [if_true]
    cases (Layout.fromGap g).blankLine
    · simpa using sepOk_nl _ x hx
    · simpa using sepOk_nlnl _ x hx

theorem selOrSep_sepOk (dg : Text) (i : Nat) (x : Lex) (hx : x ≠ .tok [';']) :
    sepOk (selOrSep dg [] i) x = true := by
  unfold selOrSep
  cases hon : (Layout.fromGap dg).onNewline with
  | false => simp [hon, sepOk_space _ hx]
  | true =>
    simp only [hon, if_true, List.isEmpty_nil, List.nil_append, Bool.not_true, Bool.false_and, Bool.false_eq_true, if_false,
      List.append_nil]
    cases (Layout.fromGap dg).blankLine
    · simpa using sepOk_nl _ x hx
    · simpa using sepOk_nlnl _ x hx

theorem unSep_cases (g : Text) (i : Nat) :
    unSep [] g i = (if (Layout.fromGap g).onNewline then '\n' :: (if (Layout.fromGap g).blankLine then ['\n'] else []) else []) := by
  unfold unSep unLayout formatInterstitialTriviaWithSeparator
  simp only [formatInterstitialTrivia, formatInterstitialGo, separatorFromLayoutWithComments, List.isEmpty_nil, Bool.not_true,
    Bool.false_eq_true, if_false, Bool.false_and, List.nil_append, endsWithNL_nil', hasLayoutOrComment, List.any_nil, if_true]
  cases (Layout.fromGap g).onNewline <;> simp

theorem lamColonPrefix_sepOk (g : Text) (i : Nat) (x : Lex) (hx : x ≠ .tok [';']) :
    sepOk (lamColonPrefix [] g i) x = true := by
  unfold lamColonPrefix withLayout formatInterstitialTriviaWithSeparator
  simp only [formatInterstitialTrivia, formatInterstitialGo, separatorFromLayoutWithComments, List.isEmpty_nil, Bool.not_true,
    Bool.false_eq_true, if_false, Bool.false_and, List.nil_append, endsWithNL_nil', triviaForcesNewline, List.any_nil, if_true]
  cases hon : (Layout.fromGap g).onNewline with
  | false => simp [sepOk_nil]
  | true =>
    simp only [if_true]
    cases (Layout.fromGap g).blankLine
    · simpa using sepOk_nl _ x hx
    · simpa using sepOk_nlnl _ x hx

theorem sepOk_replicate_nl (k : Nat) (hk1 : 1 ≤ k) (hk2 : k ≤ 2) (n : Nat) (x : Lex) (hx : x ≠ .tok [';']) :
    sepOk (List.replicate k '\n' ++ spaces n) x = true := by
  match k, hk1, hk2 with
  | 1, _, _ => exact sepOk_nl n x hx
  | 2, _, _ => exact sepOk_nlnl n x hx

theorem colon_ne_semi : Lex.tok [':'] ≠ Lex.tok [';'] := by intro h; injection h with h; cases h

/-- the separator between `with` and its environment, without comments -/
theorem withSep_cases (g : Text) (i : Nat) :
    formatInterstitialTriviaWithSeparator [] (withLayout [] g) i (includeIndent := false) (dropBlankIfItems := false) =
      ([], if (Layout.fromGap g).onNewline then '\n' :: (if (Layout.fromGap g).blankLine then ['\n'] else []) else [' ']) := by
  unfold withLayout formatInterstitialTriviaWithSeparator
  simp only [formatInterstitialTrivia, formatInterstitialGo, separatorFromLayoutWithComments, List.isEmpty_nil, Bool.not_true,
    Bool.false_eq_true, if_false, Bool.false_and, List.nil_append, endsWithNL_nil', triviaForcesNewline, List.any_nil, if_true]
  cases (Layout.fromGap g).onNewline <;> simp

/-- separator and body of a `with` without comments: one separator in normal form, then the body -/
theorem withBody_summ {body : Expr} (hbd : body.ok) (hclb : closedT (body.effAfter false)) (i : Nat)
    (ih : ∀ b, ExprS body false i b (summ (body.rebuildAP false i b))) :
    ∃ w f, summ (withBodyPartP (withBodyForce [] [] body.before) body.absorbable (body.rebuildAP false i true)
        (body.rebuildAP false i false) i) = .lexy w f true [] ∧ f ≠ semi ∧ sepOk w f = true := by
  have hnf : withBodyForce [] [] body.before = false → body.before = [] := by
    intro hf
    unfold withBodyForce at hf
    simp only [Bool.or_eq_false_iff] at hf
    exact noLayoutOrComment_nil (ok_before hbd) hf.2
  obtain ⟨lt, ft, tt, hst, hft, _, _, c1t, _, c3t, _⟩ := ih true
  obtain ⟨lf, ff, tf, hsf, hff, hlf, _, c1f, _, c3f, _⟩ := ih false
  have htt := c3t hclb
  have htf := c3f hclb
  subst htt; subst htf
  unfold withBodyPartP
  split
  · rename_i hc
    simp only [Bool.and_eq_true, Bool.not_eq_true'] at hc
    have hbf := hnf hc.1
    have hlt := c1t hbf
    simp only [if_true] at hlt
    subst hlt
    unfold stripIndentPrefixP
    split
    · rename_i hcond
      simp only [Bool.and_eq_true, bne_iff_ne, ne_eq] at hcond
      rw [rebuildAP_indent_split hbd hbf, dropCharsP_ws_spaces i _ hcond.1]
      refine ⟨[' '], ft, ?_, hft, sepOk_space _ hft⟩
      rw [summ_cons, hst]; rfl
    · rename_i hcond
      have hi0 : i = 0 := by
        by_cases hi : i = 0
        · exact hi
        · exfalso; apply hcond
          rw [rebuildAP_indent_split hbd hbf]
          simp only [Bool.and_eq_true, bne_iff_ne, ne_eq]
          refine ⟨hi, ?_⟩
          show startsWith (spaces i) (spaces i ++ concat (body.rebuildAP false i true)) = true
          exact startsWith_append_self _ _
      have hlf' := c1f hbf
      simp only [Bool.false_eq_true, if_false, hi0] at hlf'
      refine ⟨[' '], ff, ?_, hff, sepOk_space _ hff⟩
      rw [summ_cons, hsf, hlf']; rfl
  · split
    · refine ⟨'\n' :: lf, ff, ?_, hff, sepOk_nl_vlead hlf ff hff⟩
      rw [summ_cons, hsf]; rfl
    · rename_i h1 h2
      have hforce : withBodyForce [] [] body.before = false := by
        cases hx : withBodyForce [] [] body.before with
        | false => rfl
        | true => exact absurd (by simp [hx]) h2
      have hlt := c1t (hnf hforce)
      simp only [if_true] at hlt
      subst hlt
      refine ⟨[' '], ft, ?_, hft, sepOk_space _ hft⟩
      rw [summ_cons, hst]; rfl

theorem kwWith_ne_semi : kwWith ≠ [';'] := by decide

theorem summ_tok_cons (x : Text) {ps : List FP} {f : Lex} (h : summ ps = .lexy [] f true []) :
    summ (FP.tok x :: ps) = .lexy [] (.tok x) true [] := by
  rw [summ_cons, h]; simp [summ1, Summ.comb, sepOk_nil]

theorem attrP_summ : ∀ (attrs : List Text), attrs ≠ [] → ∃ f, summ (attrP attrs) = .lexy [] f true []
  | [], h => absurd rfl h
  | [a], _ => ⟨_, summ_tok a⟩
  | a :: b :: rest, _ => by
    obtain ⟨f, hf⟩ := attrP_summ (b :: rest) (by simp)
    exact ⟨_, by simp only [attrP]; exact summ_tok_cons a (summ_tok_cons _ hf)⟩

/-- `sep . a₁.a₂…`: the separator in front of the dot, the dot, the attrpath -/
theorem dotAttr_summ (w : Text) (attrs : List Text) (hne : attrs ≠ []) :
    summ ([FP.ws w, FP.tok ['.']] ++ attrP attrs) = .lexy w (.tok ['.']) true [] := by
  obtain ⟨fa, hfa⟩ := attrP_summ attrs hne
  rw [show [FP.ws w, FP.tok ['.']] ++ attrP attrs = FP.ws w :: (FP.tok ['.'] :: attrP attrs) from rfl, summ_cons,
    summ_tok_cons _ hfa]
  simp [summ1, Summ.comb]

theorem dot_ne_semi : Lex.tok ['.'] ≠ Lex.tok [';'] := by intro h; injection h with h; cases h

theorem summ_tok3 (a b c : Char) (hc : c ≠ ';') :
    summ [FP.tok [a], FP.ws [b], FP.tok [c]] = .lexy [] (.tok [a]) (sepOk [b] (.tok [c])) [] := by
  simp [summ_cons, summ1, Summ.comb]

theorem recP_op_summ (r : Bool) : summ (recP r ++ [FP.tok ['{']]) = .lexy [] (if r then .tok ['r', 'e', 'c'] else .tok ['{']) true [] := by
  cases r
  · simp [recP, summ_cons, summ1, Summ.comb]
  · simp only [recP, List.cons_append, List.nil_append, summ_cons, summ1, summ_nil, Summ.comb, List.append_nil,
      List.nil_append, Bool.true_and, Bool.and_true, if_true]
    rw [sepOk_space _ (tok_ne_semi_of (by decide))]

theorem rec_first_ne_semi (r : Bool) : (if r then Lex.tok ['r', 'e', 'c'] else Lex.tok ['{']) ≠ semi := by
  cases r <;> simp [semi]

theorem tok_ne_semi {t : Text} (h : t ≠ [';']) : Lex.tok t ≠ semi := by
  intro e; injection e with e; exact h e

theorem exprS_of_wrap {e : Expr} {na : Bool} {i : Nat} {b : Bool} {bf : List Trivia} {coreI T : List FP}
    {fc : Lex} (hok : TrivOk bf) (ha : Alt bf)
    (hcore : summ coreI = .lexy (if b then [] else spaces i) fc true []) (hfc : fc ≠ semi)
    (hT : TrailS (summ T)) (hTc : closedT (e.effAfter na) → (summ T).trailT = [])
    (h1 : e.before = [] → bf = []) (h2 : headCmt e.before → headCmt bf)
    (h3 : leadE e.before = 0 → leadE bf = 0 := by exact fun h => h) :
    ExprS e na i b (summ (linesP i bf ++ coreI ++ T)) := by
  obtain ⟨l, f, hs, hf, hl, c1, c2, c4⟩ := wrap_summ hok ha i b hcore hfc hT
  exact ⟨l, f, _, hs, hf, hl, trailS_trailT hT, fun h => c1 (h1 h), fun h hi => c2 (h2 h) hi, hTc, fun h => c4 (h3 h)⟩

theorem previewP_endsTok : ∀ {e : Expr} {i : Nat} {p : List FP}, e.previewP i = some p → EndsTok p [']']
  | .leaf .., _, _, h => by simp [Expr.previewP] at h
  | .set .., _, _, h => by simp [Expr.previewP] at h
  | .binding .., _, _, h => by simp [Expr.previewP] at h
  | .list value ml inner before after, i, p, h => by
    cases value with
    | nil =>
      simp only [Expr.previewP] at h
      split at h; · cases h
      split at h; · cases h
      split at h; · cases h
      split at h; · cases h
      injection h with h; subst h
      exact endsTok_cons _ (endsTok_cons _ (endsTok_single _))
    | cons v vs =>
      simp only [Expr.previewP] at h
      split at h; · cases h
      split at h; · cases h
      split at h; · cases h
      split at h; · cases h
      injection h with h; subst h
      exact endsTok_append _ (endsTok_cons _ (endsTok_single _))

theorem effAfter_notBinding {e : Expr} (h : e.notBinding = true) : e.effAfter false = e.after := by
  cases e <;> first | rfl | cases h

theorem effAfter_true_notBinding {e : Expr} (h : e.notBinding = true) : e.effAfter true = [] := by
  cases e <;> first | rfl | cases h

/-! ### `if` / `?`: separators without comments -/

/-- one space, or a line break (and a blank line) followed by the indentation read from the gap -/
def sepText (g : Text) : Text :=
  if (Layout.fromGap g).onNewline then
    '\n' :: (if (Layout.fromGap g).blankLine then ['\n'] else []) ++ spaces ((Layout.fromGap g).indent.getD 0)
  else [' ']

/-- one space, or a line break (and a blank line) -/
def brkText (g : Text) : Text :=
  if (Layout.fromGap g).onNewline then '\n' :: (if (Layout.fromGap g).blankLine then ['\n'] else []) else [' ']

theorem sepText_sepOk (g : Text) (x : Lex) (hx : x ≠ .tok [';']) : sepOk (sepText g) x = true := by
  unfold sepText
  cases (Layout.fromGap g).onNewline with
  | false => simpa using sepOk_space x hx
  | true =>
    simp only [if_true]
    cases (Layout.fromGap g).blankLine
    · simpa using sepOk_nl _ x hx
    · simpa using sepOk_nlnl _ x hx

theorem iteCondPrefix_nil (g : Text) (ci : Nat) (s : Text) : iteCondPrefix [] g ci s = brkText g := by
  unfold iteCondPrefix iteLayout brkText formatInterstitialTriviaWithSeparator
  simp only [formatInterstitialTrivia, formatInterstitialGo, separatorFromLayoutWithComments, List.isEmpty_nil, Bool.not_true,
    Bool.false_eq_true, if_false, Bool.false_and, List.nil_append, endsWithNL_nil', startsWithNL, List.head?_nil]
  cases (Layout.fromGap g).onNewline <;> simp

theorem iteKwPrefix_nil (g : Text) (i : Nat) (s : Text) : iteKwPrefix [] g i s = sepText g := by
  unfold iteKwPrefix iteLayout sepText formatInterstitialTriviaWithSeparator
  simp only [formatInterstitialTrivia, formatInterstitialGo, separatorFromLayoutWithComments, List.isEmpty_nil, Bool.not_true,
    Bool.false_eq_true, if_false, Bool.false_and, List.nil_append, endsWithNL_nil', startsWithNL, List.head?_nil]
  cases (Layout.fromGap g).onNewline <;> simp

theorem hasSep_nil (g : Text) (i : Nat) :
    (formatInterstitialTriviaWithSeparator [] (unLayout [] g) i (dropBlankIfItems := false)).1 ++
      (formatInterstitialTriviaWithSeparator [] (unLayout [] g) i (dropBlankIfItems := false)).2 = sepText g := by
  unfold unLayout sepText formatInterstitialTriviaWithSeparator
  simp only [formatInterstitialTrivia, formatInterstitialGo, separatorFromLayoutWithComments, List.isEmpty_nil, Bool.not_true,
    Bool.false_eq_true, if_false, Bool.false_and, List.nil_append, endsWithNL_nil', hasLayoutOrComment, List.any_nil]
  cases (Layout.fromGap g).onNewline <;> simp

theorem branchSep_eq (g : Text) : branchSep (Layout.fromGap g) = brkText g := by
  unfold branchSep brkText
  cases (Layout.fromGap g).onNewline <;> cases (Layout.fromGap g).blankLine <;> rfl

theorem iteLayout_nil (g : Text) : iteLayout g (branchHasComments [] []) = Layout.fromGap g := by
  simp [iteLayout, branchHasComments]

theorem summ_ws_block (w : Text) {R : List FP} {W : Text} {f : Lex} {t : Text} (h : summ R = .lexy W f true t) :
    summ (FP.ws w :: R) = .lexy (w ++ W) f true t := by
  rw [summ_cons, h]; simp [summ1, Summ.comb]

/-- a separator of `brkText`, then the expression inline or on its own line -/
theorem branch_summ {e : Expr} (ih : ∀ (j : Nat) (bb : Bool), ExprS e false j bb (summ (e.rebuildAP false j bb)))
    (heb : e.before = []) (hcl : closedT (e.effAfter false)) (g : Text) (j i : Nat) :
    ∃ W f, sepOk W f = true ∧
      summ (FP.ws (brkText g) :: (if (Layout.fromGap g).onNewline = true then e.rebuildAP false j false
        else e.rebuildAP false i true)) = .lexy W f true [] := by
  unfold brkText
  cases (Layout.fromGap g).onNewline with
  | false =>
    obtain ⟨l, f, t, hs, hf, _, _, c1, _, c3, _⟩ := ih i true
    refine ⟨[' '] ++ l, f, ?_, ?_⟩
    · rw [c1 heb]; simpa using sepOk_space f hf
    · simp only [Bool.false_eq_true, if_false]
      rw [summ_ws_block _ hs, c3 hcl]
  | true =>
    obtain ⟨l, f, t, hs, hf, _, _, c1, _, c3, _⟩ := ih j false
    refine ⟨('\n' :: (if (Layout.fromGap g).blankLine = true then ['\n'] else [])) ++ l, f, ?_, ?_⟩
    · rw [c1 heb]
      simp only [Bool.false_eq_true, if_false]
      cases (Layout.fromGap g).blankLine
      · simpa using sepOk_nl j f hf
      · simpa using sepOk_nlnl j f hf
    · simp only [if_true]
      rw [summ_ws_block _ hs, c3 hcl]

/-- the pieces of an `if` between its leading and trailing trivia -/
theorem ite_core_summ {C T E : List FP} {W1 W2 W3 W4 W5 : Text}
    (hC : ∃ W f, sepOk W f = true ∧ summ (FP.ws W1 :: C) = .lexy W f true [])
    (h2 : sepOk W2 (.tok kwThen) = true)
    (hT : ∃ W f, sepOk W f = true ∧ summ (FP.ws W3 :: T) = .lexy W f true [])
    (h4 : sepOk W4 (.tok kwElse) = true)
    (hE : ∃ W f, sepOk W f = true ∧ summ (FP.ws W5 :: E) = .lexy W f true []) :
    summ ([FP.tok kwIf, FP.ws W1] ++ C ++ [FP.ws W2, FP.tok kwThen, FP.ws W3] ++ T ++ [FP.ws W4, FP.tok kwElse, FP.ws W5] ++ E) =
      .lexy [] (.tok kwIf) true [] := by
  obtain ⟨Wc, fc, hsc, hC⟩ := hC
  obtain ⟨Wt, ft, hst, hT⟩ := hT
  obtain ⟨We, fe, hse, hE⟩ := hE
  rw [show [FP.tok kwIf, FP.ws W1] ++ C ++ [FP.ws W2, FP.tok kwThen, FP.ws W3] ++ T ++ [FP.ws W4, FP.tok kwElse, FP.ws W5] ++ E =
    [FP.tok kwIf] ++ ((FP.ws W1 :: C) ++ ([FP.ws W2, FP.tok kwThen] ++ ((FP.ws W3 :: T) ++ ([FP.ws W4, FP.tok kwElse] ++
      (FP.ws W5 :: E))))) from by simp]
  simp only [summ_append, hC, hT, hE, summ_cons, summ_nil, summ1]
  simp [Summ.comb, hsc, hst, hse, h2, h4]

/-- the first token of an attrpath is one of its segments -/
theorem attrP_summ_head : ∀ (attrs : List Text), attrs ≠ [] → ∃ a ∈ attrs, summ (attrP attrs) = .lexy [] (.tok a) true []
  | [], h => absurd rfl h
  | [a], _ => ⟨a, List.mem_cons_self .., summ_tok a⟩
  | a :: b :: rest, _ => by
    obtain ⟨f, hf⟩ := attrP_summ (b :: rest) (by simp)
    exact ⟨a, List.mem_cons_self .., by simp only [attrP]; exact summ_tok_cons a (summ_tok_cons _ hf)⟩

mutual
theorem rebuildAP_summ : (e : Expr) → e.ok → e.mlSafe → e.nfInv → e.inlineClean → ∀ (na : Bool) (i : Nat) (b : Bool),
    ExprS e na i b (summ (e.rebuildAP na i b))
  | .leaf k t before after, hok, _, hinv, _, na, i, b => by
    obtain ⟨ht, hb, ha⟩ := hok
    obtain ⟨hts, hab, haa⟩ := hinv
    have hb' := leafBefore_ok k t hb i b
    have ha' := ite_nil_ok na ha
    have hT := trailP_summ ha' (alt_ite_nil na haa) i
    simp only [Expr.rebuildAP, addTriviaP]
    rw [fmtP_lines hb'.1, List.append_assoc (linesP i (leafBefore k t before i b))]
    refine exprS_of_wrap hb' (leafBefore_alt k t hab i b) ?_ (tok_ne_semi hts) hT.1 hT.2 ?_ ?_ ?_
    · rw [summ_append, indentP_summ, summ_tok]; simp [Summ.comb]
    · intro h; simp only [Expr.before] at h; subst h; exact leafBefore_nil ..
    · intro h; simp only [Expr.before] at h; rw [leafBefore_headCmt k t h]; exact h
    · intro h; simp only [Expr.before] at h; exact leafBefore_leadE k t h i b
  | .list value ml inner before after, hok, hml, hinv, hclean, na, i, b => by
    have hvm := hml.1
    obtain ⟨hv, hin, hb, ha⟩ := hok
    obtain ⟨hvi, hain, hab, haa, hnl⟩ := hinv
    obtain ⟨hflat, hcl⟩ := hclean
    have ha' := ite_nil_ok na ha
    have hT := trailP_summ ha' (alt_ite_nil na haa) i
    have hop : summ [FP.tok ['[']] = .lexy [] (.tok ['[']) true [] := summ_tok _
    have hfo : Lex.tok ['['] ≠ semi := tok_ne_semi (by decide)
    cases value with
    | nil =>
      simp only [Expr.rebuildAP]
      split
      · rw [multilineBlockP_eq, fmtP_lines hb.1, fmtP_lines hin.1]
        exact exprS_of_wrap hb hab (block_inner_summ hop hin hain ']' (by decide) i (i + 2) b) hfo hT.1 hT.2
          (fun h => h) (fun h => h)
      · rw [fmtP_lines hb.1, List.append_assoc (linesP i before)]
        refine exprS_of_wrap hb hab ?_ hfo hT.1 hT.2 (fun h => h) (fun h => h)
        rw [summ_append, indentP_summ, summ_tok3 '[' ' ' ']' (by decide), sepOk_space _ (tok_ne_semi_of (by decide))]
        simp [Summ.comb]
    | cons v vs =>
      cases ml with
      | true =>
        obtain ⟨lb, fb, tb, hbody, hfb, hlb, htb⟩ := joinNl_summ (v :: vs) hv hvm hvi hcl hnl (by simp) (i + 2)
        have hsol : Solid (joinP [FP.ws ['\n']] (rebuildAllP (v :: vs) (i + 2) false)) :=
          solid_joinP_ws _ _ (rebuildAllP_lex (v :: vs) hv _ _).2
        simp only [Expr.rebuildAP, if_true, Bool.not_true, multilineBlockP_eq, fmtP_lines hb.1, List.nil_append]
        exact exprS_of_wrap hb hab (block_items_summ hop hbody hsol hlb hfb htb ']' (by decide) i b true) hfo hT.1 hT.2
          (fun h => h) (fun h => h)
      | false =>
        obtain ⟨f, hj, hf⟩ := joinSp_summ (v :: vs) hv hvm hvi hcl (hflat rfl) (by simp) i
        simp only [Expr.rebuildAP, Bool.false_eq_true, if_false, Bool.not_false, fmtP_lines hb.1]
        rw [show linesP i before ++ indentP i b ++ [FP.tok ['['], FP.ws [' ']] ++
              joinP [FP.ws [' ']] (rebuildAllP (v :: vs) i true) ++ [FP.ws [' '], FP.tok [']']] =
          linesP i before ++ (indentP i b ++ [FP.tok ['['], FP.ws [' ']] ++
              joinP [FP.ws [' ']] (rebuildAllP (v :: vs) i true) ++ [FP.ws [' '], FP.tok [']']]) from by
            simp only [List.append_assoc]]
        refine exprS_of_wrap hb hab ?_ hfo hT.1 hT.2 (fun h => h) (fun h => h)
        simp only [summ_append, indentP_summ, hj, summ_cons, summ_nil, summ1]
        simp only [Summ.comb, List.nil_append, List.append_nil, Bool.true_and, Bool.and_true]
        rw [sepOk_space _ hf, sepOk_space _ (tok_ne_semi_of (by decide))]
        rfl
  | .set values ml r inner before after, hok, hml, hinv, hclean, na, i, b => by
    have hvm := hml.1
    obtain ⟨hv, hin, hb, ha⟩ := hok
    obtain ⟨hvi, hain, hab, haa, hnl⟩ := hinv
    obtain ⟨hflat, hcl⟩ := hclean
    have ha' := ite_nil_ok na ha
    have hT := trailP_summ ha' (alt_ite_nil na haa) i
    have hop := recP_op_summ r
    have hfo := rec_first_ne_semi r
    cases values with
    | nil =>
      simp only [Expr.rebuildAP]
      split
      · rw [multilineBlockP_eq, fmtP_lines hb.1, fmtP_lines hin.1]
        exact exprS_of_wrap hb hab (block_inner_summ hop hin hain '}' (by decide) i (i + 2) b) hfo hT.1 hT.2
          (fun h => h) (fun h => h)
      · simp only [addTriviaP, fmtP_lines hb.1]
        rw [show linesP i before ++ indentP i b ++ (recP r ++ [FP.tok ['{'], FP.ws [' '], FP.tok ['}']]) =
          linesP i before ++ (indentP i b ++ ((recP r ++ [FP.tok ['{']]) ++ [FP.ws [' '], FP.tok ['}']])) from by
            simp only [List.append_assoc, List.cons_append, List.nil_append]]
        refine exprS_of_wrap hb hab ?_ hfo hT.1 hT.2 (fun h => h) (fun h => h)
        simp only [summ_append, indentP_summ, hop, summ_cons, summ_nil, summ1]
        simp only [Summ.comb, List.nil_append, List.append_nil, Bool.true_and, Bool.and_true]
        rw [sepOk_space _ (tok_ne_semi_of (by decide))]
    | cons v vs =>
      cases ml with
      | true =>
        obtain ⟨lb, fb, tb, hbody, hfb, hlb, htb⟩ := joinNl_summ (v :: vs) hv hvm hvi hcl hnl (by simp) (i + 2)
        have hsol : Solid (joinP [FP.ws ['\n']] (rebuildAllP (v :: vs) (i + 2) false)) :=
          solid_joinP_ws _ _ (rebuildAllP_lex (v :: vs) hv _ _).2
        simp only [Expr.rebuildAP, if_true, multilineBlockP_eq, fmtP_lines hb.1]
        exact exprS_of_wrap hb hab (block_items_summ hop hbody hsol hlb hfb htb '}' (by decide) i b true) hfo hT.1 hT.2
          (fun h => h) (fun h => h)
      | false =>
        obtain ⟨f, hj, hf⟩ := joinSp_summ (v :: vs) hv hvm hvi hcl (hflat rfl) (by simp) (i + 2)
        simp only [Expr.rebuildAP, Bool.false_eq_true, if_false, addTriviaP, fmtP_lines hb.1]
        rw [show linesP i before ++ indentP i b ++ (recP r ++ [FP.tok ['{'], FP.ws [' ']] ++
              joinP [FP.ws [' ']] (rebuildAllP (v :: vs) (i + 2) true) ++ [FP.ws [' '], FP.tok ['}']]) =
          linesP i before ++ (indentP i b ++ ((recP r ++ [FP.tok ['{']]) ++ [FP.ws [' ']] ++
              joinP [FP.ws [' ']] (rebuildAllP (v :: vs) (i + 2) true) ++ [FP.ws [' '], FP.tok ['}']])) from by
            simp only [List.append_assoc, List.cons_append, List.nil_append]]
        refine exprS_of_wrap hb hab ?_ hfo hT.1 hT.2 (fun h => h) (fun h => h)
        simp only [summ_append, indentP_summ, hop, hj, summ_cons, summ_nil, summ1]
        simp only [Summ.comb, List.nil_append, List.append_nil, Bool.true_and, Bool.and_true]
        rw [sepOk_space _ hf, sepOk_space _ (tok_ne_semi_of (by decide))]
        rfl
  | .binding name value vg before after, hok, hml, hinv, hclean, na, i, b => by
    obtain ⟨hn, hv, hb, ha⟩ := hok
    obtain ⟨hns, hvi, hnb, hab, haa, hava, hon⟩ := hinv
    have ihv := rebuildAP_summ value hv hml.1 hvi hclean
    have ihp := previewP_summ value hv hml.1 hvi hclean
    have hva := ok_after hv
    have haT : Alt (value.after ++ if na = true then [] else after) := by
      cases na
      · exact haa
      · simpa using hava
    have hT := bindingTailP_summ (trivOk_append hva (ite_nil_ok na ha)) haT i
    simp only [Expr.rebuildAP]
    -- the value
    have hval : ∃ lv fv, summ (rstripNLP ((if bindOnNewline vg value.before = true then none
          else value.previewP (bindValIndent vg value.before i)).getD
          (value.rebuildAP true (bindValIndent vg value.before i) (!bindOnNewline vg value.before)))) =
        .lexy lv fv true [] ∧ fv ≠ semi ∧ VLead lv ∧ (bindOnNewline vg value.before = false → lv = []) := by
      have hfull : ∀ bb, ∃ lv fv, summ (rstripNLP (value.rebuildAP true (bindValIndent vg value.before i) bb)) =
          .lexy lv fv true [] ∧ fv ≠ semi ∧ VLead lv ∧ (value.before = [] → lv = if bb then [] else spaces (bindValIndent vg value.before i)) := by
        intro bb
        obtain ⟨tt, het, hst⟩ := noAfter_ends_tok value hv (mlSafe_tailOk value hml.1) hnb (bindValIndent vg value.before i) bb
        obtain ⟨xs, hxs⟩ := het
        obtain ⟨l, f, t, hs, hf, hl, _, c1, _, c3, _⟩ := ihv true (bindValIndent vg value.before i) bb
        rw [hxs, rstripNLP_snoc_tok xs hst, ← hxs, hs, c3 (by rw [effAfter_true_notBinding hnb]; exact Or.inl rfl)]
        exact ⟨l, f, rfl, hf, hl, c1⟩
      cases hob : bindOnNewline vg value.before with
      | true =>
        simp only [if_true, Option.getD_none, Bool.not_true]
        obtain ⟨lv, fv, h1, h2, h3, _⟩ := hfull false
        exact ⟨lv, fv, h1, h2, h3, fun h => by cases h⟩
      | false =>
        simp only [Bool.false_eq_true, if_false, Bool.not_false]
        cases hp : value.previewP (bindValIndent vg value.before i) with
        | none =>
          simp only [Option.getD_none]
          obtain ⟨lv, fv, h1, h2, h3, h4⟩ := hfull true
          exact ⟨lv, fv, h1, h2, h3, fun _ => by rw [h4 (hon hob)]; rfl⟩
        | some p =>
          simp only [Option.getD_some]
          obtain ⟨xs, hxs⟩ := previewP_endsTok hp
          obtain ⟨f, hs, hf⟩ := ihp _ p hp
          rw [hxs, rstripNLP_snoc_tok xs (solidT_lit ']' (by decide)), ← hxs, hs]
          exact ⟨[], f, rfl, hf, vlead_nil, fun _ => rfl⟩
    obtain ⟨lv, fv, hvs, hfv, hlv, hlv0⟩ := hval
    rw [fmtP_lines hb.1]
    generalize hVP : rstripNLP ((if bindOnNewline vg value.before = true then none
          else value.previewP (bindValIndent vg value.before i)).getD
          (value.rebuildAP true (bindValIndent vg value.before i) (!bindOnNewline vg value.before))) = VP at hvs
    rw [show linesP i before ++ indentP i b ++
          [FP.tok name, FP.ws [' '], FP.tok ['='], FP.ws (if bindOnNewline vg value.before = true then ['\n'] else [' '])] ++
          VP ++ [FP.tok [';']] =
        linesP i before ++ (indentP i b ++
          [FP.tok name, FP.ws [' '], FP.tok ['='], FP.ws (if bindOnNewline vg value.before = true then ['\n'] else [' '])] ++
          VP ++ [FP.tok [';']]) from by simp only [List.append_assoc]]
    refine exprS_of_wrap (e := .binding name value vg before after) hb hab ?_ (tok_ne_semi hns) hT.1 hT.2
      (fun h => h) (fun h => h)
    simp only [summ_append, indentP_summ, hvs, summ_cons, summ_nil, summ1]
    simp only [Summ.comb, List.nil_append, List.append_nil, Bool.true_and, Bool.and_true]
    rw [sepOk_space _ (tok_ne_semi_of (by decide)), sepOk_nil]
    cases hob : bindOnNewline vg value.before with
    | true =>
      simp only [if_true]
      rw [show (['\n'] ++ lv) = '\n' :: lv from rfl, sepOk_nl_vlead hlv fv hfv]
      rfl
    | false =>
      simp only [Bool.false_eq_true, if_false]
      rw [hlv0 hob, List.append_nil, sepOk_space _ hfv]
      rfl
  | .paren value lg tg lb tb before after, hok, hml, hinv, hclean, na, i, b => by
    obtain ⟨hv, hb, ha⟩ := hok
    obtain ⟨hvi, hvcl, hvle, hab, haa⟩ := hinv
    obtain ⟨hcb, hvc⟩ := hclean
    have ha' := ite_nil_ok na ha
    have hT := trailP_summ ha' (alt_ite_nil na haa) i
    have ihv := rebuildAP_summ value hv hml.1 hvi hvc false
    simp only [Expr.rebuildAP, addTriviaP]
    rw [fmtP_lines hb.1, List.append_assoc (linesP i before)]
    refine exprS_of_wrap (fc := .tok ['(']) hb hab ?_ (tok_ne_semi (by decide)) hT.1 hT.2 (fun h => h) (fun h => h)
    -- the value after `(`
    have hval : ∃ lv fv, summ (if (Layout.fromGap lg).onNewline = true
          then FP.ws (nlSep lb) :: value.rebuildAP false ((Layout.fromGap lg).indent.getD (i + 2)) false
          else value.rebuildAP false i true) = .lexy lv fv true [] ∧ sepOk lv fv = true := by
      cases hon : (Layout.fromGap lg).onNewline with
      | true =>
        obtain ⟨l, f, t, hs, hf, _, _, _, _, c3, c4⟩ := ihv ((Layout.fromGap lg).indent.getD (i + 2)) false
        obtain ⟨k, hk⟩ := c4 hvle
        refine ⟨nlSep lb ++ l, f, ?_, ?_⟩
        · simp only [if_true]
          rw [summ_cons, hs, c3 hvcl]; rfl
        · rw [hk]
          cases lb
          · exact sepOk_vert 0 (by omega) k f hf
          · exact sepOk_vert 1 (by omega) k f hf
      | false =>
        obtain ⟨l, f, t, hs, hf, _, _, c1, _, c3, _⟩ := ihv i true
        refine ⟨[], f, ?_, sepOk_nil f⟩
        simp only [Bool.false_eq_true, if_false]
        rw [hs, c3 hvcl, c1 (hcb hon)]; rfl
    obtain ⟨lv, fv, hvs, hsep⟩ := hval
    generalize (if (Layout.fromGap lg).onNewline = true
          then FP.ws (nlSep lb) :: value.rebuildAP false ((Layout.fromGap lg).indent.getD (i + 2)) false
          else value.rebuildAP false i true) = VP at hvs
    have hcl : ∃ w, summ (if (Layout.fromGap tg).onNewline = true then [FP.ws (nlSep tb ++ spaces i)] else []) = .blank w ∧
        sepOk w (.tok [')']) = true := by
      split
      · refine ⟨_, summ_ws _, ?_⟩
        cases tb
        · exact sepOk_vert 0 (by omega) i _ (tok_ne_semi_of (by decide))
        · exact sepOk_vert 1 (by omega) i _ (tok_ne_semi_of (by decide))
      · exact ⟨[], rfl, sepOk_nil _⟩
    obtain ⟨w, hws, hwsep⟩ := hcl
    have hsplit : ∀ (X : List FP), (if (Layout.fromGap tg).onNewline = true then VP ++ X else VP) =
        VP ++ (if (Layout.fromGap tg).onNewline = true then X else []) := by
      intro X; split <;> simp
    rw [hsplit]
    rw [show indentP i b ++ (FP.tok ['('] :: (VP ++ if (Layout.fromGap tg).onNewline = true
            then [FP.ws (nlSep tb ++ spaces i)] else []) ++ [FP.tok [')']]) =
        indentP i b ++ ([FP.tok ['(']] ++ (VP ++ ((if (Layout.fromGap tg).onNewline = true
            then [FP.ws (nlSep tb ++ spaces i)] else []) ++ [FP.tok [')']]))) from by simp]
    simp only [summ_append, indentP_summ, summ_tok, hvs, hws]
    simp only [Summ.comb, List.nil_append, List.append_nil, Bool.true_and, Bool.and_true, hsep, hwsep]
  | .app name arg g fa before after, hok, hml, hinv, hclean, na, i, b => by
    obtain ⟨hn, hx, hfa, hb, ha⟩ := hok
    obtain ⟨hni, hxi, hnb0, hxle, hab, haa⟩ := hinv
    obtain ⟨hcb, hnc, hxc⟩ := hclean
    obtain ⟨hnm, hxm, hnnb, hxnb, hna0, hxa0, hfo, _⟩ := hml
    have ha' := ite_nil_ok na ha
    have hT := trailP_summ ha' (alt_ite_nil na haa) i
    have ihn := rebuildAP_summ name hn hnm hni hnc false i true
    have ihx := rebuildAP_summ arg hx hxm hxi hxc false
    simp only [Expr.rebuildAP, addTriviaP]
    rw [fmtP_lines hb.1, List.append_assoc (linesP i before)]
    -- the function and the comments after it
    obtain ⟨ln, fn, tn, hns, hfn, _, _, c1n, _, c3n, _⟩ := ihn
    have hncl : closedT (name.effAfter false) := by
      rw [effAfter_notBinding hnnb, hna0]; exact Or.inl rfl
    have hxcl : closedT (arg.effAfter false) := by
      rw [effAfter_notBinding hxnb, hxa0]; exact Or.inl rfl
    have hns' : summ (name.rebuildAP false i true) = .lexy [] fn true [] := by
      rw [hns, c3n hncl, c1n hnb0]; rfl
    have hfns := fnAfterP_summ fa _ i [] fn (fnOk_inline hfo) hns'
    refine exprS_of_wrap hb hab ?_ hfn hT.1 hT.2 (fun h => h) (fun h => h)
    -- the argument
    have harg : ∃ la fx, summ (FP.ws (if (Layout.fromGap g).blankLine = true then ['\n', '\n']
            else if (Layout.fromGap g).onNewline = true then ['\n'] else [' ']) ::
          (if ((Layout.fromGap g).onNewline && startsNonSpace (concat (arg.rebuildAP false
                (if (Layout.fromGap g).onNewline = true then (Layout.fromGap g).indent.getD (i + 2) else i)
                !(Layout.fromGap g).onNewline))) = true
            then FP.ws (spaces (if (Layout.fromGap g).onNewline = true then (Layout.fromGap g).indent.getD (i + 2) else i)) ::
              arg.rebuildAP false (if (Layout.fromGap g).onNewline = true then (Layout.fromGap g).indent.getD (i + 2) else i)
                !(Layout.fromGap g).onNewline
            else arg.rebuildAP false (if (Layout.fromGap g).onNewline = true then (Layout.fromGap g).indent.getD (i + 2) else i)
                !(Layout.fromGap g).onNewline)) = .lexy la fx true [] ∧ sepOk la fx = true := by
      cases hon : (Layout.fromGap g).onNewline with
      | true =>
        obtain ⟨l, f, t, hs, hf, _, _, _, _, c3, c4⟩ := ihx ((Layout.fromGap g).indent.getD (i + 2)) false
        obtain ⟨k, hk⟩ := c4 (hxle hon)
        have hs' : summ (arg.rebuildAP false ((Layout.fromGap g).indent.getD (i + 2)) false) = .lexy (spaces k) f true [] := by
          rw [hs, c3 hxcl, hk]
        cases hbl : (Layout.fromGap g).blankLine with
        | true =>
          simp only [if_true, Bool.not_true, Bool.true_and]
          obtain ⟨la, h1, h2⟩ := arg_on_summ ['\n', '\n'] ((Layout.fromGap g).indent.getD (i + 2)) hs'
            (fun k' => sepOk_vert 1 (by omega) k' f hf)
            (startsNonSpace (concat (arg.rebuildAP false ((Layout.fromGap g).indent.getD (i + 2)) false)))
          exact ⟨la, f, h1, h2⟩
        | false =>
          simp only [if_true, Bool.false_eq_true, if_false, Bool.not_true, Bool.true_and]
          obtain ⟨la, h1, h2⟩ := arg_on_summ ['\n'] ((Layout.fromGap g).indent.getD (i + 2)) hs'
            (fun k' => sepOk_vert 0 (by omega) k' f hf)
            (startsNonSpace (concat (arg.rebuildAP false ((Layout.fromGap g).indent.getD (i + 2)) false)))
          exact ⟨la, f, h1, h2⟩
      | false =>
        have hbl : (Layout.fromGap g).blankLine = false := by
          unfold Layout.fromGap at hon ⊢; split <;> simp_all
        simp only [hbl, Bool.false_eq_true, if_false, Bool.not_false, Bool.false_and]
        obtain ⟨l, f, t, hs, hf, _, _, c1, _, c3, _⟩ := ihx i true
        refine ⟨[' '], f, ?_, sepOk_space f hf⟩
        rw [summ_cons, hs, c3 hxcl, c1 (hcb hon)]; rfl
    obtain ⟨la, fx, has, hsep⟩ := harg
    simp only [summ_append, indentP_summ, hfns, has]
    simp only [Summ.comb, List.nil_append, List.append_nil, Bool.true_and, Bool.and_true, hsep]
  | .asrt .., _, _, hinv, _, _, _, _ => hinv.elim
  | .sel expr attrs g ab before after, hok, hml, hinv, hclean, na, i, b => by
    obtain ⟨he, hne, _, _, hb, ha⟩ := hok
    obtain ⟨hem, henb, hea⟩ := hml
    obtain ⟨hei, heb, hab0, habf, haaf⟩ := hinv
    subst hab0
    have hT := trailP_summ (ite_nil_ok na ha) (alt_ite_nil na haaf) i
    obtain ⟨l, f, t, hs, hf, _, _, c1, _, c3, _⟩ := rebuildAP_summ expr he hem hei hclean false i true
    have hcl : closedT (expr.effAfter false) := by rw [effAfter_notBinding henb, hea]; exact Or.inl rfl
    have hes : summ (expr.rebuildAP false i true) = .lexy [] f true [] := by rw [hs, c3 hcl, c1 heb]; rfl
    have hend : endsWithNL (concat (expr.rebuildAP false i true)) = false := by
      rw [endsWithNL_summ (rebuildAP_lex expr he false i true).2, hes]; rfl
    simp only [Expr.rebuildAP, addTriviaP]
    rw [fmtP_lines hb.1, List.append_assoc (linesP i before)]
    refine exprS_of_wrap hb habf ?_ hf hT.1 hT.2 (fun h => h) (fun h => h)
    rw [List.append_assoc, summ_append, summ_append, indentP_summ, hes, dotAttr_summ _ _ hne]
    simp only [Summ.comb, List.nil_append, List.append_nil, Bool.true_and, Bool.and_true,
      selSep_sepOk _ g i hend _ dot_ne_semi]
  | .selOr expr attrs g ab d dg db before after, hok, hml, hinv, hclean, na, i, b => by
    obtain ⟨he, hne, _, _, hd, _, hb, ha⟩ := hok
    obtain ⟨hem, hdm, henb, hdnb, hea, hda⟩ := hml
    obtain ⟨hei, heb, hab0, hdi, hdb, hdb0, habf, haaf⟩ := hinv
    subst hab0; subst hdb0
    have hT := trailP_summ (ite_nil_ok na ha) (alt_ite_nil na haaf) i
    obtain ⟨l, f, t, hs, hf, _, _, c1, _, c3, _⟩ := rebuildAP_summ expr he hem hei hclean.1 false i true
    obtain ⟨ld, fd, td, hsd, hfd, _, _, c1d, _, c3d, _⟩ := rebuildAP_summ d hd hdm hdi hclean.2 false (selOrIndent dg i) true
    have hcl : closedT (expr.effAfter false) := by rw [effAfter_notBinding henb, hea]; exact Or.inl rfl
    have hcld : closedT (d.effAfter false) := by rw [effAfter_notBinding hdnb, hda]; exact Or.inl rfl
    have hes : summ (expr.rebuildAP false i true) = .lexy [] f true [] := by rw [hs, c3 hcl, c1 heb]; rfl
    have hds : summ (d.rebuildAP false (selOrIndent dg i) true) = .lexy [] fd true [] := by rw [hsd, c3d hcld, c1d hdb]; rfl
    have hend : endsWithNL (concat (expr.rebuildAP false i true)) = false := by
      rw [endsWithNL_summ (rebuildAP_lex expr he false i true).2, hes]; rfl
    simp only [Expr.rebuildAP, addTriviaP]
    rw [fmtP_lines hb.1, List.append_assoc (linesP i before)]
    refine exprS_of_wrap hb habf ?_ hf hT.1 hT.2 (fun h => h) (fun h => h)
    rw [show indentP i b ++ (expr.rebuildAP false i true ++ [FP.ws (selSep (concat (expr.rebuildAP false i true)) g [] i), FP.tok ['.']] ++
          attrP attrs ++ [FP.ws (selOrSep dg [] i), FP.tok ['o', 'r'], FP.ws [' ']] ++ d.rebuildAP false (selOrIndent dg i) true) =
        indentP i b ++ (expr.rebuildAP false i true ++ (([FP.ws (selSep (concat (expr.rebuildAP false i true)) g [] i), FP.tok ['.']] ++
          attrP attrs) ++ ([FP.ws (selOrSep dg [] i), FP.tok ['o', 'r'], FP.ws [' ']] ++ d.rebuildAP false (selOrIndent dg i) true)))
      from by simp only [List.append_assoc]]
    simp only [summ_append, indentP_summ, hes, dotAttr_summ _ _ hne, hds, summ_cons, summ_nil, summ1]
    simp only [Summ.comb, List.nil_append, List.append_nil, Bool.true_and, Bool.and_true,
      selSep_sepOk _ g i hend _ dot_ne_semi, selOrSep_sepOk dg i _ (tok_ne_semi (t := ['o', 'r']) (by decide)), sepOk_space _ hfd]
  | .un op expr g bt before after, hok, hml, hinv, hclean, na, i, b => by
    obtain ⟨⟨hop, hopne⟩, he, _, hb, ha⟩ := hok
    obtain ⟨hem, henb, hea⟩ := hml
    obtain ⟨hei, heb, hbt0, hopsemi, habf, haaf⟩ := hinv
    subst hbt0
    have hT := trailP_summ (ite_nil_ok na ha) (alt_ite_nil na haaf) i
    have ihe := rebuildAP_summ expr he hem hei hclean false
    have hcl : closedT (expr.effAfter false) := by rw [effAfter_notBinding henb, hea]; exact Or.inl rfl
    have hne : (op == ['+', '+']) = false := by simpa using hopne
    simp only [Expr.rebuildAP, addTriviaP, hne, Bool.false_and, Bool.false_eq_true, if_false]
    rw [fmtP_lines hb.1, List.append_assoc (linesP i before)]
    refine exprS_of_wrap (fc := .tok op) hb habf ?_ (tok_ne_semi hopsemi) hT.1 hT.2 (fun h => h) (fun h => h)
    have hlay : unLayout [] g = Layout.fromGap g := by simp [unLayout, hasLayoutOrComment]
    rw [hlay, unSep_cases]
    cases hon : (Layout.fromGap g).onNewline with
    | false =>
      obtain ⟨l, f, t, hs, hf, _, _, c1, _, c3, _⟩ := ihe i true
      simp only [Bool.false_eq_true, if_false, summ_append, indentP_summ, summ_cons, summ_nil, summ1, hs, c3 hcl, c1 heb]
      simp [Summ.comb, sepOk_nil]
    | true =>
      obtain ⟨l, f, t, hs, hf, _, _, c1, _, c3, _⟩ := ihe ((Layout.fromGap g).indent.getD i) false
      simp only [if_true, summ_append, indentP_summ, summ_cons, summ_nil, summ1, hs, c3 hcl, c1 heb]
      simp only [Summ.comb, List.nil_append, List.append_nil, Bool.true_and, Bool.and_true, Bool.false_eq_true, if_false]
      cases (Layout.fromGap g).blankLine
      · simp only [Bool.false_eq_true, if_false]
        rw [show (['\n'] ++ spaces ((Layout.fromGap g).indent.getD i)) = '\n' :: spaces ((Layout.fromGap g).indent.getD i) from rfl,
          sepOk_nl _ f hf]
      · simp only [if_true]
        rw [show (['\n', '\n'] ++ spaces ((Layout.fromGap g).indent.getD i)) = '\n' :: '\n' :: spaces ((Layout.fromGap g).indent.getD i) from rfl,
          sepOk_nlnl _ f hf]
  | .lam name bcc g k body before after, hok, hml, hinv, hclean, na, i, b => by
    obtain ⟨_, _, hbd, hb, ha⟩ := hok
    obtain ⟨hbm, hbnb, hba⟩ := hml
    obtain ⟨hbi, hbcc0, hk1, hk0, hnsemi, habf, haaf⟩ := hinv
    subst hbcc0
    have hT := trailP_summ (ite_nil_ok na ha) (alt_ite_nil na haaf) i
    have hcl : closedT (body.effAfter false) := by rw [effAfter_notBinding hbnb, hba]; exact Or.inl rfl
    obtain ⟨l, f, t, hs, hf, hl, _, c1, _, c3, _⟩ := rebuildAP_summ body hbd hbm hbi hclean false i (k == 0)
    simp only [Expr.rebuildAP, addTriviaP]
    rw [fmtP_lines hb.1, List.append_assoc (linesP i before)]
    refine exprS_of_wrap (fc := .tok name) hb habf ?_ (tok_ne_semi hnsemi) hT.1 hT.2 (fun h => h) (fun h => h)
    simp only [summ_append, indentP_summ, summ_cons, summ_nil, summ1, hs, c3 hcl]
    simp only [Summ.comb, List.nil_append, List.append_nil, Bool.true_and, Bool.and_true,
      lamColonPrefix_sepOk g i _ colon_ne_semi]
    match k, hk1 with
    | 0, _ =>
      have hl0 : l = [] := by rw [c1 (hk0 rfl)]; rfl
      subst hl0
      simp [lamBreak, sepOk_space _ hf]
    | 1, _ =>
      simp only [lamBreak, List.replicate, Nat.succ_ne_zero, if_false]
      rw [show (['\n'] ++ l) = '\n' :: l from rfl, sepOk_nl_vlead hl f hf]
  | .bin op left right ogl rgl before after, hok, hml, hinv, hclean, na, i, b => by
    obtain ⟨_, hl, hr, hb, ha⟩ := hok
    obtain ⟨hlm, hrm, hlnb, hrnb, hla, hra⟩ := hml
    obtain ⟨hli, hlb, hri, hrb, hopsemi, habf, haaf⟩ := hinv
    obtain ⟨hogl, hrgl, hlc, hrc⟩ := hclean
    have hT := trailP_summ (ite_nil_ok na ha) (alt_ite_nil na haaf) i
    have hcll : closedT (left.effAfter false) := by rw [effAfter_notBinding hlnb, hla]; exact Or.inl rfl
    have hclr : closedT (right.effAfter false) := by rw [effAfter_notBinding hrnb, hra]; exact Or.inl rfl
    obtain ⟨ll, fl, tl, hsl, hfl, _, _, c1l, _, c3l, _⟩ := rebuildAP_summ left hl hlm hli hlc false i true
    have hls : summ (left.rebuildAP false i true) = .lexy [] fl true [] := by rw [hsl, c3l hcll, c1l hlb]; rfl
    have hrs : ∀ (j : Nat), ∃ fr, summ (right.rebuildAP false j true) = .lexy [] fr true [] ∧ fr ≠ semi := by
      intro j
      obtain ⟨lr, fr, tr, hsr, hfr, _, _, c1r, _, c3r, _⟩ := rebuildAP_summ right hr hrm hri hrc false j true
      exact ⟨fr, by rw [hsr, c3r hclr, c1r hrb]; rfl, hfr⟩
    have hopne : Lex.tok op ≠ semi := tok_ne_semi hopsemi
    simp only [Expr.rebuildAP, addTriviaP]
    rw [fmtP_lines hb.1, List.append_assoc (linesP i before)]
    refine exprS_of_wrap hb habf ?_ hfl hT.1 hT.2 (fun h => h) (fun h => h)
    have hbe : right.before.isEmpty = true := by rw [hrb]; rfl
    obtain ⟨fr1, hr1, hfr1⟩ := hrs (binRightIndent op right i)
    obtain ⟨fr2, hr2, hfr2⟩ := hrs i
    unfold binCoreP
    rw [hbe]
    by_cases ho : ogl = 0
    · subst ho
      by_cases hg : rgl = 0
      · subst hg
        simp only [bne_self_eq_false, Bool.false_eq_true, if_false, summ_append, indentP_summ, hls, hr2, summ_cons, summ_nil, summ1]
        simp [Summ.comb, sepOk_space _ hopne, sepOk_space _ hfr2]
      · have hg' : (rgl != 0) = true := by simpa using hg
        simp only [bne_self_eq_false, Bool.false_eq_true, if_false, hg', if_true, summ_append, indentP_summ, hls, hr1, summ_cons,
          summ_nil, summ1]
        simp only [Summ.comb, List.nil_append, List.append_nil, Bool.true_and, Bool.and_true, sepOk_space _ hopne]
        rw [sepOk_replicate_nl rgl (by omega) hrgl _ _ hfr1]
    · have ho' : (ogl != 0) = true := by simpa using ho
      by_cases hg : rgl = 0
      · subst hg
        simp only [ho', if_true, bne_self_eq_false, Bool.false_eq_true, if_false, summ_append, indentP_summ, hls, hr2, summ_cons,
          summ_nil, summ1]
        simp only [Summ.comb, List.nil_append, List.append_nil, Bool.true_and, Bool.and_true, sepOk_space _ hfr2]
        rw [sepOk_replicate_nl ogl (by omega) hogl _ _ hopne]
      · have hg' : (rgl != 0) = true := by simpa using hg
        simp only [ho', if_true, hg', summ_append, indentP_summ, hls, hr1, summ_cons, summ_nil, summ1]
        simp only [Summ.comb, List.nil_append, List.append_nil, Bool.true_and, Bool.and_true]
        rw [sepOk_replicate_nl ogl (by omega) hogl _ _ hopne, sepOk_replicate_nl rgl (by omega) hrgl _ _ hfr1]
        rfl
  | .wth env body awc g asc before after, hok, hml, hinv, hclean, na, i, b => by
    obtain ⟨hen, hbd, _, hasc, hb, ha⟩ := hok
    obtain ⟨hem, hbm, henb, hbnb, hea, hba⟩ := hml
    obtain ⟨hei, heb, hawc, hbi, habf, haaf⟩ := hinv
    subst hawc; subst hasc
    obtain ⟨hec, hbc⟩ := hclean
    have hT := trailP_summ (ite_nil_ok na ha) (alt_ite_nil na haaf) i
    have ihe := rebuildAP_summ env hen hem hei hec false
    have hcle : closedT (env.effAfter false) := by rw [effAfter_notBinding henb, hea]; exact Or.inl rfl
    have hclb : closedT (body.effAfter false) := by rw [effAfter_notBinding hbnb, hba]; exact Or.inl rfl
    obtain ⟨w, fb, hsb, hfb, hwb⟩ := withBody_summ hbd hclb i (fun b' => rebuildAP_summ body hbd hbm hbi hbc false i b')
    simp only [Expr.rebuildAP, addTriviaP]
    rw [fmtP_lines hb.1, List.append_assoc (linesP i before)]
    refine exprS_of_wrap (fc := .tok kwWith) hb habf ?_ (tok_ne_semi kwWith_ne_semi) hT.1 hT.2 (fun h => h) (fun h => h)
    have hlay : withLayout [] g = Layout.fromGap g := by simp [withLayout, triviaForcesNewline]
    rw [withSep_cases, hlay]
    have hsuf : formatInlineCommentSuffix [] = [] := rfl
    cases hon : (Layout.fromGap g).onNewline with
    | false =>
      obtain ⟨l, f, t, hs, hf, _, _, c1, _, c3, _⟩ := ihe i true
      simp only [Bool.false_eq_true, if_false, summ_append, indentP_summ, summ_cons, summ_nil, summ1, hs, c3 hcle, c1 heb,
        hsb, hsuf]
      simp [Summ.comb, sepOk_nil, sepOk_space _ hf, hwb]
    | true =>
      obtain ⟨l, f, t, hs, hf, _, _, c1, _, c3, _⟩ := ihe ((Layout.fromGap g).indent.getD i) false
      simp only [if_true, summ_append, indentP_summ, summ_cons, summ_nil, summ1, hs, c3 hcle, c1 heb, hsb, hsuf]
      simp only [Summ.comb, List.nil_append, List.append_nil, Bool.true_and, Bool.and_true, Bool.false_eq_true, if_false,
        sepOk_nil, hwb]
      cases (Layout.fromGap g).blankLine
      · simp only [Bool.false_eq_true, if_false]
        rw [show (['\n'] ++ spaces ((Layout.fromGap g).indent.getD i)) = '\n' :: spaces ((Layout.fromGap g).indent.getD i) from rfl,
          sepOk_nl _ f hf]
      · simp only [if_true]
        rw [show (['\n', '\n'] ++ spaces ((Layout.fromGap g).indent.getD i)) = '\n' :: '\n' :: spaces ((Layout.fromGap g).indent.getD i) from rfl,
          sepOk_nlnl _ f hf]
  | .ite cond thn els cg aic aig btc btg atc tg bec beg aec eg before after, hok, hml, hinv, hclean, na, i, b => by
    obtain ⟨hc, ht, he, _, _, _, _, _, hb, ha⟩ := hok
    obtain ⟨hcm, htm, hem, hcnb, htnb, henb, hca, hta, hea⟩ := hml
    obtain ⟨hci, hcb, hti, htb, hei, heb, hcg, h1, h2, h3, h4, h5, habf, haaf⟩ := hinv
    subst hcg; subst h1; subst h2; subst h3; subst h4; subst h5
    have hT := trailP_summ (ite_nil_ok na ha) (alt_ite_nil na haaf) i
    have ihc := rebuildAP_summ cond hc hcm hci hclean.1 false
    have iht := rebuildAP_summ thn ht htm hti hclean.2.1 false
    have ihe := rebuildAP_summ els he hem hei hclean.2.2 false
    have hclc : closedT (cond.effAfter false) := by rw [effAfter_notBinding hcnb, hca]; exact Or.inl rfl
    have hclt : closedT (thn.effAfter false) := by rw [effAfter_notBinding htnb, hta]; exact Or.inl rfl
    have hcle : closedT (els.effAfter false) := by rw [effAfter_notBinding henb, hea]; exact Or.inl rfl
    simp only [Expr.rebuildAP, addTriviaP, htb, heb, iteLayout_nil, branchSep_eq, iteCondPrefix_nil, iteKwPrefix_nil,
      formatInlineCommentSuffix, List.foldl_nil, List.nil_append]
    rw [fmtP_lines hb.1, List.append_assoc (linesP i before)]
    refine exprS_of_wrap (fc := .tok kwIf) hb habf ?_ (tok_ne_semi (by decide)) hT.1 hT.2 (fun h => h) (fun h => h)
    rw [summ_append, indentP_summ]
    refine (congrArg (Summ.comb _) (ite_core_summ ?_ ?_ ?_ ?_ ?_)).trans ?_
    · exact branch_summ ihc hcb hclc cg _ _
    · exact sepText_sepOk _ _ (tok_ne_semi (by decide))
    · exact branch_summ iht htb hclt tg _ _
    · exact sepText_sepOk _ _ (tok_ne_semi (by decide))
    · exact branch_summ ihe heb hcle eg _ _
    · simp [Summ.comb]
  | .has expr attrs lg rg bq aq before after, hok, hml, hinv, hclean, na, i, b => by
    obtain ⟨he, hne, _, _, _, hb, ha⟩ := hok
    obtain ⟨hem, henb, hea⟩ := hml
    obtain ⟨hei, heb, hbq0, haq0, hsemi, habf, haaf⟩ := hinv
    subst hbq0; subst haq0
    have hT := trailP_summ (ite_nil_ok na ha) (alt_ite_nil na haaf) i
    obtain ⟨l, f, t, hs, hf, _, _, c1, _, c3, _⟩ := rebuildAP_summ expr he hem hei hclean false i true
    have hcl : closedT (expr.effAfter false) := by rw [effAfter_notBinding henb, hea]; exact Or.inl rfl
    have hes : summ (expr.rebuildAP false i true) = .lexy [] f true [] := by rw [hs, c3 hcl, c1 heb]; rfl
    obtain ⟨a0, ha0, hat⟩ := attrP_summ_head attrs hne
    simp only [Expr.rebuildAP, addTriviaP, hasSep_nil]
    rw [fmtP_lines hb.1, List.append_assoc (linesP i before)]
    refine exprS_of_wrap hb habf ?_ hf hT.1 hT.2 (fun h => h) (fun h => h)
    rw [show indentP i b ++ (expr.rebuildAP false i true ++ [FP.ws (sepText lg), FP.tok ['?'], FP.ws (sepText rg)] ++ attrP attrs) =
        indentP i b ++ (expr.rebuildAP false i true ++ ([FP.ws (sepText lg), FP.tok ['?'], FP.ws (sepText rg)] ++ attrP attrs))
      from by simp only [List.append_assoc]]
    simp only [summ_append, indentP_summ, hes, hat, summ_cons, summ_nil, summ1]
    simp [Summ.comb, sepText_sepOk lg _ (tok_ne_semi (t := ['?']) (by decide)), sepText_sepOk rg _ (tok_ne_semi (hsemi a0 ha0))]
theorem joinNl_summ : (es : List Expr) → allOk es → allMlSafe es → allNfInv es → allInlineClean es → nonLastClosed es → es ≠ [] → ∀ (i : Nat),
    ∃ l f t, summ (joinP [.ws ['\n']] (rebuildAllP es i false)) = .lexy l f true t ∧ f ≠ semi ∧ VLead l ∧ TrailT t
  | [], _, _, _, _, _, h, _ => absurd rfl h
  | [e], hok, hml, hinv, hc, _, _, i => by
    obtain ⟨l, f, t, hs, hf, hl, ht, _⟩ := rebuildAP_summ e hok.1 hml.1 hinv.1 hc.1 false i false
    exact ⟨l, f, t, by simpa [rebuildAllP, joinP] using hs, hf, hl, ht⟩
  | e :: e' :: r, hok, hml, hinv, hc, hcl, _, i => by
    obtain ⟨l, f, t, hs, hf, hl, _, _, _, c3, _⟩ := rebuildAP_summ e hok.1 hml.1 hinv.1 hc.1 false i false
    obtain ⟨l', f', t', hs', hf', hl', ht'⟩ := joinNl_summ (e' :: r) hok.2 hml.2 hinv.2 hc.2 hcl.2 (by simp) i
    refine ⟨l, f, t', ?_, hf, hl, ht'⟩
    simp only [rebuildAllP, joinP] at hs' ⊢
    rw [summ_append, summ_append, hs, hs', c3 hcl.1, summ_ws]
    simp only [Summ.comb, List.nil_append, List.append_nil, Bool.true_and, Bool.and_true]
    rw [show (['\n'] ++ l') = '\n' :: l' from rfl, sepOk_nl_vlead hl' f' hf']
theorem joinSp_summ : (es : List Expr) → allOk es → allMlSafe es → allNfInv es → allInlineClean es → allFlat es → es ≠ [] → ∀ (i : Nat),
    ∃ f, summ (joinP [.ws [' ']] (rebuildAllP es i true)) = .lexy [] f true [] ∧ f ≠ semi
  | [], _, _, _, _, _, h, _ => absurd rfl h
  | [e], hok, hml, hinv, hc, hfl, _, i => by
    obtain ⟨l, f, t, hs, hf, _, _, c1, _, c3, _⟩ := rebuildAP_summ e hok.1 hml.1 hinv.1 hc.1 false i true
    refine ⟨f, ?_, hf⟩
    simp only [rebuildAllP, joinP]
    rw [hs, c1 hfl.1, c3 hfl.2.1]; rfl
  | e :: e' :: r, hok, hml, hinv, hc, hfl, _, i => by
    obtain ⟨l, f, t, hs, hf, _, _, c1, _, c3, _⟩ := rebuildAP_summ e hok.1 hml.1 hinv.1 hc.1 false i true
    obtain ⟨f', hs', hf'⟩ := joinSp_summ (e' :: r) hok.2 hml.2 hinv.2 hc.2 hfl.2.2 (by simp) i
    refine ⟨f, ?_, hf⟩
    simp only [rebuildAllP, joinP] at hs' ⊢
    rw [summ_append, summ_append, hs, hs', c1 hfl.1, c3 hfl.2.1, summ_ws]
    simp only [Summ.comb, List.nil_append, List.append_nil, Bool.true_and, Bool.and_true, if_true]
    rw [sepOk_space _ hf']
theorem previewP_summ : (e : Expr) → e.ok → e.mlSafe → e.nfInv → e.inlineClean → ∀ (i : Nat) (p : List FP), e.previewP i = some p →
    ∃ f, summ p = .lexy [] f true [] ∧ f ≠ semi
  | .leaf .., _, _, _, _, i, p, h => by simp [Expr.previewP] at h
  | .set .., _, _, _, _, i, p, h => by simp [Expr.previewP] at h
  | .binding .., _, _, _, _, i, p, h => by simp [Expr.previewP] at h
  | .paren .., _, _, _, _, i, p, h => by simp [Expr.previewP] at h
  | .app .., _, _, _, _, i, p, h => by simp [Expr.previewP] at h
  | .wth .., _, _, _, _, i, p, h => by simp [Expr.previewP] at h
  | .asrt .., _, _, _, _, i, p, h => by simp [Expr.previewP] at h
  | .sel .., _, _, _, _, i, p, h => by simp [Expr.previewP] at h
  | .selOr .., _, _, _, _, i, p, h => by simp [Expr.previewP] at h
  | .lam .., _, _, _, _, i, p, h => by simp [Expr.previewP] at h
  | .un .., _, _, _, _, i, p, h => by simp [Expr.previewP] at h
  | .bin .., _, _, _, _, i, p, h => by simp [Expr.previewP] at h
  | .ite .., _, _, _, _, i, p, h => by simp [Expr.previewP] at h
  | .has .., _, _, _, _, i, p, h => by simp [Expr.previewP] at h
  | .list value ml inner before after, hok, hml, hinv, hclean, i, p, h => by
    have hvm := hml.1
    obtain ⟨hv, hin, hb, ha⟩ := hok
    obtain ⟨hvi, hain, hab, haa, hnl⟩ := hinv
    obtain ⟨hflat, hcl⟩ := hclean
    refine ⟨.tok ['['], ?_, tok_ne_semi (by decide)⟩
    cases value with
    | nil =>
      simp only [Expr.previewP] at h
      split at h; · cases h
      split at h; · cases h
      split at h; · cases h
      split at h; · cases h
      injection h with h; subst h
      rw [summ_tok3 '[' ' ' ']' (by decide), sepOk_space _ (tok_ne_semi_of (by decide))]
    | cons v vs =>
      simp only [Expr.previewP] at h
      split at h; · cases h
      rename_i hmlf
      have hmlf' : ml = false := by simpa using hmlf
      split at h; · cases h
      split at h; · cases h
      split at h; · cases h
      injection h with h; subst h
      obtain ⟨f, hj, hf⟩ := joinSp_summ (v :: vs) hv hvm hvi hcl (hflat hmlf') (by simp) i
      simp only [summ_append, hj, summ_cons, summ_nil, summ1]
      simp only [Summ.comb, List.nil_append, List.append_nil, Bool.true_and, Bool.and_true]
      rw [sepOk_space _ hf, sepOk_space _ (tok_ne_semi_of (by decide))]
      rfl
end

end Nima.Frag
