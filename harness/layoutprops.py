"""Shared input stream and failure classification for the layout properties (C01 C03 C06 C18)."""
from __future__ import annotations

from . import framework as fw
from . import layout
from .gen import prog

CLAUSES = {
    "C01": ("raises", "input-flagged-erroneous", "output-parses", "tokens"),
    "C03": ("comments",),
    "C06": ("fixed-point",),
    "C18": ("spacing",),
}


def failures_of(res, clauses):
    """[(clause, detail)] restricted to the property's clauses"""
    out = []
    for cl, det in res["fails"].items():
        if cl not in clauses:
            continue
        if cl == "spacing":
            out += [(cl, r) for r in det]
        elif cl == "comments":
            out.append((cl, det))
        elif cl == "raises":
            out.append((cl, str(det).split(":")[0]))
        else:
            out.append((cl, ""))
    return out


def sweep(ctx: fw.Ctx, pid: str):
    clauses = CLAUSES[pid]
    stride = 1
    n = 0
    for info, text in prog.enumerate_injections(stride=stride, offset=ctx.seed):
        n += 1
        res = layout.evaluate(text)
        nontrivial = info["vclass"] != "ws" or info["variant"] not in ("space",)
        ctx.case({"text": text, **{k: info[k] for k in ("template", "gap", "variant")}}, nontrivial)
        ctx.count("variant:" + info["variant"])
        for cl, det in failures_of(res, clauses):
            key = {"clause": cl, "detail": det, "parent": info["parent"], "before": info["before"], "after": info["after"],
                   "leading_ws": text[:1].isspace()}
            ctx.fail(key, {"text": text, **info, "output": res["output"]},
                     f"{cl} {det}: {text!r} -> {res['output']!r}" if res["output"] is not None
                     else f"{cl} {det}: {text!r}: {res['fails'].get('raises')}",
                     case=f"{info['template']}|{info['gap']}|{info['variant']}")
    fragment_probes(ctx, pid)
    if not ctx.quick:
        attributed_part(ctx, pid, prog.enumerate_adjacent_pairs())
    return n


def random_part(ctx: fw.Ctx, pid: str, n: int, depth: int):
    attributed_part(ctx, pid, prog.random_injections(ctx.rng, n, depth))


def attributed_part(ctx: fw.Ctx, pid: str, stream):
    """Programs with several injections. A failure is attributed to the injection that alone
    reproduces it on the same base program (and classified by that gap's context); a base program
    that fails without any injection is classified as such; what only several injections together
    produce is an interaction."""
    clauses = CLAUSES[pid]
    for info, base, text in stream:
        fb = failures_of(layout.evaluate(base), clauses)
        if fb:
            for cl, det in fb:
                ctx.fail({"clause": cl, "detail": det, "parent": "<base>", "before": "", "after": "", "leading_ws": False},
                         {"text": base}, f"{cl} {det} without any injected trivia: {base!r}")
            continue
        res = layout.evaluate(text)
        ctx.case({"text": text, "template": "random"}, True)
        fs = failures_of(res, clauses)
        for cl, det in fs:
            culprit = None
            for inj in info["injections"]:
                single = prog.inject(base, inj["gap"], inj["trivia"])
                if (cl, det) in failures_of(layout.evaluate(single), clauses):
                    culprit = inj
                    break
            if culprit is not None:
                key = {"clause": cl, "detail": det, "parent": culprit["parent"], "before": culprit["before"],
                       "after": culprit["after"], "leading_ws": text[:1].isspace()}
            else:
                key = {"clause": cl, "detail": det, "parent": "<interaction>", "before": "", "after": "",
                       "leading_ws": text[:1].isspace(),
                       "contexts": sorted({i["parent"] for i in info["injections"]})}
            case = None
            if info.get("template") != "random":
                case = info["template"] + "|" + "+".join(f"{i['gap']}:{i['variant']}" for i in info["injections"])
            ctx.fail(key, {"text": text, "base": base, **info, "output": res["output"]},
                     f"{cl} {det}: {text!r} -> {res['output']!r}", case=case)


def common(ctx: fw.Ctx, pid: str):
    ctx.extra["rule"] = (
        "58 templates (every construct) x every inter-token gap x 18 trivia variants (spaces, tabs, newlines, blank-line "
        "runs, CRLF, line / block / doc / multi-line comments, non-ASCII), kept when tree-sitter accepts the text and the "
        "code tokens are the template's; thorough adds random nested programs with 1-3 injections; non-trivial = the "
        "injected trivia is not a single space"
    )
    ctx.trusted_base = [
        "Lean 4 kernel; axioms propext, Classical.choice, Quot.sound only",
        "trivia algebra model Model/Trivia.lean tied by function-level correspondence with expressions/trivia.py",
        "container-fragment model Model/Cst.lean + FromCst.lean + Rebuild.lean tied by whole-round-trip correspondence "
        "on real tree-sitter trees (harness/cstdump.py: parser contract flatten(cst) == text checked per sample)",
        "tree-sitter-nix as independent tokenizer of input and output; for the fragment theorems: tree-sitter returns a "
        "well-formed Cst whose flatten is the text, and lexes the model's token/comment pieces of an output as such",
    ]
    ctx.assumptions = [
        "outputs are judged error-free modulo the formals trailing comma the bundled grammar rejects",
        "inside the container fragment (sets with plain names, lists, leaves, line / one-line block comments, no "
        "leading whitespace) the per-construct parse and render code is modelled and the property is proved by "
        "structural induction (section Fragment of Props/Cxx.lean; exclusions are decidable and have counterexample "
        "theorems); outside it the renderers are covered by observation of the implementation on the enumerated gaps; "
        "the trivia-algebra theorems cover what all constructs share (see coverage.fragment)",
    ]


# ---------------------------------------------------------------- L2 tie: trivia algebra, function level
class _StubPoint:
    def __init__(self, col):
        self.row, self.column = 0, col


class _StubNode:
    def __init__(self, text, col):
        self.text = text.encode("utf-8")
        self.start_point = _StubPoint(col)
        self.type = "comment"


GAP_ALPHABET = [" ", "\t", "\n", "\r"]
COMMENT_TEXTS = ["# c", "#c", "#", "# ", "#  two", "#!shebang", "/* b */", "/*b*/", "/** d */", "/* a\n   b */",
                 "/*\n  a\n    b\n*/", "/* a\n  b\n */", "/**\n    Doc\n  */", "/* é ✓ */", "# ünï", "/*  pad  */",
                 "/* x\n\n   y */", "/**/", "/* a\n b\n   c */"]


def trivia_correspondence(ctx: fw.Ctx):
    """Model/Trivia.lean vs expressions/trivia.py + comment.py, function by function, on: every
    whitespace gap up to length 6 (quick 5) over {space, tab, LF, CR}; every comment text of a fixed
    list x start column x indent x inline; every trivia list up to length 3 over {empty_line,
    linebreak, 6 comments}."""
    import itertools

    from nix_manipulator.expressions import trivia as T
    from nix_manipulator.expressions.comment import Comment
    from nix_manipulator.expressions.layout import empty_line, linebreak

    from .framework import hx

    reqs, expect = [], []
    maxlen = 5 if ctx.quick else 7
    gaps = ["".join(t) for L in range(maxlen + 1) for t in itertools.product(GAP_ALPHABET, repeat=L)]
    gaps += ["\n  x\n", "a", " a \n\n b", "\n# c\n\n"]
    for g in gaps:
        lay = T.Layout.from_gap(g)
        tr = []
        T.append_gap_trivia(tr, g)
        b = g.encode()
        off = T._gap_has_empty_line_offsets(b, 0, len(b)) if b"\n" in b else False
        reqs.append(["gap", hx(g)])
        expect.append(["ok", "t" if T.gap_has_empty_line(g) else "f", "t" if off else "f", str(T.indent_from_gap(g)),
                       ["t" if lay.on_newline else "f", "t" if lay.blank_line else "f",
                        "-" if lay.indent is None else str(lay.indent)],
                       ["e" if x is empty_line else "l" for x in tr]])
        for ind in (0, 2, 6):
            reqs.append(["sep", hx(g), str(ind)])
            expect.append(["ok", hx(T.separator_from_layout(lay, indent=ind))])
        for cs in ("", "# c\n", " /* c */", "x "):
            for inc in (True, False):
                reqs.append(["sepc", hx(g), hx(cs), "t" if inc else "f"])
                expect.append(["ok", hx(T.separator_from_layout_with_comments(lay, cs, include_indent=inc))])
    comments = []
    for txt in COMMENT_TEXTS:
        for col in (0, 2, 5):
            for inl in (False, True):
                c = Comment.from_cst(_StubNode(txt, col))
                c.inline = inl
                comments.append((txt, col, inl, c))
                for ind in (0, 2, 4):
                    kind = "line" if type(c) is Comment else ["block", "t" if c.doc else "f",
                                                              "-" if c.inner_indent is None else str(c.inner_indent)]
                    reqs.append(["cmt", str(col), hx(txt), str(ind), "t" if inl else "f"])
                    expect.append(["ok", hx(c.text), kind, "t" if c.shebang else "f",
                                   "t" if c.space_after_hash else "f", hx(c.rebuild(indent=ind))])
    pool = [("e", empty_line), ("l", linebreak)]
    for (txt, col, inl, c) in comments:
        if col == 2 and txt in ("# c", "/* b */", "/* a\n   b */"):
            pool.append((["m", str(col), hx(txt), "t" if inl else "f"], c))
    maxl = 3 if ctx.quick else 4
    for L in range(0, maxl + 1):
        for combo in itertools.product(pool, repeat=L):
            enc = [x[0] for x in combo]
            objs = [x[1] for x in combo]
            for ind in (0, 2):
                reqs.append(["fmt", str(ind), enc])
                expect.append(["ok", hx(T.format_trivia(list(objs), indent=ind))])
                reqs.append(["trail", hx("x = 1;"), str(ind), enc])
                expect.append(["ok", hx(T.apply_trailing_trivia("x = 1;", list(objs), indent=ind))])
                for nl in (False, True):
                    reqs.append(["fmti", str(ind), "t" if nl else "f", enc])
                    expect.append(["ok", hx(T.format_interstitial_trivia(list(objs), indent=ind, inline_comment_newline=nl))])
    replies = ctx.driver.ask_many(reqs)
    bad = 0
    for rq, ex, got in zip(reqs, expect, replies):
        ctx.corr_checked += 1
        if ex != got:
            bad += 1
            if bad <= 5:
                ctx.tie_break("correspondence", f"trivia function {rq[0]} disagrees", request=rq, implementation=ex, model=got)
    ctx.count("trivia_corr_requests", len(reqs))
    ctx.count("trivia_corr_disagreements", bad)


# ---------------------------------------------------------------- L3-L5 tie: container fragment, whole round trip
_PY_ERR = {"ValueError": "value", "KeyError": "key", "TypeError": "type", "OSError": "os",
           "NixSyntaxError": "syntax", "ResolutionError": "resolution"}


def _real_roundtrip(text: str):
    from nix_manipulator import parse

    try:
        src = parse(text)
        if src.contains_error:
            return ["flagged-erroneous"]
        return ["ok", fw.hx(src.rebuild())]
    except Exception as exc:  # noqa: BLE001
        n = type(exc).__name__
        return ["err", _PY_ERR.get(n, "internal:" + n)]


def fragment_inputs(ctx: fw.Ctx):
    """(origin, text) of every input of the fragment tie: (a) every template x gap x trivia-menu entry
    of the sweep, (b) random fragment programs. Membership in the fragment is decided afterwards."""
    from .gen import frag

    for info, text in prog.enumerate_injections():
        yield "sweep", text
    n = 2400 if ctx.quick else 30000
    outs = []
    for text in frag.programs(ctx.rng, n):
        yield "random", text
        if len(outs) < (800 if ctx.quick else 10000):
            r = _real_roundtrip(text)
            if r[0] == "ok":
                outs.append(fw.unhx(r[1]))
    # (c) second-pass inputs: texts the implementation itself wrote (canonical layout); the parser
    # contract and the tie are checked on them like on any other input
    for text in outs:
        yield "output", text


def fragment_correspondence(ctx: fw.Ctx):
    """Model/Cst.lean + FromCst.lean + Rebuild.lean vs source_code.py / set.py / binding.py / list.py /
    primitive.py / parenthesis.py / function/call.py / with_statement.py / assertion.py / select.py / unary.py / binary.py /
    function/definition.py / if_expression.py / has_attr.py / trivia.py, whole round trip: the REAL tree-sitter tree of every input that lies in
    the container fragment is converted to the model's `Cst` (harness/cstdump.py; the parser contract
    `flatten(cst) == text` is checked on the way), the Lean driver parses and rebuilds it with the
    model, and the text must equal `parse(text).rebuild()` of the implementation. On the same inputs
    the piece-level renderer (the one the theorems are about) must concatenate to the same text and
    its token / comment pieces must be exactly the leaves tree-sitter finds in the real output (the
    assumption `concat pieces lexes to pieces`, checked per sample)."""
    from . import cstdump
    from .oracle import cstread

    cov = {"sweep_inputs": 0, "sweep_inside": 0, "random_inputs": 0, "random_inside": 0, "output_inputs": 0,
           "output_inside": 0, "output_fixed_points": 0, "outside": {},
           "model_uncovered": {}, "compared": 0, "disagreements": 0, "contract_checked": 0}
    texts, reqs = [], []
    for origin, text in fragment_inputs(ctx):
        cov[origin + "_inputs"] += 1
        try:
            tree = cstdump.dump(text)
        except cstdump.OutsideFragment as exc:
            why = str(exc)
            cov["outside"][why] = cov["outside"].get(why, 0) + 1
            continue
        except cstdump.ContractBroken as exc:
            ctx.tie_break("parser-contract", str(exc), request={"text": text})
            continue
        cov["contract_checked"] += 1
        sx = cstdump.sexp(tree)
        texts.append((origin, text, tree))
        reqs.append(["roundtrip", sx])
        reqs.append(["pieces", sx])
        reqs.append(["flatten", sx])
        reqs.append(["facts", sx])
        reqs.append(["norm", sx])
    replies = ctx.driver.ask_many(reqs)
    bad = 0
    hyp = {"inputs": 0, "orderOk": 0, "beforeFlatB": 0, "safe": 0, "spacing_nf": 0, "tokens": 0,
           "basic": 0, "nonbasic_spacing_nf": 0}
    for k, (origin, text, tree) in enumerate(texts):
        got, pieces, flat, facts, norm = (replies[5 * k + n] for n in range(5))
        if facts and facts[0] == "ok":
            # the decidable hypotheses / conclusions of the fragment theorems on this input, evaluated by
            # the compiled model: C01.frag_tokens_preserved and frag_safe have no exclusion (whole fragment,
            # parentheses, calls and `with` included), C18.frag_spacing_nf holds under beforeFlatB for the
            # part without `with` (`File.basic`). An instance contradicting a theorem means the driver does
            # not run the model the theorems are about. For files with `with` the spacing conclusion is
            # only counted (not proved yet).
            o_ok, clean, safe, nf, tk, basic = (x == "t" for x in facts[1:7])
            hyp["inputs"] += 1
            hyp["orderOk"] += o_ok
            hyp["beforeFlatB"] += clean
            hyp["safe"] += safe
            hyp["spacing_nf"] += nf
            hyp["tokens"] += tk
            hyp["basic"] += basic
            hyp["nonbasic_spacing_nf"] += (not basic) and nf
            if not safe or not tk or (basic and clean and not nf):
                bad += 1
                if bad <= 5:
                    ctx.tie_break("theorem-instance", "the compiled model contradicts a fragment theorem on this input",
                                  request={"text": text}, model=facts)
        if flat != ["ok", fw.hx(text)]:
            bad += 1
            if bad <= 5:
                ctx.tie_break("correspondence", "model flatten(cst) differs from the text the tree was parsed from",
                              request={"text": text}, implementation=fw.hx(text), model=flat)
            continue
        if got and got[0] == "uncovered":
            cov["model_uncovered"][got[1]] = cov["model_uncovered"].get(got[1], 0) + 1
            continue
        cov[origin + "_inside"] += 1
        cov["compared"] += 1
        ctx.corr_checked += 1
        want = _real_roundtrip(text)
        if want != got:
            bad += 1
            if bad <= 5:
                ctx.tie_break("correspondence", "fragment round trip: implementation and model disagree",
                              request={"text": text},
                              implementation=fw.unhx(want[1]) if want[0] == "ok" else want,
                              model=fw.unhx(got[1]) if got[0] == "ok" else got)
            continue
        if got[0] != "ok":
            continue
        out = fw.unhx(got[1])
        if origin == "output" and out == text:
            cov["output_fixed_points"] += 1
        if norm and norm[0] == "ok":
            # comment-free input: C06.frag_fixed_point_comment_free names the tree of the output, `File.norm f`.
            # Its text must be the output and it must be, node by node, the tree tree-sitter returns for the
            # output (the parser-contract step of the theorem).
            cov["comment_free"] = cov.get("comment_free", 0) + 1
            try:
                real_tree = cstdump.sexp(cstdump.dump(out))
            except (cstdump.OutsideFragment, cstdump.ContractBroken) as exc:
                real_tree = ["<" + type(exc).__name__ + ">", str(exc)]
            if fw.unhx(norm[1]) != out or norm[2] != real_tree:
                bad += 1
                if bad <= 5:
                    ctx.tie_break("parser-contract", "File.norm f is not the tree tree-sitter returns for the output",
                                  request={"text": text}, implementation=real_tree, model=norm[2])
        if pieces and pieces[0] == "uncovered":
            # inside what the string-level model covers (`File.modelled`: `assert`, comments in the inner gaps of
            # `with` / `assert`) but outside the theorems' fragment (`File.wf`): the round trip was compared, the
            # piece-level statements do not apply
            cov["model_only"] = cov.get("model_only", 0) + 1
            continue
        if not pieces or pieces[0] != "ok":
            bad += 1
            if bad <= 5:
                ctx.tie_break("correspondence", "piece-level renderer failed where the string-level one did not",
                              request={"text": text}, model=pieces)
            continue
        ps = [(p[0], fw.unhx(p[1])) for p in pieces[1:]]
        if "".join(t for _, t in ps) != out:
            bad += 1
            if bad <= 5:
                ctx.tie_break("correspondence", "pieces do not concatenate to the rebuilt text", request={"text": text},
                              implementation=out, model=ps)
            continue
        root = cstread.ts_parse(out)
        ob = out.encode("utf-8")
        leaves = [("c" if n.type == "comment" else "t", ob[n.start_byte:n.end_byte].decode("utf-8"))
                  for n in cstread.leaves(root) if n.end_byte > n.start_byte]
        mine = [(k2, t) for k2, t in ps if k2 != "w"]
        if root.has_error or leaves != mine:
            # not a tie break by itself: the output is what the implementation produced; it is the
            # property checks (C01 tokens / C03 comments) that judge it. Counted for the record.
            ctx.count("fragment_pieces_not_lexed_as_such")
    cov["disagreements"] = bad
    cov["theorem_hypotheses"] = hyp
    ctx.count("fragment_corr_compared", cov["compared"])
    ctx.count("fragment_corr_disagreements", bad)
    ctx.extra["fragment"] = cov


# ---------------------------------------------------------------- inputs of the fragment counterexample theorems
# (Lean theorem, property, text): the concrete Cst of a `cex_*` theorem of the fragment sections, as
# text. The oracle is evaluated on the IMPLEMENTATION; a failure is a property failure like any other
# (classified with parent "<fragment>" and the theorem's name), so an open defect stays visible on
# every run and a repaired one makes the `cex_*` theorem the thing that breaks the tie.
FRAGMENT_PROBES = [
    ("Nima.C01.cex_unary_minus_path_fused", "C01", "- ./p.nix\n"),
    ("Nima.C01.cex_unary_minus_path_fused", "C01", "{\n  a = - ./p.nix;\n}\n"),
    ("Nima.C03.cex_comment_overtakes", "C03", "[ x\n /* b */ /* c */ y ]"),
    ("Nima.C03.cex_comment_overtakes", "C03", "x\n# a\n/* b */ /* c */\n"),
    ("Nima.C03.cex_call_comment_reordered", "C03", "f/* a */ /* b */ x"),
    ("Nima.C03.cex_comment_after_assert", "C03", "assert a; b # c\n"),
    ("Nima.C03.cex_comment_after_assert", "C03", "(assert a; b /* c */)"),
    ("Nima.C18.cex_block_comment_after_opener", "C18", "{ /* c */ a = 1; }"),
    ("Nima.C18.cex_comment_after_open_paren", "C18", "[\n  ( /* c */ x)\n]"),
    ("Nima.C18.cex_comment_touching_function", "C18", "{\n  a = f/* c */ x;\n}"),
    ("Nima.C18.cex_blank_lines_around_operator", "C18", "a\n\n\n  + b\n"),
    ("Nima.C18.cex_blank_lines_after_colon", "C18", "x:\n\n\n  y\n"),
    ("Nima.C06.cex_comment_around_semicolon", "C06", "{ a = 1 # c\n; # d\n}"),
    ("Nima.C06.cex_assert_in_one_line_container", "C06", "{ a = assert x; y; }\n"),
    ("Nima.C06.cex_assert_in_one_line_container", "C06", "[ (assert x; y) ]\n"),
]


def fragment_probes(ctx: fw.Ctx, pid: str):
    clauses = CLAUSES.get(pid, ())
    for thm, prop, text in FRAGMENT_PROBES:
        if prop != pid:
            continue
        res = layout.evaluate(text)
        ctx.case({"text": text, "template": "fragment-probe", "theorem": thm}, True)
        for cl, det in failures_of(res, clauses):
            ctx.fail({"clause": cl, "detail": det, "parent": "<fragment>", "cex": thm, "before": "", "after": "",
                      "leading_ws": False},
                     {"text": text, "output": res["output"], "theorem": thm},
                     f"{cl} {det}: {text!r} -> {res['output']!r} (counterexample of {thm})")
