import NimaVerif.Lemmas.ScopedCreate
/-! The other layers and the body are literally unchanged by a scoped edit (under `layerSeparated`). -/
namespace Nima
-- name tokens are compared by spelling in this file (see `NameCmp` in Model/Edit.lean)
attribute [local instance] NameCmp.spelled

open Node EditM

theorem mem_others {α} {xs : List α} {j idx : Nat} {m : α} (h : xs[j]? = some m) (hne : j ≠ idx) :
    m ∈ xs.take idx ++ xs.drop (idx + 1) := by
  rw [List.mem_append]
  by_cases hj : j < idx
  · left
    apply List.mem_of_getElem? (i := j)
    rw [List.getElem?_take_of_lt hj, h]
  · right
    have hj' : idx + 1 ≤ j := by omega
    apply List.mem_of_getElem? (i := j - (idx + 1))
    rw [List.getElem?_drop]
    have : idx + 1 + (j - (idx + 1)) = j := by omega
    rw [this, h]

theorem separated_spec {d : Doc} {idx : Nat} {l : Layer}
    (hl : (collectScopeLayers d)[idx]? = some l) (hsep : layerSeparated d idx = true) :
    (∀ j m, (collectScopeLayers d)[j]? = some m → j ≠ idx →
      (∀ i ∈ m.bindIds, i ∉ l.bindIds) ∧ (∀ s ∈ m.setIds, s < d.next ∧ s ∉ l.setIds)) ∧
    (∀ i ∈ bindIdList d.target, i ∉ l.bindIds) ∧
    (∀ s ∈ setIdList d.target, s < d.next ∧ s ∉ l.setIds) := by
  unfold layerSeparated at hsep
  simp only [hl, Bool.and_eq_true, List.all_eq_true, List.mem_append, List.mem_flatMap,
    Bool.not_eq_eq_eq_not, Bool.not_true, decide_eq_true_eq, List.contains_eq_mem,
    decide_eq_false_iff_not] at hsep
  obtain ⟨hb, hs⟩ := hsep
  refine ⟨fun j m hm hne => ⟨fun i hi => ?_, fun s hs' => ?_⟩, fun i hi => ?_, fun s hs' => ?_⟩
  · exact hb i (Or.inl ⟨m, List.mem_append.1 (mem_others hm hne), hi⟩)
  · exact hs s (Or.inl ⟨m, List.mem_append.1 (mem_others hm hne), hs'⟩)
  · exact hb i (Or.inr hi)
  · exact hs s (Or.inr hs')

/-- an allowed trace with the footprint of layer `l` leaves the separated parts alone -/
theorem separated_untouched {d : Doc} {idx : Nat} {l : Layer} {grow : Bool} {us : List Upd}
    (hl : (collectScopeLayers d)[idx]? = some l) (hsep : layerSeparated d idx = true)
    (hus : ∀ u ∈ us, u.Allowed grow l.fpBind (l.fpSet d.next)) :
    (∀ j m, (collectScopeLayers d)[j]? = some m → j ≠ idx → applyAllLayer us m = m) ∧
    applyAllNode us d.target = d.target := by
  obtain ⟨h1, h2, h3⟩ := separated_spec hl hsep
  refine ⟨fun j m hm hne => ?_, ?_⟩
  · apply applyAllLayer_of_disjoint us hus m
    · exact fun i hi => (h1 j m hm hne).1 i hi
    · intro s hs hfp
      have := (h1 j m hm hne).2 s hs
      rcases hfp with hfp | hfp
      · exact this.2 hfp
      · omega
  · apply applyAllNode_of_disjoint us hus d.target
    · exact h2
    · intro s hs hfp
      have := h3 s hs
      rcases hfp with hfp | hfp
      · exact this.2 hfp
      · omega

theorem getElem?_map_of_fix {α} (f : α → α) (xs : List α) (j : Nat)
    (h : ∀ m, xs[j]? = some m → f m = m) : (xs.map f)[j]? = xs[j]? := by
  rw [List.getElem?_map]
  cases hx : xs[j]? with
  | none => rfl
  | some m => simp [h m hx]

/-- Scoped `set` on an existing layer of a separated document whose addressed layer holds no
    identifier values: every other layer and the body are literally as before. -/
theorem scoped_set_frame (d : Doc) (k : Nat) (name : Text) (v : Node) (hn : d.noTarget = none)
    (hk : 1 ≤ k) (hne : name ≠ []) (hh : name.head? ≠ some '@')
    (hkn : k ≤ (collectScopeLayers d).length) {l : Layer}
    (hl : (collectScopeLayers d)[(collectScopeLayers d).length - k]? = some l)
    (hplain : l.plain = true)
    (hsep : layerSeparated d ((collectScopeLayers d).length - k) = true)
    (hok : (setValue (atSigns k ++ name) (.one v) d).1 = .ok ()) :
    let d' := (setValue (atSigns k ++ name) (.one v) d).2
    (∀ j, j ≠ (collectScopeLayers d).length - k →
      (collectScopeLayers d')[j]? = (collectScopeLayers d)[j]?) ∧
    (collectScopeLayers d').length = (collectScopeLayers d).length ∧
    (∃ l', (collectScopeLayers d')[(collectScopeLayers d).length - k]? = some l' ∧
      l'.bodyBefore = l.bodyBefore ∧ l'.bodyAfter = l.bodyAfter ∧ l'.afterLet = l.afterLet ∧
      l'.scope.length ≥ l.scope.length) ∧
    d'.target = d.target ∧ d'.tBefore = d.tBefore ∧ d'.tAfter = d.tAfter ∧
    d'.trailing = d.trailing := by
  obtain ⟨us, hus, _, _, hres⟩ := scoped_set_core d k name v hn hk hne hh hkn true l.fpBind hl
    (Or.inl rfl) (fun _ h => h) (fun _ => hplain)
  obtain ⟨c1, c2, _, c4, c5, c6, _⟩ := hres hok
  obtain ⟨u1, u2⟩ := separated_untouched hl hsep hus
  have hidx : (collectScopeLayers d).length - k < (collectScopeLayers d).length := by omega
  refine ⟨fun j hj => ?_, ?_, ?_, by rw [c2, u2], c4, c5, c6⟩
  · rw [c1, listSet_getElem?_ne _ _ _ _ hj]
    exact getElem?_map_of_fix _ _ _ fun m hm => u1 j m hm hj
  · rw [c1, listSet_length, List.length_map]
  · refine ⟨setLayerFrom (applyAllLayer us l) (applyAllNode us (layerAsSet d.next l)), ?_, ?_⟩
    · rw [c1]; exact listSet_getElem?_self _ _ _ (by simpa using hidx)
    · have hf := applyAllLayer_frame us l
      have hg := applyAllNode_grows us hus (layerAsSet d.next l) rfl
      exact ⟨hf.1, hf.2.1, hf.2.2.1, hg.2⟩

/-- Scoped `rm` on a separated document: every other layer and the body are literally as before;
    the addressed layer disappears exactly when its last binding went. -/
theorem scoped_rm_frame (d : Doc) (k : Nat) (name : Text) (hn : d.noTarget = none)
    (hk : 1 ≤ k) (hne : name ≠ []) (hh : name.head? ≠ some '@')
    (hkn : k ≤ (collectScopeLayers d).length) {l : Layer}
    (hl : (collectScopeLayers d)[(collectScopeLayers d).length - k]? = some l)
    (hsep : layerSeparated d ((collectScopeLayers d).length - k) = true)
    (hok : (removeValue (atSigns k ++ name) d).1 = .ok ()) :
    let d' := (removeValue (atSigns k ++ name) d).2
    let idx := (collectScopeLayers d).length - k
    d'.target = d.target ∧
    (collectScopeLayers d' = (collectScopeLayers d).eraseIdx idx ∨
      ((∀ j, j ≠ idx → (collectScopeLayers d')[j]? = (collectScopeLayers d)[j]?) ∧
       (collectScopeLayers d').length = (collectScopeLayers d).length ∧
       ∃ l', (collectScopeLayers d')[idx]? = some l' ∧ l'.scope ≠ [] ∧
         l'.bodyBefore = l.bodyBefore ∧ l'.bodyAfter = l.bodyAfter ∧ l'.afterLet = l.afterLet ∧
         d'.tBefore = d.tBefore ∧ d'.tAfter = d.tAfter)) := by
  obtain ⟨us, hus, _, _, hres⟩ := scoped_rm_core d k name hn hk hne hh hkn hl
  obtain ⟨c1, c2, c3, _, _⟩ := hres hok
  obtain ⟨u1, u2⟩ := separated_untouched hl hsep hus
  have hidx : (collectScopeLayers d).length - k < (collectScopeLayers d).length := by omega
  have hmapfix : ∀ j, j ≠ (collectScopeLayers d).length - k →
      ((collectScopeLayers d).map (applyAllLayer us))[j]? = (collectScopeLayers d)[j]? :=
    fun j hj => getElem?_map_of_fix _ _ _ fun m hm => u1 j m hm hj
  refine ⟨by rw [c3, u2], ?_⟩
  by_cases hemp : (applyAllNode us (layerAsSet d.next l)).setValues = []
  · left
    rw [(c1 hemp).1]
    apply List.ext_getElem?
    intro j
    rw [List.getElem?_eraseIdx, List.getElem?_eraseIdx]
    split
    · exact hmapfix j (by omega)
    · exact hmapfix (j + 1) (by omega)
  · right
    obtain ⟨e1, e2, e3⟩ := c2 hemp
    refine ⟨fun j hj => ?_, ?_, ?_⟩
    · rw [e1, listSet_getElem?_ne _ _ _ _ hj]; exact hmapfix j hj
    · rw [e1, listSet_length, List.length_map]
    · have hf := applyAllLayer_frame us l
      refine ⟨setLayerFrom (applyAllLayer us l) (applyAllNode us (layerAsSet d.next l)), ?_, hemp,
        hf.1, hf.2.1, hf.2.2.1, e2, e3⟩
      rw [e1]; exact listSet_getElem?_self _ _ _ (by simpa using hidx)

end Nima
