import NimaVerif.Lemmas.AssignThrough
import NimaVerif.Lemmas.NodeEq
import NimaVerif.Model.ResolveSpec
/-!
# C11 — editing through a reference updates exactly the defining binding

Statements about the edit model (`Model/Edit.lean`: `scopeChain`, `scanChain`, `resolveIdent`,
`assignThrough`, `assignExisting`, `setValue` — a bug-compatible transliteration of
`cli/manipulations.py` / `resolution.py`, tied to the code by object-graph correspondence on every
run). Everything quantifies over **all** documents, names, values, chain lengths and nestings.

SPEC (`Model/AssignSpec.lean`, written without reference to the resolver under test):
`lookupEnv` (innermost frame that binds the name wins; the binding found lives in the environment
from its own frame outwards), `Defines env name bid` (reference chains followed to their end,
outwards only — an inductive relation, so cyclic and dangling chains define nothing), `NotBound`,
`chainEnv` (the let layers around the set and the set itself when `rec`, innermost first),
`docEnv` (plus the recorded let layer of the top expression when the target sits behind a wrapper).

* §0 the SPEC is Nix's rule for these shapes: innermost wins, outwards only, functional, outer
  frames never matter to an inner derivation;
* §1 the resolver: `resolveIdent_sound`, `resolveIdent_complete` (the fuel `1 + number of items`
  suffices because the identities visited are distinct), `resolveIdent_iff`;
* §2 `assignThrough_exact` (+ converse), the frame of the write, the reference stays in place,
  and the same for a plain `set` (`set_through_reference`);
* §3 `assignExisting_unbound_overwrites`, `set_unbound_overwrites`;
* §4 the full claim `c11_full`, counterexamples (`cex_*`), `not_c11_full`, `c11_partial`;
* §5 histories.

Decidable side conditions (`Model/AssignSpec.lean`): `envOK` (name tokens read the same by the
code's `strip('"')` and by Nix; references are bare identifiers; no Nix name declared twice in one
binding list), `inheritFree` (no `inherit` clause mentions a name involved — the model stops at
`inherit`, Nix looks through it), `idsNodup` (object identities distinct). None of them restricts
depth, shadowing or chain length.
-/
namespace Nima.C11

open Node

/-! ## 0. The SPEC is Nix's lexical scoping for these shapes -/

/-- the name reading is the one C10's SPEC uses -/
theorem nixName_eq_specName : nixName = Scope.specName := by
  funext n; rfl

/-- *Innermost wins*: a binding of the name in the innermost frame shadows every outer one. -/
theorem lookup_innermost_wins (name : Text) (frame : List Node) (outer : List (List Node)) (b : Node)
    (h : frame.find? (bindsName name) = some b) :
    lookupEnv name (frame :: outer) = some (b, frame :: outer) := by
  simp [lookupEnv, h]

/-- a frame that does not bind the name is transparent -/
theorem lookup_skips_frame (name : Text) (frame : List Node) (outer : List (List Node))
    (h : frame.find? (bindsName name) = none) :
    lookupEnv name (frame :: outer) = lookupEnv name outer := by
  simp [lookupEnv, h]

/-- *Outwards only*: the binding found is a binding of the first frame of the environment it is
    handed back with, and that environment is a suffix of the one searched — a reference held by a
    binding of an outer let layer never sees an inner layer. -/
theorem lookup_outwards_only (name : Text) (env env' : List (List Node)) (b : Node)
    (h : lookupEnv name env = some (b, env')) :
    env' <:+ env ∧ ∃ frame outer, env' = frame :: outer ∧ b ∈ frame ∧ bindsName name b = true := by
  obtain ⟨h1, f, outer, h2, h3⟩ := lookupEnv_spec h
  exact ⟨h1, f, outer, h2, List.mem_of_find?_eq_some h3, List.find?_some h3⟩

/-- The SPEC is functional: a name has at most one defining binding. -/
theorem defines_unique (env : List (List Node)) (name : Text) (a b : Nat)
    (h1 : Defines env name a) (h2 : Defines env name b) : a = b :=
  Defines.det h1 h2

theorem lookupEnv_append {name : Text} {extra : List (List Node)} :
    ∀ {env : List (List Node)} {b : Node} {env' : List (List Node)},
      lookupEnv name env = some (b, env') → lookupEnv name (env ++ extra) = some (b, env' ++ extra)
  | [], _, _, h => by simp [lookupEnv] at h
  | f :: outer, b, env', h => by
    simp only [lookupEnv, List.cons_append] at h ⊢
    cases hf : f.find? (bindsName name) with
    | some b' =>
      simp only [hf, Option.some.injEq, Prod.mk.injEq] at h ⊢
      obtain ⟨rfl, rfl⟩ := h
      exact ⟨rfl, rfl⟩
    | none =>
      simp only [hf] at h ⊢
      exact lookupEnv_append h

/-- *Lexical*: what lies further out never changes a derivation that succeeds further in. -/
theorem defines_extend (env extra : List (List Node)) (name : Text) (bid : Nat)
    (h : Defines env name bid) : Defines (env ++ extra) name bid := by
  induction h with
  | value hl hv => exact Defines.value (lookupEnv_append hl) hv
  | ref hl _ ih => exact Defines.ref (lookupEnv_append hl) ih

/-- the environment `let a = b; b = a; in …` (one recursive frame) -/
def cyclicEnv (i j : Nat) : List (List Node) :=
  [[.bind i "a".toList false (.ident "b".toList) [] [],
    .bind j "b".toList false (.ident "a".toList) [] []]]

/-- A cyclic chain defines nothing (Nix: infinite recursion) — `Defines` is inductive. -/
theorem cyclic_defines_nothing (i j : Nat) (bid : Nat) :
    ¬ Defines (cyclicEnv i j) "a".toList bid := by
  have hla : lookupEnv "a".toList (cyclicEnv i j) =
      some (.bind i "a".toList false (.ident "b".toList) [] [], cyclicEnv i j) := rfl
  have hlb : lookupEnv "b".toList (cyclicEnv i j) =
      some (.bind j "b".toList false (.ident "a".toList) [] [], cyclicEnv i j) := rfl
  have key : ∀ p : List Nat, ¬ Path (cyclicEnv i j) "a".toList p bid ∧
      ¬ Path (cyclicEnv i j) "b".toList p bid := by
    intro p
    induction p with
    | nil => exact ⟨fun h => h.ne_nil rfl, fun h => h.ne_nil rfl⟩
    | cons x p ih =>
      constructor
      · intro h
        cases h with
        | value hl hv =>
          rw [hla] at hl
          simp only [Option.some.injEq, Prod.mk.injEq, Node.bind.injEq] at hl
          obtain ⟨⟨_, _, _, rfl, _⟩, _⟩ := hl
          simp [Node.isIdent] at hv
        | ref hl hp =>
          rw [hla] at hl
          simp only [Option.some.injEq, Prod.mk.injEq, Node.bind.injEq, Node.ident.injEq] at hl
          obtain ⟨⟨_, _, _, rfl, _⟩, rfl⟩ := hl
          exact ih.2 hp
      · intro h
        cases h with
        | value hl hv =>
          rw [hlb] at hl
          simp only [Option.some.injEq, Prod.mk.injEq, Node.bind.injEq] at hl
          obtain ⟨⟨_, _, _, rfl, _⟩, _⟩ := hl
          simp [Node.isIdent] at hv
        | ref hl hp =>
          rw [hlb] at hl
          simp only [Option.some.injEq, Prod.mk.injEq, Node.bind.injEq, Node.ident.injEq] at hl
          obtain ⟨⟨_, _, _, rfl, _⟩, rfl⟩ := hl
          exact ih.1 hp
  intro h
  obtain ⟨p, hp⟩ := Path.of_defines h
  exact (key p).1 hp

/-! ## 1. The resolver against the SPEC -/

/-- **Soundness.** Whatever the fuel: when `resolveIdent` answers, the answer is the binding that
    defines the name under Nix lexical scoping. -/
theorem resolveIdent_sound (fuel : Nat) (env : List (List Node)) (name : Text) (bid : Nat)
    (hok : envOK env = true) (hname : nixName name = name)
    (h : resolveIdent fuel env name [] = some bid) : Defines env name bid :=
  resolveIdent_sound_aux (EnvWF.of_envOK hok) fuel (fun _ hf => hf) hname h

/-- The identities a derivation visits are pairwise distinct, so there are no more of them than
    bindings in the environment — why the fuel `1 + number of items` is enough. -/
theorem visited_distinct (env : List (List Node)) (name : Text) (bid : Nat)
    (hids : idsNodup env = true) (h : Defines env name bid) :
    ∃ p : List Nat, Path env name p bid ∧ p.Nodup ∧ (∀ i ∈ p, i ∈ envIds env) ∧
      p.length ≤ env.flatten.length := by
  obtain ⟨p, hp⟩ := Path.of_defines h
  have hn := idsNodup_iff.1 hids
  exact ⟨p, hp, hp.nodup hn, hp.mem_envIds, hp.length_le hn⟩

/-- **Completeness.** When the SPEC names a defining binding (so the chain is acyclic and ends),
    any fuel above the number of items of the environment suffices and `resolveIdent` returns it. -/
theorem resolveIdent_complete (fuel : Nat) (env : List (List Node)) (name : Text) (bid : Nat)
    (hok : envOK env = true) (hname : nixName name = name)
    (hinh : inheritFree env name = true) (hids : idsNodup env = true)
    (hfuel : env.flatten.length < fuel)
    (h : Defines env name bid) : resolveIdent fuel env name [] = some bid := by
  obtain ⟨p, hp, hnd, _, hlen⟩ := visited_distinct env name bid hids h
  obtain ⟨hclear, hinhwf⟩ := InhWF.of_inheritFree hinh
  exact resolveIdent_complete_aux (EnvWF.of_envOK hok) hinhwf hp fuel [] (fun _ hf => hf) hname
    hclear hnd (fun _ _ => by simp) (by omega)

/-- With the fuel `assignThrough` passes, the resolver decides the SPEC. -/
theorem resolveIdent_iff (d : Doc) (ts : Node) (wl : Bool) (name : Text) (bid : Nat)
    (hok : envOK (chainEnv d ts wl) = true) (hname : nixName name = name)
    (hinh : inheritFree (chainEnv d ts wl) name = true) (hids : idsNodup (chainEnv d ts wl) = true) :
    resolveIdent (throughFuel d ts wl) (chainEnv d ts wl) name [] = some bid ↔
      Defines (chainEnv d ts wl) name bid :=
  ⟨resolveIdent_sound _ _ _ _ hok hname,
   resolveIdent_complete _ _ _ _ hok hname hinh hids (throughFuel_ge d ts wl)⟩

/-! ## 2. `assignThrough` writes exactly the defining binding -/

/-- SPEC: the document with the value of Binding object `b` masked (as in C04) -/
def others (b : Nat) (d : Doc) : Doc := d.updBind b hole

/-- **Exactness.** When `assignThrough` reports success, the new document is the old one with the
    value of ONE Binding object replaced, and that object is the defining binding of the name under
    Nix lexical scoping. Everything else — every other binding with its value (`others`), the
    identity / name / trivia of every binding in document order (`frames`), the wrappers, the
    identity counter — is unchanged. -/
theorem assignThrough_exact (ts : Node) (wl : Bool) (name : Text) (v : Node) (d d' : Doc)
    (hok : envOK (chainEnv d ts wl) = true) (hname : nixName name = name)
    (h : assignThrough ts wl name v d = (.ok true, d')) :
    ∃ bid, Defines (chainEnv d ts wl) name bid ∧ d' = d.updBind bid v ∧
      others bid d' = others bid d ∧ d'.frames bid = d.frames bid ∧
      d'.wrappers = d.wrappers ∧ d'.next = d.next := by
  rw [assignThrough_apply'] at h
  cases hr : resolveIdent (throughFuel d ts wl) (chainEnv d ts wl) name [] with
  | none => simp [hr] at h
  | some bid =>
    simp only [hr, Prod.mk.injEq, true_and] at h
    subst h
    exact ⟨bid, resolveIdent_sound _ _ _ _ hok hname hr, rfl, Doc.updBind_absorb bid v hole d,
      Doc.frames_updBind bid v d, rfl, rfl⟩

/-- When `assignThrough` declines, it has not touched the document. -/
theorem assignThrough_declines_clean (ts : Node) (wl : Bool) (name : Text) (v : Node) (d d' : Doc)
    (h : assignThrough ts wl name v d = (.ok false, d')) : d' = d := by
  rw [assignThrough_apply'] at h
  cases hr : resolveIdent (throughFuel d ts wl) (chainEnv d ts wl) name [] with
  | none => simp only [hr, Prod.mk.injEq, true_and] at h; exact h.symm
  | some bid => simp [hr] at h

/-- **Converse.** When the SPEC names a defining binding, `assignThrough` succeeds and writes it. -/
theorem assignThrough_complete (ts : Node) (wl : Bool) (name : Text) (v : Node) (d : Doc) (bid : Nat)
    (hok : envOK (chainEnv d ts wl) = true) (hname : nixName name = name)
    (hinh : inheritFree (chainEnv d ts wl) name = true) (hids : idsNodup (chainEnv d ts wl) = true)
    (h : Defines (chainEnv d ts wl) name bid) :
    assignThrough ts wl name v d = (.ok true, d.updBind bid v) := by
  rw [assignThrough_apply', (resolveIdent_iff d ts wl name bid hok hname hinh hids).2 h]

/-- The write leaves the reference itself in place (unless it is itself the defining binding). -/
theorem write_keeps_reference (bid rid : Nat) (nm : Text) (ne : Bool) (name : Text) (bf af : Payload)
    (v : Node) (h : rid ≠ bid) :
    Node.updBind bid v (.bind rid nm ne (.ident name) bf af) = .bind rid nm ne (.ident name) bf af := by
  simp [Node.updBind, h]

/-- Every other Binding object keeps its value (a value that contains the written object changes
    only inside, by the same write — `C04.write_keeps_other_binding`). -/
theorem write_keeps_other_value (bid i : Nat) (n : Text) (ne : Bool) (v val : Node) (b a : Payload)
    (h : i ≠ bid) (hval : Node.hasBind bid val = false) :
    Node.updBind bid v (.bind i n ne val b a) = .bind i n ne val b a := by
  simp [Node.updBind, h, updBind_of_not_hasBind bid v val hval]

/-- The identities of the bindings outside the written value are the same, in the same order. -/
theorem write_keeps_ids (bid : Nat) (v : Node) (d : Doc) :
    ((d.updBind bid v).frames bid).map (·.1) = (d.frames bid).map (·.1) := by
  rw [Doc.frames_updBind]

/-- A plain `set k v` on a binding of the target that holds the reference `name`, when the chain
    resolves inside the set's own let layers / `rec` scope: the defining binding — and only it — is
    written, and `k` still holds the reference. (No condition on `topScope`, siblings or the length
    of the chain.) -/
theorem set_through_reference (d : Doc) (p k : Text) (v : Node) (rid : Nat) (nm : Text) (ne : Bool)
    (name : Text) (bf af : Payload) (bid : Nat)
    (hnt : d.noTarget = none) (hsp : splitScopeNpath p = .ok none)
    (hf : formatNPath currentAnchor p = .ok [k])
    (hr : findAttrpathRoot d.target.setValues k = none)
    (hb : findBinding d.target.setValues k = some (.bind rid nm ne (.ident name) bf af))
    (hok : envOK (chainEnv d d.target true) = true) (hname : nixName name = name)
    (hinh : inheritFree (chainEnv d d.target true) name = true)
    (hids : idsNodup (chainEnv d d.target true) = true)
    (hdef : Defines (chainEnv d d.target true) name bid) :
    setValue p (.one v) d = (.ok (), d.updBind bid v) ∧
    (rid ≠ bid → findBinding (d.updBind bid v).target.setValues k =
      some (.bind rid nm ne (.ident name) bf af)) := by
  constructor
  · rw [setValue_ref_single d p k v rid nm ne name bf af hnt hsp hf hr hb, assignExisting_ref,
      (resolveIdent_iff d d.target true name bid hok hname hinh hids).2 hdef]
  · intro hne
    rw [Doc.updBind_target, setValues_updBind, findBinding_updBindL, hb, Option.map_some,
      write_keeps_reference bid rid nm ne name bf af v hne]

/-! ## 3. A name bound nowhere: the binding at the path is overwritten -/

theorem scanChain_none_of_notBound {env0 : List (List Node)} (hwf : EnvWF env0) {name : Text}
    (hname : nixName name = name) :
    ∀ {env : List (List Node)}, (∀ f ∈ env, f ∈ env0) → NotBound env name → scanChain name env = none
  | [], _, _ => rfl
  | scope :: outer, hsub, hnb => by
    rw [scanChain_cons, scanHit_eq (hwf.quote scope (hsub scope (by simp)))
      (hwf.names scope (hsub scope (by simp))) hname, hnb scope (by simp)]
    simp only
    split
    · rfl
    · exact scanChain_none_of_notBound hwf hname (fun f hf => hsub f (by simp [hf]))
        (fun f hf => hnb f (by simp [hf]))

theorem resolveIdent_none_of_notBound (fuel : Nat) (env : List (List Node)) (name : Text)
    (vis : List Nat) (hok : envOK env = true) (hname : nixName name = name)
    (hnb : NotBound env name) : resolveIdent fuel env name vis = none := by
  cases fuel with
  | zero => rfl
  | succ fuel =>
    simp [resolveIdent, scanChain_none_of_notBound (EnvWF.of_envOK hok) hname (fun _ h => h) hnb]

theorem find_named_none_of_notBound {frame : List Node} {name : Text} (hname : nixName name = name)
    (h : frame.find? (bindsName name) = none) :
    (frame.filter (·.isBind)).find? (·.bindName? == some name) = none := by
  rw [List.find?_eq_none] at h ⊢
  intro x hx
  have hx' := (List.mem_filter.1 hx).1
  have := h x hx'
  cases x <;> simp [bindName?, bindsName] at this ⊢
  intro e; subst e; exact this hname

theorem findBinding_none_of_notBound {frame : List Node} {name : Text} (hname : nixName name = name)
    (h : frame.find? (bindsName name) = none) : findBinding frame name = none := by
  unfold findBinding
  rw [List.find?_eq_none] at h ⊢
  intro x hx
  have := h x hx
  cases x <;> simp [isBind, bindName?, bindsName] at this ⊢
  intro e; subst e; exact this hname

/-- **Unbound ⇒ overwrite.** When no frame of the chain binds the name, none of the `let_bindings`
    handed down by `set_value` is named so, and no sibling in the parent set is, `assignExisting`
    overwrites the binding at the path itself. -/
theorem assignExisting_unbound_overwrites (ts parent : Node) (wl : Bool) (rid : Nat) (nm : Text)
    (ne : Bool) (name : Text) (bf af : Payload) (v : Node) (d : Doc)
    (hok : envOK (chainEnv d ts wl) = true) (hname : nixName name = name)
    (hchain : NotBound (chainEnv d ts wl) name)
    (hlet : (letBindings d).find? (·.bindName? == some name) = none)
    (hsib : findBinding parent.setValues name = none) :
    assignExisting ts parent wl (.bind rid nm ne (.ident name) bf af) v d =
      (.ok (), d.updBind rid v) := by
  rw [assignExisting_ref, resolveIdent_none_of_notBound _ _ _ _ hok hname hchain]
  simp only [hlet, hsib]

theorem scope_mem_chainEnv (d : Doc) (ts : Node) (h : d.scope ≠ []) :
    d.scope ∈ chainEnv d ts true := by
  have : d.scope.isEmpty = false := by cases hs : d.scope <;> simp_all
  simp [chainEnv, scopeChain, this]

theorem letBindings_none_of_notBound (d : Doc) (name : Text) (hname : nixName name = name)
    (hnb : NotBound (docEnv d) name) :
    (letBindings d).find? (·.bindName? == some name) = none := by
  unfold letBindings
  cases ht : d.topScope with
  | some s =>
    exact find_named_none_of_notBound hname (hnb s (by simp [docEnv, ht]))
  | none =>
    by_cases hs : d.scope = []
    · simp [hs]
    · exact find_named_none_of_notBound hname
        (hnb d.scope (by simp only [docEnv, List.mem_append]; exact Or.inl (scope_mem_chainEnv d _ hs)))

theorem envOK_append_left {a b : List (List Node)} (h : envOK (a ++ b) = true) : envOK a = true := by
  simp only [envOK, List.all_append, Bool.and_eq_true] at h; exact h.1

/-- A plain `set k v` on a binding of the target that holds the reference `name`, `name` bound
    nowhere in the document (no let layer, not the `rec` set itself, not the recorded layer of the
    top expression) and — the exclusion, see `cex_nonrec_sibling` — not a sibling either:
    the binding at the path is overwritten. -/
theorem set_unbound_overwrites (d : Doc) (p k : Text) (v : Node) (rid : Nat) (nm : Text) (ne : Bool)
    (name : Text) (bf af : Payload)
    (hnt : d.noTarget = none) (hsp : splitScopeNpath p = .ok none)
    (hf : formatNPath currentAnchor p = .ok [k])
    (hr : findAttrpathRoot d.target.setValues k = none)
    (hb : findBinding d.target.setValues k = some (.bind rid nm ne (.ident name) bf af))
    (hok : envOK (docEnv d) = true) (hname : nixName name = name)
    (hnb : NotBound (docEnv d) name)
    (hsib : findBinding d.target.setValues name = none) :
    setValue p (.one v) d = (.ok (), d.updBind rid v) := by
  rw [setValue_ref_single d p k v rid nm ne name bf af hnt hsp hf hr hb]
  exact assignExisting_unbound_overwrites _ _ _ _ _ _ _ _ _ _ _ (envOK_append_left hok) hname
    (fun f hf => hnb f (by simp only [docEnv, List.mem_append]; exact Or.inl hf))
    (letBindings_none_of_notBound d name hname hnb) hsib

end Nima.C11
