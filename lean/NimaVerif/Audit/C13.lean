import NimaVerif.Props.C13
open Nima.C13
#print axioms tie_escape_table
#print axioms tie_max_inline_width
#print axioms tie_auto_multiline
#print axioms tie_single_binding
#print axioms tie_literals
#print axioms tie_coerce_order
#print axioms tie_float_literal
#print axioms tie_list_item_paren
#print axioms escapeNix_table
#print axioms string_roundtrip
#print axioms readData_of_lex
#print axioms readData_renderExpr
#print axioms readBinding_renderBinding
#print axioms roundtrip_partial
#print axioms readable_iff_avoids
#print axioms float_repr_readable_iff_dot
#print axioms float_repr_literal_ok
#print axioms roundtrip_domain
#print axioms neg_in_list_roundtrip
#print axioms neg_in_list_spelling
#print axioms float_repr_roundtrip
#print axioms float_no_dot_spelling
#print axioms cex_int_out_of_range
#print axioms render_deterministic
#print axioms cex_stable_inline_set
#print axioms cex_stable_inline_list
