import NimaVerif.Model.AttrTree
/-! Lemmas about association lists of attributes (`Kids`), `graft` (replace the subtree at a path) and
its algebra. No model code here. -/
namespace Nima

namespace Kids

@[simp] theorem lookup_nil (k : Text) : lookup k [] = none := rfl
@[simp] theorem upsert_nil (k : Text) (t : AttrTree) : upsert k t [] = [(k, t)] := rfl
@[simp] theorem erase_nil (k : Text) : erase k [] = [] := rfl
@[simp] theorem keys_nil : keys [] = [] := rfl
@[simp] theorem keys_cons (k : Text) (t : AttrTree) (r : Kids) : keys ((k, t) :: r) = k :: keys r := rfl
@[simp] theorem keys_append (a b : Kids) : keys (a ++ b) = keys a ++ keys b := by simp [keys]

theorem lookup_cons (k k' : Text) (t : AttrTree) (r : Kids) :
    lookup k ((k', t) :: r) = if k' = k then some t else lookup k r := rfl
theorem upsert_cons (k k' : Text) (t t' : AttrTree) (r : Kids) :
    upsert k t ((k', t') :: r) = if k' = k then (k, t) :: r else (k', t') :: upsert k t r := rfl
theorem erase_cons (k k' : Text) (t' : AttrTree) (r : Kids) :
    erase k ((k', t') :: r) = if k' = k then r else (k', t') :: erase k r := rfl

theorem lookup_eq_none_iff (k : Text) (ks : Kids) : lookup k ks = none ↔ k ∉ keys ks := by
  induction ks with
  | nil => simp
  | cons x r ih =>
    obtain ⟨k', t⟩ := x
    simp only [lookup_cons, keys_cons, List.mem_cons, not_or]
    by_cases h : k' = k
    · simp [h]
    · simp only [h, if_false, ih]
      constructor
      · intro h2; exact ⟨fun e => h e.symm, h2⟩
      · intro h2; exact h2.2

theorem lookup_isSome_iff (k : Text) (ks : Kids) : (lookup k ks).isSome ↔ k ∈ keys ks := by
  have := lookup_eq_none_iff k ks
  cases h : lookup k ks with
  | none => simp [h] at this ⊢; exact this
  | some t => simp [h] at this ⊢; exact this

theorem lookup_append_left (k : Text) (a b : Kids) (t : AttrTree) (h : lookup k a = some t) :
    lookup k (a ++ b) = some t := by
  induction a with
  | nil => simp at h
  | cons x r ih =>
    obtain ⟨k', t'⟩ := x
    simp only [List.cons_append, lookup_cons] at h ⊢
    split
    · rename_i e; simpa [e] using h
    · rename_i e; simp only [e, if_false] at h; exact ih h

theorem lookup_append_right (k : Text) (a b : Kids) (h : k ∉ keys a) :
    lookup k (a ++ b) = lookup k b := by
  induction a with
  | nil => rfl
  | cons x r ih =>
    obtain ⟨k', t'⟩ := x
    simp only [keys_cons, List.mem_cons, not_or] at h
    simp only [List.cons_append, lookup_cons]
    rw [if_neg (fun e => h.1 e.symm)]
    exact ih h.2

theorem upsert_append_right (k : Text) (t : AttrTree) (a b : Kids) (h : k ∉ keys a) :
    upsert k t (a ++ b) = a ++ upsert k t b := by
  induction a with
  | nil => rfl
  | cons x r ih =>
    obtain ⟨k', t'⟩ := x
    simp only [keys_cons, List.mem_cons, not_or] at h
    simp only [List.cons_append, upsert_cons]
    rw [if_neg (fun e => h.1 e.symm), ih h.2]

theorem erase_append_right (k : Text) (a b : Kids) (h : k ∉ keys a) :
    erase k (a ++ b) = a ++ erase k b := by
  induction a with
  | nil => rfl
  | cons x r ih =>
    obtain ⟨k', t'⟩ := x
    simp only [keys_cons, List.mem_cons, not_or] at h
    simp only [List.cons_append, erase_cons]
    rw [if_neg (fun e => h.1 e.symm), ih h.2]

theorem upsert_of_not_mem (k : Text) (t : AttrTree) (a : Kids) (h : k ∉ keys a) :
    upsert k t a = a ++ [(k, t)] := by
  have := upsert_append_right k t a [] h
  simpa using this

theorem erase_of_not_mem (k : Text) (a : Kids) (h : k ∉ keys a) : erase k a = a := by
  have := erase_append_right k a [] h
  simpa using this

@[simp] theorem upsert_head (k : Text) (t t' : AttrTree) (r : Kids) :
    upsert k t ((k, t') :: r) = (k, t) :: r := by simp [upsert_cons]
@[simp] theorem erase_head (k : Text) (t' : AttrTree) (r : Kids) :
    erase k ((k, t') :: r) = r := by simp [erase_cons]
@[simp] theorem lookup_head (k : Text) (t' : AttrTree) (r : Kids) :
    lookup k ((k, t') :: r) = some t' := by simp [lookup_cons]

theorem lookup_upsert_self (k : Text) (t : AttrTree) (a : Kids) : lookup k (upsert k t a) = some t := by
  induction a with
  | nil => simp
  | cons x r ih =>
    obtain ⟨k', t'⟩ := x
    simp only [upsert_cons]
    split
    · simp
    · rename_i e; simp only [lookup_cons, e, if_false]; exact ih

theorem lookup_upsert_ne (k k2 : Text) (t : AttrTree) (a : Kids) (h : k2 ≠ k) :
    lookup k2 (upsert k t a) = lookup k2 a := by
  induction a with
  | nil => simp [lookup_cons, Ne.symm h]
  | cons x r ih =>
    obtain ⟨k', t'⟩ := x
    simp only [upsert_cons]
    split
    · rename_i e; subst e; simp [lookup_cons, Ne.symm h]
    · simp only [lookup_cons, ih]

theorem upsert_upsert (k : Text) (t t2 : AttrTree) (a : Kids) :
    upsert k t (upsert k t2 a) = upsert k t a := by
  induction a with
  | nil => simp
  | cons x r ih =>
    obtain ⟨k', t'⟩ := x
    simp only [upsert_cons]
    split
    · simp
    · rename_i e; simp only [upsert_cons, e, if_false, ih]

theorem keys_upsert_of_mem (k : Text) (t : AttrTree) (a : Kids) (h : k ∈ keys a) :
    keys (upsert k t a) = keys a := by
  induction a with
  | nil => simp at h
  | cons x r ih =>
    obtain ⟨k', t'⟩ := x
    simp only [upsert_cons]
    split
    · rename_i e; simp [e]
    · rename_i e
      simp only [keys_cons, List.mem_cons] at h
      rcases h with h | h
      · exact absurd h.symm e
      · simp [ih h]

theorem keys_upsert (k : Text) (t : AttrTree) (a : Kids) :
    keys (upsert k t a) = if k ∈ keys a then keys a else keys a ++ [k] := by
  split
  · rename_i h; exact keys_upsert_of_mem k t a h
  · rename_i h; rw [upsert_of_not_mem k t a h]; simp

theorem keys_erase_sublist (k : Text) (a : Kids) : (keys (erase k a)).Sublist (keys a) := by
  induction a with
  | nil => simp
  | cons x r ih =>
    obtain ⟨k', t'⟩ := x
    simp only [erase_cons]
    split
    · simp
    · simp only [keys_cons]; exact ih.cons_cons _

theorem mem_erase (x : Text × AttrTree) (k : Text) (a : Kids) (h : x ∈ erase k a) : x ∈ a := by
  induction a with
  | nil => simp at h
  | cons y r ih =>
    obtain ⟨k', t'⟩ := y
    simp only [erase_cons] at h
    split at h
    · exact List.mem_cons_of_mem _ h
    · rcases List.mem_cons.mp h with h | h
      · simp [h]
      · exact List.mem_cons_of_mem _ (ih h)

theorem mem_upsert (x : Text × AttrTree) (k : Text) (t : AttrTree) (a : Kids) (h : x ∈ upsert k t a) :
    x = (k, t) ∨ x ∈ a := by
  induction a with
  | nil => simp at h; exact Or.inl h
  | cons y r ih =>
    obtain ⟨k', t'⟩ := y
    simp only [upsert_cons] at h
    split at h
    · rcases List.mem_cons.mp h with h | h
      · exact Or.inl h
      · exact Or.inr (List.mem_cons_of_mem _ h)
    · rcases List.mem_cons.mp h with h | h
      · exact Or.inr (by simp [h])
      · rcases ih h with h | h
        · exact Or.inl h
        · exact Or.inr (List.mem_cons_of_mem _ h)

theorem lookup_mem (k : Text) (t : AttrTree) (a : Kids) (h : lookup k a = some t) : (k, t) ∈ a := by
  induction a with
  | nil => simp at h
  | cons y r ih =>
    obtain ⟨k', t'⟩ := y
    simp only [lookup_cons] at h
    split at h
    · rename_i e; injection h with h; simp [e, h]
    · exact List.mem_cons_of_mem _ (ih h)

theorem lookup_erase_ne (k k2 : Text) (a : Kids) (h : k2 ≠ k) :
    lookup k2 (erase k a) = lookup k2 a := by
  induction a with
  | nil => simp
  | cons x r ih =>
    obtain ⟨k', t'⟩ := x
    simp only [erase_cons]
    split
    · rename_i e; subst e; simp [lookup_cons, Ne.symm h]
    · simp only [lookup_cons, ih]

end Kids

/-! ### key uniqueness -/

namespace AttrTree

theorem nodupL_cons (k : Text) (t : AttrTree) (r : Kids) :
    nodupL ((k, t) :: r) = (t.nodup && !(r.any (·.1 == k)) && nodupL r) := by
  simp [nodupL]

theorem any_key_iff (k : Text) (r : Kids) : (r.any (·.1 == k)) = true ↔ k ∈ Kids.keys r := by
  simp only [List.any_eq_true, beq_iff_eq, Kids.keys, List.mem_map]

/-- `nodupL` spelled out: keys pairwise different, and every value is itself duplicate free. -/
theorem nodupL_iff (ks : Kids) :
    nodupL ks = true ↔ (Kids.keys ks).Nodup ∧ ∀ x ∈ ks, x.2.nodup = true := by
  induction ks with
  | nil => simp [nodupL]
  | cons x r ih =>
    obtain ⟨k, t⟩ := x
    rw [nodupL_cons]
    simp only [Bool.and_eq_true, Bool.not_eq_true', Kids.keys_cons, List.nodup_cons, List.mem_cons,
      forall_eq_or_imp, ih]
    have hk : (r.any (·.1 == k)) = false ↔ k ∉ Kids.keys r := by
      rw [← any_key_iff, Bool.not_eq_true]
    rw [hk]
    constructor
    · rintro ⟨⟨h1, h2⟩, h3, h4⟩; exact ⟨⟨h2, h3⟩, h1, h4⟩
    · rintro ⟨⟨h2, h3⟩, h1, h4⟩; exact ⟨⟨h1, h2⟩, h3, h4⟩

@[simp] theorem nodup_node (ks : Kids) : (node ks).nodup = nodupL ks := by simp [nodup]
@[simp] theorem nodup_leaf (v : Node) : (leaf v).nodup = true := by simp [nodup]

theorem nodupL_upsert (k : Text) (t : AttrTree) (ks : Kids) (h : nodupL ks = true) (ht : t.nodup = true) :
    nodupL (ks.upsert k t) = true := by
  rw [nodupL_iff] at h ⊢
  refine ⟨?_, ?_⟩
  · rw [Kids.keys_upsert]
    split
    · exact h.1
    · rename_i hk
      rw [List.nodup_append]
      refine ⟨h.1, by simp, ?_⟩
      intro a ha b hb
      simp only [List.mem_singleton] at hb
      subst hb
      intro e; subst e; exact hk ha
  · intro x hx
    rcases Kids.mem_upsert x k t ks hx with e | hm
    · subst e; exact ht
    · exact h.2 x hm

theorem nodupL_erase (k : Text) (ks : Kids) (h : nodupL ks = true) : nodupL (ks.erase k) = true := by
  rw [nodupL_iff] at h ⊢
  exact ⟨h.1.sublist (Kids.keys_erase_sublist k ks), fun x hx => h.2 x (Kids.mem_erase x k ks hx)⟩

theorem nodupL_lookup (k : Text) (t : AttrTree) (ks : Kids) (h : nodupL ks = true)
    (hl : ks.lookup k = some t) : t.nodup = true :=
  ((nodupL_iff ks).mp h).2 _ (Kids.lookup_mem k t ks hl)

theorem nodupL_append_new (k : Text) (t : AttrTree) (ks : Kids) (h : nodupL ks = true)
    (ht : t.nodup = true) (hk : k ∉ Kids.keys ks) : nodupL (ks ++ [(k, t)]) = true := by
  rw [← Kids.upsert_of_not_mem k t ks hk]; exact nodupL_upsert k t ks h ht

end AttrTree

/-! ### `graft`: replace the subtree at a path -/

/-- put `new` at path `p` (the path is expected to exist up to its last key) -/
def graft : List Text → AttrTree → AttrTree → AttrTree
  | [], new, _ => new
  | k :: ks, new, .node kids =>
      .node (Kids.upsert k (graft ks new ((Kids.lookup k kids).getD (.node []))) kids)
  | _ :: _, _, .leaf v => .leaf v

@[simp] theorem graft_nil (new t : AttrTree) : graft [] new t = new := by
  cases t <;> rfl
@[simp] theorem treeAt_nil (t : AttrTree) : treeAt t [] = some t := by
  cases t <;> rfl

theorem graft_single (k : Text) (new : AttrTree) (kids : Kids) :
    graft [k] new (.node kids) = .node (Kids.upsert k new kids) := by
  simp [graft]

/-- `graft` along `p ++ q` is `graft` along `p` of the subtree grafted along `q`. -/
theorem graft_append (p q : List Text) (new t sub : AttrTree) (h : treeAt t p = some sub) :
    graft (p ++ q) new t = graft p (graft q new sub) t := by
  induction p generalizing t with
  | nil => simp at h; subst h; simp
  | cons k ks ih =>
    cases t with
    | leaf v => simp [treeAt] at h
    | node kids =>
      simp only [treeAt] at h
      cases hl : Kids.lookup k kids with
      | none => simp [hl] at h
      | some t1 =>
        simp only [hl] at h
        simp only [List.cons_append, graft, hl, Option.getD_some]
        rw [ih t1 h]

theorem treeAt_graft (p : List Text) (new t sub : AttrTree) (h : treeAt t p = some sub) :
    treeAt (graft p new t) p = some new := by
  induction p generalizing t with
  | nil => simp
  | cons k ks ih =>
    cases t with
    | leaf v => simp [treeAt] at h
    | node kids =>
      simp only [treeAt] at h
      cases hl : Kids.lookup k kids with
      | none => simp [hl] at h
      | some t1 =>
        simp only [hl] at h
        simp only [graft, hl, Option.getD_some, treeAt, Kids.lookup_upsert_self]
        exact ih t1 h

theorem graft_graft (p : List Text) (a b t sub : AttrTree) (h : treeAt t p = some sub) :
    graft p a (graft p b t) = graft p a t := by
  induction p generalizing t with
  | nil => simp
  | cons k ks ih =>
    cases t with
    | leaf v => simp [treeAt] at h
    | node kids =>
      simp only [treeAt] at h
      cases hl : Kids.lookup k kids with
      | none => simp [hl] at h
      | some t1 =>
        simp only [hl] at h
        simp only [graft, hl, Option.getD_some, Kids.lookup_upsert_self, Kids.upsert_upsert]
        rw [ih t1 h]

/-- grafting below an existing path, after grafting at that path -/
theorem graft_append_graft (p q : List Text) (a b t sub : AttrTree) (h : treeAt t p = some sub) :
    graft (p ++ q) a (graft p b t) = graft p (graft q a b) t := by
  rw [graft_append p q a (graft p b t) b (treeAt_graft p b t sub h)]
  exact graft_graft p _ b t sub h

theorem treeAt_append (p q : List Text) (t sub : AttrTree) (h : treeAt t p = some sub) :
    treeAt t (p ++ q) = treeAt sub q := by
  induction p generalizing t with
  | nil => simp at h; subst h; rfl
  | cons k ks ih =>
    cases t with
    | leaf v => simp [treeAt] at h
    | node kids =>
      simp only [treeAt] at h
      cases hl : Kids.lookup k kids with
      | none => simp [hl] at h
      | some t1 =>
        simp only [hl] at h
        simp only [List.cons_append, treeAt, hl]
        exact ih t1 h

theorem nodup_treeAt (p : List Text) (t sub : AttrTree) (h : treeAt t p = some sub)
    (hn : t.nodup = true) : sub.nodup = true := by
  induction p generalizing t with
  | nil => simp at h; subst h; exact hn
  | cons k ks ih =>
    cases t with
    | leaf v => simp [treeAt] at h
    | node kids =>
      simp only [treeAt] at h
      cases hl : Kids.lookup k kids with
      | none => simp [hl] at h
      | some t1 =>
        simp only [hl] at h
        simp only [AttrTree.nodup_node] at hn
        exact ih t1 h (AttrTree.nodupL_lookup k t1 kids hn hl)

theorem nodup_graft (p : List Text) (new t sub : AttrTree) (h : treeAt t p = some sub)
    (hn : t.nodup = true) (hnew : new.nodup = true) : (graft p new t).nodup = true := by
  induction p generalizing t with
  | nil => simpa using hnew
  | cons k ks ih =>
    cases t with
    | leaf v => simp [treeAt] at h
    | node kids =>
      simp only [treeAt] at h
      cases hl : Kids.lookup k kids with
      | none => simp [hl] at h
      | some t1 =>
        simp only [hl] at h
        simp only [AttrTree.nodup_node] at hn
        simp only [graft, hl, Option.getD_some, AttrTree.nodup_node]
        exact AttrTree.nodupL_upsert k _ kids hn (ih t1 h (AttrTree.nodupL_lookup k t1 kids hn hl))

theorem specSetK_single (v : Node) (kids : Kids) (n : Text) :
    specSetK v kids [n] = some (Kids.upsert n (denote v) kids) := rfl

theorem specSetK_node (v : Node) (kids sub : Kids) (n : Text) (rest : List Text) (hr : rest ≠ [])
    (hl : Kids.lookup n kids = some (.node sub)) :
    specSetK v kids (n :: rest) = (specSetK v sub rest).map fun s => Kids.upsert n (.node s) kids := by
  cases rest with
  | nil => exact absurd rfl hr
  | cons a b => rw [specSetK]; simp only [hl]

theorem specSetK_none (v : Node) (kids : Kids) (n : Text) (rest : List Text) (hr : rest ≠ [])
    (hl : Kids.lookup n kids = none) :
    specSetK v kids (n :: rest) = (specSetK v [] rest).map fun s => Kids.upsert n (.node s) kids := by
  cases rest with
  | nil => exact absurd rfl hr
  | cons a b => rw [specSetK]; simp only [hl]

theorem specSetK_leaf (v : Node) (kids : Kids) (n : Text) (rest : List Text) (hr : rest ≠ []) (x : Node)
    (hl : Kids.lookup n kids = some (.leaf x)) : specSetK v kids (n :: rest) = none := by
  cases rest with
  | nil => exact absurd rfl hr
  | cons a b => rw [specSetK]; simp only [hl]

theorem specRemoveK_single (prune : Bool) (kids : Kids) (n : Text) :
    specRemoveK prune kids [n] = if (Kids.lookup n kids).isSome then some (Kids.erase n kids) else none := rfl

theorem specRemoveK_node (prune : Bool) (kids sub : Kids) (n : Text) (rest : List Text) (hr : rest ≠ [])
    (hl : Kids.lookup n kids = some (.node sub)) :
    specRemoveK prune kids (n :: rest) = (specRemoveK prune sub rest).map fun sub' =>
      if prune && sub'.isEmpty then Kids.erase n kids else Kids.upsert n (.node sub') kids := by
  cases rest with
  | nil => exact absurd rfl hr
  | cons a b => rw [specRemoveK]; simp only [hl]; cases specRemoveK prune sub (a :: b) <;> rfl

theorem specRemoveK_other (prune : Bool) (kids : Kids) (n : Text) (rest : List Text) (hr : rest ≠ [])
    (hl : ∀ sub, Kids.lookup n kids ≠ some (.node sub)) : specRemoveK prune kids (n :: rest) = none := by
  cases rest with
  | nil => exact absurd rfl hr
  | cons a b =>
    rw [specRemoveK]
    split
    · rename_i sub h; exact absurd h (hl sub)
    · rfl

end Nima
