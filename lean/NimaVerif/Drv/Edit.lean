import NimaVerif.Model.Edit
import NimaVerif.Model.SExp
/-! Driver requests for L6 (documents and edits): S-expression codec for `Node` / `Doc`, and
`(edit <doc> <op>…)` which applies the operations one after another and replies with the
result class and the document after each. -/
namespace Nima.Drv.Edit
open Nima

-- the driver runs the model with the name comparison of the source as it is
attribute [local instance] NameCmp.model

def sPayload (p : Payload) : SExp := .list (p.map sNat)
def sOptPayload : Option Payload → SExp
  | none => .atom "-"
  | some p => sPayload p

mutual
  partial def encNode : Node → SExp
    | .atom t => .list [.atom "atom", sText t]
    | .ident n => .list [.atom "ident", sText n]
    | .set sid vs o m r =>
        .list [.atom "set", sNat sid, .list (vs.map encNode), .list (o.map encNode), sBool m, sBool r]
    | .bind id n ne v b a =>
        .list [.atom "bind", sNat id, sText n, sBool ne, encNode v, sPayload b, sPayload a]
    | .inherit id ns => .list [.atom "inherit", sNat id, .list (ns.map sText)]
    | .entry segs leaf b a =>
        .list [.atom "entry", .list (segs.map sText), encNode leaf, sOptPayload b, sOptPayload a]
end

def dPayload : SExp → Option Payload
  | .list xs => xs.mapM fun | .atom a => a.toNat? | _ => none
  | _ => none
def dOptPayload : SExp → Option (Option Payload)
  | .atom "-" => some none
  | e => (dPayload e).map some
def dBool : SExp → Option Bool
  | .atom "t" => some true | .atom "f" => some false | _ => none
def dTexts : SExp → Option (List Text)
  | .list xs => xs.mapM fun | .atom a => decText a | _ => none
  | _ => none

partial def decNode : SExp → Option Node
  | .list [.atom "atom", .atom t] => (decText t).map .atom
  | .list [.atom "ident", .atom t] => (decText t).map .ident
  | .list [.atom "set", .atom sid, .list vs, .list o, m, r] => do
      let sid ← sid.toNat?
      let vs ← vs.mapM decNode
      let o ← o.mapM decNode
      pure (.set sid vs o (← dBool m) (← dBool r))
  | .list [.atom "bind", .atom id, .atom n, ne, v, b, a] => do
      pure (.bind (← id.toNat?) (← decText n) (← dBool ne) (← decNode v) (← dPayload b) (← dPayload a))
  | .list [.atom "inherit", .atom id, ns] => do pure (.inherit (← id.toNat?) (← dTexts ns))
  | .list [.atom "entry", segs, leaf, b, a] => do
      pure (.entry (← dTexts segs) (← decNode leaf) (← dOptPayload b) (← dOptPayload a))
  | _ => none

def encLayer (l : Layer) : SExp :=
  .list [.atom "layer", .list (l.scope.map encNode), .list (l.order.map encNode),
         sPayload l.bodyBefore, sPayload l.bodyAfter,
         match l.afterLet with | none => .atom "-" | some n => sNat n]

def decLayer : SExp → Option Layer
  | .list [.atom "layer", .list sc, .list o, bb, ba, al] => do
      let al ← match al with | .atom "-" => some none | .atom n => n.toNat?.map some | _ => none
      pure { scope := ← sc.mapM decNode, order := ← o.mapM decNode,
             bodyBefore := ← dPayload bb, bodyAfter := ← dPayload ba, afterLet := al }
  | _ => none

def encNoTarget : Option NoTarget → SExp
  | none => .atom "editable" | some .raw => .atom "raw" | some .empty => .atom "empty"
  | some .multi => .atom "multi" | some .shape => .atom "shape" | some .resolution => .atom "resolution"
def decNoTarget : SExp → Option (Option NoTarget)
  | .atom "editable" => some none | .atom "raw" => some (some .raw)
  | .atom "empty" => some (some .empty) | .atom "multi" => some (some .multi)
  | .atom "shape" => some (some .shape) | .atom "resolution" => some (some .resolution) | _ => none

def encDoc (d : Doc) : SExp :=
  .list [.atom "doc", encNoTarget d.noTarget, encNode d.target, sPayload d.tBefore, sPayload d.tAfter,
         .list (d.scope.map encNode), sPayload d.stBodyBefore, sPayload d.stBodyAfter,
         .list (d.stOrder.map encNode),
         (match d.stAfterLet with | none => .atom "-" | some n => sNat n),
         .list (d.stack.map encLayer), sPayload d.trailing,
         (match d.topScope with | none => .atom "-" | some s => .list (s.map encNode)),
         sNat d.next, sBool d.rstripped]

def decDoc : SExp → Option Doc
  | .list [.atom "doc", nt, tgt, tb, ta, .list sc, sbb, sba, .list so, sal, .list stk, tr, ts, .atom nx] => do
      let sal ← match sal with | .atom "-" => some none | .atom n => n.toNat?.map some | _ => none
      let ts ← match ts with
        | .atom "-" => some none
        | .list xs => (xs.mapM decNode).map some
        | _ => none
      pure { noTarget := ← decNoTarget nt, target := ← decNode tgt, tBefore := ← dPayload tb,
             tAfter := ← dPayload ta, scope := ← sc.mapM decNode, stBodyBefore := ← dPayload sbb,
             stBodyAfter := ← dPayload sba, stOrder := ← so.mapM decNode, stAfterLet := sal,
             stack := ← stk.mapM decLayer, trailing := ← dPayload tr, topScope := ts,
             next := ← nx.toNat? }
  | _ => none

def decValueArg : SExp → Option ValueArg
  | .atom "empty" => some .empty
  | .atom "invalid" => some .invalid
  | .list [.atom "one", v] => (decNode v).map .one
  | _ => none

/-- mapping API on the set reached from the target by a list of keys -/
def reach (d : Doc) : List Text → Except Err Node
  | [] => match d.noTarget with | some _ => .error .value | none => .ok d.target
  | k :: ks => match reach d ks with      -- keys are given innermost LAST; processed by recursion on reversed list
    | .error e => .error e
    | .ok s => match s with
      | .set .. => setGetItem s k
      | _ => .error .type

def applyOp (d : Doc) : SExp → Option (Except Err Unit × Doc)
  | .list [.atom "set", .atom p, v] => do
      let p ← decText p
      let v ← decValueArg v
      pure (setValue p v { d with rstripped := false })
  | .list [.atom "rm", .atom p] => do
      let p ← decText p
      pure (removeValue p { d with rstripped := false })
  | .list [.atom "setitem", keys, .atom k, v] => do
      let keys ← dTexts keys
      let k ← decText k
      let v ← decNode v
      match reach d keys.reverse with
      | .error e => pure (.error e, d)
      | .ok s => match s with
        | .set .. => pure (setSetItem s k v d)
        | _ => pure (.error .type, d)
  | .list [.atom "delitem", keys, .atom k] => do
      let keys ← dTexts keys
      let k ← decText k
      match reach d keys.reverse with
      | .error e => pure (.error e, d)
      | .ok s => match s with
        | .set .. => pure (setDelItem s k d)
        | _ => pure (.error .type, d)
  | .list [.atom "scopeset", .atom k, v] => do
      let k ← decText k
      let v ← decNode v
      match d.noTarget with
      | some _ => pure (.error .value, d)
      | none => pure (scopeSetItem k v d)
  | .list [.atom "scopedel", .atom k] => do
      let k ← decText k
      match d.noTarget with
      | some _ => pure (.error .value, d)
      | none => pure (scopeDelItem k d)
  | .list [.atom "scopeget", .atom k] => do
      let k ← decText k
      match d.noTarget with
      | some _ => pure (.error .value, d)
      | none => match scopeGetItem d k with
        | .ok _ => pure (.ok (), d)
        | .error e => pure (.error e, d)
  | .list [.atom "getitem", keys, .atom k] => do
      let keys ← dTexts keys
      let k ← decText k
      match reach d (k :: keys.reverse) with
      | .error e => pure (.error e, d)
      | .ok _ => pure (.ok (), d)
  | _ => none

def handle (req : SExp) : Option SExp :=
  match req with
  | .list (.atom "edit" :: doc :: ops) =>
    match decDoc doc with
    | none => some (.list [.atom "bad-arg", .atom "doc"])
    | some d =>
      let rec go (d : Doc) (acc : Array SExp) : List SExp → SExp
        | [] => .list (.atom "ok" :: acc.toList)
        | op :: rest =>
          match applyOp d op with
          | none => .list [.atom "bad-arg", .atom "op"]
          | some (r, d') =>
            let res := match r with
              | .ok () => SExp.list [.atom "ok", encDoc d']
              | .error e => SExp.list [.atom "err", .atom e.cls, encDoc d']
            go d' (acc.push res) rest
      some (go d #[] ops)
  | _ => none

end Nima.Drv.Edit
