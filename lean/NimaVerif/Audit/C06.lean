import NimaVerif.Props.C06
#print axioms Nima.C06.fromGap_separator
#print axioms Nima.C06.fromGap_separator_idem
#print axioms Nima.C06.separator_second_pass
#print axioms Nima.C06.fromGap_wellformed
#print axioms Nima.C06.gapText_emptyLine
#print axioms Nima.C06.gapText_linebreak
#print axioms Nima.C06.gapText_nil
#print axioms Nima.C06.appendGapTrivia_idem
#print axioms Nima.C06.appendGapTrivia_inline_gap
#print axioms Nima.C06.gapText_fixed_point
#print axioms Nima.C06.before_list_rendering
#print axioms Nima.C06.block_comment_fixed_point
#print axioms Nima.C06.line_comment_fixed_point
#print axioms Nima.C06.cex_inline_multiline_block_drift
#print axioms Nima.C06.inline_block_fixed_point_partial
#print axioms Nima.C06.cex_comment_around_semicolon
#print axioms Nima.C06.frag_second_pass_tokens
