import NimaVerif.Model.Edit
import NimaVerif.Lemmas.SameName
/-!
Two name comparisons that agree on the tokens an operation can meet give the same operation.

`toks n` lists the name tokens a lookup below the node `n` can compare with a key: the names of the
bindings reachable through `values`, and identifier values (a reference's target is looked up among
the siblings). The lookups of `set`/`rm` only ever read SNAPSHOTS that are sub-nodes of the target set
(or of a scope layer) they started from, or fresh empty sets, so no invariant about the evolving
document is needed: `Agree I1 I2 T` together with "the document's tokens and the keys are in `T`"
makes every function of Model/Edit.lean the same function for `I1` and `I2`.

Instantiated with `NameCmp.model` (`_same_attr_name`) and `NameCmp.spelled` (`==`), `Agree` is
`NoSpellingClash`: no two tokens of `T` are different spellings of one name.
-/
namespace Nima.NameAgree
open Nima Node EditM

mutual
  def toks : Node → List Text
    | .set _ vs _ _ _ => toksL vs
    | .bind _ n _ v _ _ => n :: toks v
    | .ident n => [n]
    | _ => []
  def toksL : List Node → List Text
    | [] => []
    | x :: xs => toks x ++ toksL xs
end

/-- every token below `n` is in `T` -/
def Within (T : List Text) (n : Node) : Prop := ∀ t ∈ toks n, t ∈ T
def WithinL (T : List Text) (vs : List Node) : Prop := ∀ t ∈ toksL vs, t ∈ T

/-- the two comparisons give the same answer on every pair of tokens of `T` -/
def Agree (I1 I2 : NameCmp) (T : List Text) : Prop :=
  ∀ a ∈ T, ∀ b ∈ T, I1.same a b = I2.same a b

theorem toksL_mem {x : Node} {vs : List Node} (h : x ∈ vs) : ∀ t ∈ toks x, t ∈ toksL vs := by
  induction vs with
  | nil => cases h
  | cons y ys ih =>
    intro t ht
    simp only [toksL, List.mem_append]
    rcases List.mem_cons.mp h with rfl | h'
    · exact Or.inl ht
    · exact Or.inr (ih h' t ht)

theorem withinL_mem {T : List Text} {vs : List Node} (h : WithinL T vs) {x : Node} (hx : x ∈ vs) :
    Within T x := fun t ht => h t (toksL_mem hx t ht)

theorem within_values {T : List Text} {s : Node} (h : Within T s) : WithinL T s.setValues := by
  cases s <;> simp [setValues, WithinL, toksL] <;> (try exact fun t ht => h t (by simpa [toks] using ht))

theorem within_value {T : List Text} {b v : Node} (h : Within T b) (hv : b.bindValue? = some v) :
    Within T v := by
  cases b <;> simp [bindValue?] at hv
  subst hv
  intro t ht
  exact h t (by simp [toks, ht])

theorem within_name {T : List Text} {b : Node} {nm : Text} (h : Within T b) (hn : b.bindName? = some nm) :
    nm ∈ T := by
  cases b <;> simp [bindName?] at hn
  subst hn
  exact h _ (by simp [toks])

theorem within_ident {T : List Text} {n : Text} (h : Within T (.ident n)) : n ∈ T :=
  h n (by simp [toks])

theorem within_fresh_set (T : List Text) (sid : Nat) (m r : Bool) : Within T (.set sid [] [] m r) := by
  intro t ht; simp [toks, toksL] at ht

theorem find?_agree {vs : List Node} (p q : Node → Bool) (h : ∀ n ∈ vs, p n = q n) :
    vs.find? p = vs.find? q := by
  induction vs with
  | nil => rfl
  | cons x xs ih =>
    simp only [List.find?_cons, h x (by simp)]
    rw [ih (fun n hn => h n (by simp [hn]))]

section
variable {I1 I2 : NameCmp} {T : List Text} (hA : Agree I1 I2 T)
include hA

theorem nameIs_agree {n : Node} {key : Text} (hn : Within T n) (hk : key ∈ T) :
    @nameIs I1 n key = @nameIs I2 n key := by
  unfold nameIs
  cases hb : n.bindName? with
  | none => rfl
  | some nm => exact hA nm (within_name hn hb) key hk

theorem findBinding_agree {vs : List Node} {key : Text} (hvs : WithinL T vs) (hk : key ∈ T) :
    @findBinding I1 vs key = @findBinding I2 vs key := by
  unfold findBinding
  apply find?_agree
  intro n hn
  rw [nameIs_agree hA (withinL_mem hvs hn) hk]

theorem findNamedBinding_agree {vs : List Node} {key : Text} (nested : Option Bool)
    (hvs : WithinL T vs) (hk : key ∈ T) :
    @findNamedBinding I1 vs key nested = @findNamedBinding I2 vs key nested := by
  unfold findNamedBinding
  apply find?_agree
  intro n hn
  rw [nameIs_agree hA (withinL_mem hvs hn) hk]

theorem findAttrpathRoot_agree {vs : List Node} {key : Text} (hvs : WithinL T vs) (hk : key ∈ T) :
    @findAttrpathRoot I1 vs key = @findAttrpathRoot I2 vs key := by
  unfold findAttrpathRoot
  apply find?_agree
  intro n hn
  rw [nameIs_agree hA (withinL_mem hvs hn) hk]

omit hA in
theorem find?_within {T : List Text} {vs : List Node} {p : Node → Bool} {b : Node}
    (hvs : WithinL T vs) (h : vs.find? p = some b) : Within T b :=
  withinL_mem hvs (List.mem_of_find?_eq_some h)

theorem walkGo_agree (ln rr : Bool) (segs : List Text) (hs : ∀ s ∈ segs, s ∈ T) :
    ∀ (cur : Node) (stack : List (Node × Node)), Within T cur →
      @walkAttrpathStack.go I1 ln rr cur stack segs = @walkAttrpathStack.go I2 ln rr cur stack segs := by
  induction segs with
  | nil => intro cur stack _; simp [walkAttrpathStack.go]
  | cons seg more ih =>
    intro cur stack hcur
    have hseg : seg ∈ T := hs seg (by simp)
    have hvs := within_values hcur
    cases more with
    | nil =>
      simp only [walkAttrpathStack.go]
      rw [findNamedBinding_agree hA (some ln) hvs hseg]
    | cons s2 more2 =>
      simp only [walkAttrpathStack.go]
      rw [findNamedBinding_agree hA (some true) hvs hseg]
      cases hf : @findNamedBinding I2 cur.setValues seg (some true) with
      | none => rfl
      | some b =>
        have hb : Within T b := by
          unfold findNamedBinding at hf; exact find?_within hvs hf
        simp only []
        cases hv : b.bindValue? with
        | none => rfl
        | some v =>
          cases v <;> try rfl
          rename_i sid vs o m r
          exact ih (fun s h => hs s (by simp [h])) _ _ (within_value hb hv)

theorem walkAttrpathStack_agree (ts : Node) (segs : List Text) (ln rr : Bool)
    (hts : Within T ts) (hs : ∀ s ∈ segs, s ∈ T) :
    @walkAttrpathStack I1 ts segs ln rr = @walkAttrpathStack I2 ts segs ln rr := by
  unfold walkAttrpathStack
  cases segs with
  | nil => rfl
  | cons root rest =>
    cases rest with
    | nil => rfl
    | cons s2 rest2 =>
      have hvs := within_values hts
      simp only []
      rw [findAttrpathRoot_agree hA hvs (hs root (by simp))]
      cases hf : @findAttrpathRoot I2 ts.setValues root with
      | none => rfl
      | some rootB =>
        have hb : Within T rootB := by
          unfold findAttrpathRoot at hf; exact find?_within hvs hf
        simp only []
        cases hv : rootB.bindValue? with
        | none => rfl
        | some v =>
          cases v <;> try rfl
          rename_i sid vs o m r
          exact walkGo_agree hA ln rr _ (fun s h => hs s (by simp [h])) _ _ (within_value hb hv)

theorem findAttrpathLeaf_agree (ts : Node) (segs : List Text)
    (hts : Within T ts) (hs : ∀ s ∈ segs, s ∈ T) :
    @findAttrpathLeaf I1 ts segs = @findAttrpathLeaf I2 ts segs := by
  unfold findAttrpathLeaf
  rw [walkAttrpathStack_agree hA ts segs false false hts hs]

/-- a key all of whose readings are in `T`: the key itself and, when `AttributeSet.__getitem__`
    reads it as a dotted path, its segments -/
def KeyOK (T : List Text) (key : Text) : Prop :=
  key ∈ T ∧ ∀ segs, splitAttrpath key = .ok segs → ∀ s ∈ segs, s ∈ T

theorem getWalk_agree (segs : List Text) (hs : ∀ s ∈ segs, s ∈ T) :
    ∀ cur : Node, Within T cur → @setGetItem.walk I1 cur segs = @setGetItem.walk I2 cur segs := by
  induction segs with
  | nil => intro cur _; simp [setGetItem.walk]
  | cons seg more ih =>
    intro cur hcur
    have hvs := within_values hcur
    have hseg : seg ∈ T := hs seg (by simp)
    cases more with
    | nil =>
      simp only [setGetItem.walk]
      rw [findBinding_agree hA hvs hseg]
    | cons s2 more2 =>
      simp only [setGetItem.walk]
      rw [findBinding_agree hA hvs hseg]
      cases hf : @findBinding I2 cur.setValues seg with
      | none => rfl
      | some b =>
        have hb : Within T b := by unfold findBinding at hf; exact find?_within hvs hf
        simp only []
        cases hv : b.bindValue? with
        | none => rfl
        | some v =>
          cases v <;> try rfl
          exact ih (fun s h => hs s (by simp [h])) _ (within_value hb hv)

theorem setGetItem_agree (s : Node) (key : Text) (hs : Within T s) (hk : KeyOK T key) :
    @setGetItem I1 s key = @setGetItem I2 s key := by
  unfold setGetItem
  rw [findBinding_agree hA (within_values hs) hk.1]
  cases hf : @findBinding I2 s.setValues key with
  | some b => rfl
  | none =>
    simp only []
    split
    · rfl
    · cases hsp : splitAttrpath key with
      | error e => rfl
      | ok segs =>
        simp only []
        split
        · rfl
        · exact getWalk_agree hA segs (hk.2 segs hsp) s hs

omit hA in
theorem getWalk_within (I : NameCmp) (segs : List Text) :
    ∀ (cur v : Node), Within T cur → @setGetItem.walk I cur segs = .ok v → Within T v := by
  induction segs with
  | nil => intro cur v _ h; simp [setGetItem.walk] at h
  | cons seg more ih =>
    intro cur v hcur h
    have hvs := within_values hcur
    cases more with
    | nil =>
      simp only [setGetItem.walk] at h
      cases hf : @findBinding I cur.setValues seg with
      | none => simp [hf] at h
      | some b =>
        have hb : Within T b := by unfold findBinding at hf; exact find?_within hvs hf
        simp only [hf] at h
        cases hv : b.bindValue? with
        | none => simp [hv] at h
        | some v' =>
          simp only [hv, Except.ok.injEq] at h
          subst h
          exact within_value hb hv
    | cons s2 more2 =>
      simp only [setGetItem.walk] at h
      cases hf : @findBinding I cur.setValues seg with
      | none => simp [hf] at h
      | some b =>
        have hb : Within T b := by unfold findBinding at hf; exact find?_within hvs hf
        simp only [hf] at h
        cases hv : b.bindValue? with
        | none => simp [hv] at h
        | some v' =>
          simp only [hv] at h
          cases v' <;> try (simp at h)
          exact ih _ _ (within_value hb hv) h

omit hA in
theorem setGetItem_within (I : NameCmp) (s : Node) (key : Text) (v : Node) (hs : Within T s)
    (hk : key ∈ T) (h : @setGetItem I s key = .ok v) : Within T v := by
  unfold setGetItem at h
  cases hf : @findBinding I s.setValues key with
  | some b =>
    have hb : Within T b := by unfold findBinding at hf; exact find?_within (within_values hs) hf
    simp only [hf] at h
    cases hv : b.bindValue? with
    | none => simp [hv] at h
    | some v' =>
      simp only [hv, Except.ok.injEq] at h
      subst h; exact within_value hb hv
  | none =>
    simp only [hf] at h
    split at h
    · simp only [Except.ok.injEq] at h
      subst h
      intro t ht
      simp [toks] at ht
      subst ht; exact hk
    · cases hsp : splitAttrpath key with
      | error e => simp [hsp] at h
      | ok segs =>
        simp only [hsp] at h
        split at h
        · cases h
        · exact getWalk_within I segs s v hs h

theorem pathGo_agree (segs : List Text) (hs : ∀ s ∈ segs, s ∈ T) :
    ∀ cur : Node, Within T cur →
      @pathExistsInAttrset.go I1 cur segs = @pathExistsInAttrset.go I2 cur segs := by
  induction segs with
  | nil => intro cur _; simp [pathExistsInAttrset.go]
  | cons seg more ih =>
    intro cur hcur
    have hvs := within_values hcur
    have hseg : seg ∈ T := hs seg (by simp)
    cases more with
    | nil =>
      simp only [pathExistsInAttrset.go]
      rw [findNamedBinding_agree hA (some false) hvs hseg]
    | cons s2 more2 =>
      simp only [pathExistsInAttrset.go]
      rw [findNamedBinding_agree hA (some false) hvs hseg]
      cases hf : @findNamedBinding I2 cur.setValues seg (some false) with
      | none => rfl
      | some b =>
        have hb : Within T b := by unfold findNamedBinding at hf; exact find?_within hvs hf
        simp only []
        cases hv : b.bindValue? with
        | none => rfl
        | some v =>
          cases v <;> try rfl
          exact ih (fun s h => hs s (by simp [h])) _ (within_value hb hv)

theorem pathExistsInAttrset_agree (ts : Node) (segs : List Text)
    (hts : Within T ts) (hs : ∀ s ∈ segs, s ∈ T) :
    @pathExistsInAttrset I1 ts segs = @pathExistsInAttrset I2 ts segs := by
  unfold pathExistsInAttrset
  rw [findAttrpathLeaf_agree hA ts segs hts hs, pathGo_agree hA segs hs ts hts]

/-! ### the state-keeping functions

Functions that return a node are compared in continuation-passing style: whatever node they hand to
the rest of the computation is within `T` again (a sub-node of the one they were given, or a fresh
empty set), so the rest agrees as well. -/

omit hA in
theorem em_ext {α} (m1 m2 : EditM α) (h : ∀ d, m1 d = m2 d) : m1 = m2 := funext h

omit hA in
theorem em_bind_assoc {α β γ} (m : EditM α) (f : α → EditM β) (g : β → EditM γ) :
    (m >>= f) >>= g = m >>= fun a => f a >>= g := by
  apply em_ext; intro d
  show bind' (bind' m f) g d = bind' m (fun a => bind' (f a) g) d
  unfold bind'
  cases h : m d with
  | mk r d' => cases r <;> simp

omit hA in
theorem em_bind_congr {α β} (m : EditM α) (f g : α → EditM β) (h : ∀ a, f a = g a) :
    m >>= f = m >>= g := by
  have : f = g := funext h
  rw [this]

theorem setAttrpathWalk_agree (segs : List Text) (hs : ∀ s ∈ segs, s ∈ T) :
    ∀ (cur : Node), Within T cur → ∀ {α : Type} (k1 k2 : Node → EditM α),
      (∀ n, Within T n → k1 n = k2 n) →
      (@setAttrpathWalk I1 cur segs >>= k1) = (@setAttrpathWalk I2 cur segs >>= k2) := by
  induction segs with
  | nil =>
    intro cur hcur α k1 k2 hk
    simp only [setAttrpathWalk]
    exact hk cur hcur
  | cons seg more ih =>
    intro cur hcur α k1 k2 hk
    have hvs := within_values hcur
    have hseg : seg ∈ T := hs seg (by simp)
    have hmore : ∀ s ∈ more, s ∈ T := fun s h => hs s (by simp [h])
    simp only [setAttrpathWalk]
    rw [findNamedBinding_agree hA (some true) hvs hseg, findNamedBinding_agree hA (some false) hvs hseg]
    cases hf : @findNamedBinding I2 cur.setValues seg (some true) with
    | some b =>
      have hb : Within T b := by unfold findNamedBinding at hf; exact find?_within hvs hf
      simp only []
      cases hv : b.bindValue? with
      | none => rfl
      | some v =>
        cases v <;> try rfl
        exact ih hmore _ (within_value hb hv) k1 k2 hk
    | none =>
      simp only []
      split
      · rfl
      · cases hsid : cur.setSid? with
        | none => rfl
        | some csid =>
          simp only [em_bind_assoc]
          apply em_bind_congr; intro sid
          apply em_bind_congr; intro bid
          apply em_bind_congr; intro _
          exact ih hmore _ (within_fresh_set T sid _ _) k1 k2 hk

theorem setSetItem_agree (s : Node) (key : Text) (v : Node) (hs : Within T s) (hk : key ∈ T) :
    @setSetItem I1 s key v = @setSetItem I2 s key v := by
  unfold setSetItem
  rw [findBinding_agree hA (within_values hs) hk]

theorem setDelItem_agree (s : Node) (key : Text) (hs : Within T s) (hk : key ∈ T) :
    @setDelItem I1 s key = @setDelItem I2 s key := by
  unfold setDelItem
  rw [findBinding_agree hA (within_values hs) hk]

omit hA in
theorem mem_of_mem_dropLast' {α} : ∀ (l : List α) (a : α), a ∈ l.dropLast → a ∈ l
  | [], _, h => by simp at h
  | [_], _, h => by simp at h
  | x :: y :: t, a, h => by
    rw [List.dropLast_cons_cons] at h
    rcases List.mem_cons.mp h with rfl | h'
    · simp
    · exact List.mem_cons_of_mem _ (mem_of_mem_dropLast' (y :: t) a h')

omit hA in
theorem getLast?_mem {α} {l : List α} {a : α} (h : l.getLast? = some a) : a ∈ l :=
  List.mem_of_getLast? h

theorem setAttrpathValue_agree (tsSid : Nat) (root : Node) (segs : List Text) (v : Node)
    (hroot : Within T root) (hs : ∀ s ∈ segs, s ∈ T) :
    @setAttrpathValue I1 tsSid root segs v = @setAttrpathValue I2 tsSid root segs v := by
  unfold setAttrpathValue
  cases hv : root.bindValue? with
  | none => rfl
  | some rv =>
    cases rv <;> try rfl
    rename_i sid vs o m r
    simp only []
    apply setAttrpathWalk_agree hA _ (fun s h => hs s (List.mem_of_mem_drop (mem_of_mem_dropLast' _ _ h)))
      _ (within_value hroot hv)
    intro n hn
    cases hl : segs.getLast? with
    | none => rfl
    | some finalKey =>
      have hfk : finalKey ∈ T := hs _ (getLast?_mem hl)
      simp only []
      rw [findNamedBinding_agree hA (some true) (within_values hn) hfk,
        findNamedBinding_agree hA (some false) (within_values hn) hfk]

theorem removeAttrpathValue_agree (ts : Node) (segs : List Text)
    (hts : Within T ts) (hs : ∀ s ∈ segs, s ∈ T) :
    @removeAttrpathValue I1 ts segs = @removeAttrpathValue I2 ts segs := by
  unfold removeAttrpathValue
  rw [walkAttrpathStack_agree hA ts segs false true hts hs]

theorem resolveParentWalk_agree (cm : Bool) (keys : List Text) (hs : ∀ k ∈ keys, KeyOK T k) :
    ∀ (cur : Node), Within T cur → ∀ {α : Type} (k1 k2 : Node → EditM α),
      (∀ n, Within T n → k1 n = k2 n) →
      (@resolveParentWalk I1 cm cur keys >>= k1) = (@resolveParentWalk I2 cm cur keys >>= k2) := by
  induction keys with
  | nil =>
    intro cur hcur α k1 k2 hk
    simp only [resolveParentWalk]
    exact hk cur hcur
  | cons key more ih =>
    intro cur hcur α k1 k2 hk
    have hkey := hs key (by simp)
    have hmore : ∀ k ∈ more, KeyOK T k := fun k h => hs k (by simp [h])
    simp only [resolveParentWalk]
    rw [setGetItem_agree hA cur key hcur hkey]
    cases hg : @setGetItem I2 cur key with
    | ok v =>
      have hv : Within T v := setGetItem_within I2 cur key v hcur hkey.1 hg
      cases v <;> try rfl
      exact ih hmore _ hv k1 k2 hk
    | error e =>
      simp only []
      split
      · rfl
      · cases hsid : cur.setSid? with
        | none => rfl
        | some csid =>
          simp only [em_bind_assoc]
          apply em_bind_congr; intro sid
          rw [setSetItem_agree hA cur key _ hcur hkey.1]
          apply em_bind_congr; intro _
          exact ih hmore _ (within_fresh_set T sid _ _) k1 k2 hk

theorem assignExisting_agree (ts parent : Node) (wl : Bool) (b v : Node)
    (hparent : Within T parent) (hb : Within T b) :
    @assignExisting I1 ts parent wl b v = @assignExisting I2 ts parent wl b v := by
  unfold assignExisting
  cases hid : b.bindId? with
  | none => rfl
  | some bid =>
    cases hv : b.bindValue? with
    | none => rfl
    | some val =>
      cases val <;> try rfl
      rename_i targetName
      have htn : targetName ∈ T := within_ident (within_value hb hv)
      simp only [findBinding_agree hA (within_values hparent) htn]

/-- every segment `_format_npath_segments` makes of the path text is a key within `T` -/
def PathOK (T : List Text) (npath : Text) : Prop :=
  ∀ segs, formatNPath currentAnchor npath = .ok segs → ∀ s ∈ segs, KeyOK T s

theorem setValueInAttrset_agree (ts : Node) (wl : Bool) (npath : Text) (v : Node)
    (hts : Within T ts) (hp : PathOK T npath) :
    @setValueInAttrset I1 ts wl npath v = @setValueInAttrset I2 ts wl npath v := by
  unfold setValueInAttrset
  cases hf : formatNPath currentAnchor npath with
  | error e => rfl
  | ok segs =>
    have hk := hp segs hf
    have hsT : ∀ s ∈ segs, s ∈ T := fun s h => (hk s h).1
    cases segs with
    | nil => rfl
    | cons seg0 segRest =>
      cases hsid : ts.setSid? with
      | none => rfl
      | some tsSid =>
        have hvs := within_values hts
        have h0 : seg0 ∈ T := hsT seg0 (by simp)
        simp only []
        rw [findAttrpathLeaf_agree hA ts _ hts hsT, findAttrpathRoot_agree hA hvs h0,
          findBinding_agree hA hvs h0]
        cases hl : @findAttrpathLeaf I2 ts (seg0 :: segRest) with
        | some leaf => rfl
        | none =>
          simp only []
          split
          · split
            · rfl
            · cases hb : @findBinding I2 ts.setValues seg0 with
              | some b =>
                have hbw : Within T b := by unfold findBinding at hb; exact find?_within hvs hb
                exact assignExisting_agree hA ts ts wl b v hts hbw
              | none => exact setSetItem_agree hA ts seg0 v hts h0
          · cases hr : @findAttrpathRoot I2 ts.setValues seg0 with
            | some root =>
              have hrw : Within T root := by unfold findAttrpathRoot at hr; exact find?_within hvs hr
              exact setAttrpathValue_agree hA tsSid root _ v hrw hsT
            | none =>
              simp only []
              apply resolveParentWalk_agree hA true _
                (fun k h => hk k (mem_of_mem_dropLast' _ _ h)) ts hts
              intro parent hparent
              cases hlast : (seg0 :: segRest).getLast? with
              | none => rfl
              | some finalKey =>
                have hfk : finalKey ∈ T := hsT _ (getLast?_mem hlast)
                have hpv := within_values hparent
                simp only []
                rw [findBinding_agree hA hpv hfk]
                cases hb : @findBinding I2 parent.setValues finalKey with
                | some b =>
                  have hbw : Within T b := by unfold findBinding at hb; exact find?_within hpv hb
                  exact assignExisting_agree hA ts parent wl b v hparent hbw
                | none => exact setSetItem_agree hA parent finalKey v hparent hfk

theorem removeValueInAttrset_agree (ts : Node) (npath : Text)
    (hts : Within T ts) (hp : PathOK T npath) :
    @removeValueInAttrset I1 ts npath = @removeValueInAttrset I2 ts npath := by
  unfold removeValueInAttrset
  cases hf : formatNPath currentAnchor npath with
  | error e => rfl
  | ok segs =>
    have hk := hp segs hf
    have hsT : ∀ s ∈ segs, s ∈ T := fun s h => (hk s h).1
    cases segs with
    | nil => rfl
    | cons seg0 segRest =>
      have hvs := within_values hts
      have h0 : seg0 ∈ T := hsT seg0 (by simp)
      simp only []
      rw [findAttrpathLeaf_agree hA ts _ hts hsT, findAttrpathRoot_agree hA hvs h0,
        findBinding_agree hA hvs h0, removeAttrpathValue_agree hA ts _ hts hsT,
        setDelItem_agree hA ts seg0 hts h0]
      split
      · rfl
      · split
        · rfl
        · split
          · rfl
          · apply resolveParentWalk_agree hA false _
              (fun k h => hk k (mem_of_mem_dropLast' _ _ h)) ts hts
            intro parent hparent
            cases hlast : (seg0 :: segRest).getLast? with
            | none => rfl
            | some finalKey =>
              exact setDelItem_agree hA parent finalKey hparent (hsT _ (getLast?_mem hlast))

/-- the tokens of the target set and of every scope layer are in `T` -/
structure DocWithin (T : List Text) (d : Doc) : Prop where
  target : Within T d.target
  scope : WithinL T d.scope
  stack : ∀ l ∈ d.stack, WithinL T l.scope

omit hA in
theorem within_layerAsSet {sid : Nat} {l : Layer} (h : WithinL T l.scope) : Within T (layerAsSet sid l) := by
  intro t ht
  exact h t (by simpa [layerAsSet, toks] using ht)

omit hA in
theorem collect_within {d : Doc} (hd : DocWithin T d) : ∀ l ∈ collectScopeLayers d, WithinL T l.scope := by
  intro l hl
  unfold collectScopeLayers at hl
  rcases List.mem_append.mp hl with h | h
  · split at h
    · cases h
    · simp only [List.mem_singleton] at h
      subst h
      exact hd.scope
  · exact hd.stack l (List.mem_filter.mp h).1

omit hA in
theorem onLayer_congr (layers : List Layer) (fd : Bool) (idx : Nat) (op1 op2 : Node → EditM Unit)
    (h : ∀ l, layers[idx]? = some l → ∀ sid, op1 (layerAsSet sid l) = op2 (layerAsSet sid l)) :
    onLayer layers fd idx op1 = onLayer layers fd idx op2 := by
  apply em_ext; intro d
  unfold onLayer
  cases hl : layers[idx]? with
  | none => rfl
  | some l => simp only [h l hl]

/-- the part of an NPath after its `@` scope selectors (`_split_scope_npath`) -/
def scopeRest (npath : Text) : Text := npath.drop (npath.takeWhile (· == '@')).length

omit hA in
theorem splitScopeNpath_rest (npath : Text) (depth : Nat) (rest : Text)
    (h : splitScopeNpath npath = .ok (some (depth, rest))) : rest = scopeRest npath := by
  unfold splitScopeNpath at h
  simp only [] at h
  split at h
  · cases h
  · split at h
    · cases h
    · simp only [Except.ok.injEq, Option.some.injEq, Prod.mk.injEq] at h
      exact h.2.symm

omit hA in
theorem splitScopeNpath_none (npath : Text) (h : splitScopeNpath npath = .ok none) :
    scopeRest npath = npath := by
  unfold splitScopeNpath at h
  simp only [] at h
  split at h
  · rename_i h0; simp [scopeRest, h0]
  · split at h <;> cases h

theorem onLayer_set_agree (layers : List Layer) (fd : Bool) (idx : Nat) (p : Text) (v : Node)
    (hl : ∀ l ∈ layers, WithinL T l.scope) (hp : PathOK T p) :
    onLayer layers fd idx (fun s => @setValueInAttrset I1 s false p v) =
      onLayer layers fd idx (fun s => @setValueInAttrset I2 s false p v) := by
  apply onLayer_congr
  intro l hget sid
  exact setValueInAttrset_agree hA _ false p v (within_layerAsSet (hl l (List.mem_of_getElem? hget))) hp

theorem onLayer_rm_agree (layers : List Layer) (fd : Bool) (idx : Nat) (p : Text)
    (hl : ∀ l ∈ layers, WithinL T l.scope) (hp : PathOK T p) :
    onLayer layers fd idx (fun s => @removeValueInAttrset I1 s p) =
      onLayer layers fd idx (fun s => @removeValueInAttrset I2 s p) := by
  apply onLayer_congr
  intro l hget sid
  exact removeValueInAttrset_agree hA _ p (within_layerAsSet (hl l (List.mem_of_getElem? hget))) hp

omit hA in
theorem resolveTarget_ok (d : Doc) (ts : Node) (h : resolveTarget d = .ok ts) : ts = d.target := by
  unfold resolveTarget at h
  split at h
  · cases h
  · cases h
  · injection h with h; exact h.symm

theorem setValue_agree (npath : Text) (value : ValueArg) (d : Doc)
    (hd : DocWithin T d) (hp : PathOK T (scopeRest npath)) :
    @setValue I1 npath value d = @setValue I2 npath value d := by
  unfold setValue
  cases value with
  | empty => rfl
  | invalid => rfl
  | one v =>
    simp only []
    split
    · rfl
    · rfl
    · cases hsp : splitScopeNpath npath with
      | error e => rfl
      | ok r =>
        cases r with
        | none =>
          simp only []
          cases ht : resolveTarget d with
          | error e => rfl
          | ok ts =>
            have hts : ts = d.target := resolveTarget_ok d ts ht
            subst hts
            simp only []
            rw [setValueInAttrset_agree hA d.target true npath v hd.target
              (by rw [← splitScopeNpath_none npath hsp]; exact hp)]
        | some dr =>
          obtain ⟨depth, rest⟩ := dr
          have hrest := splitScopeNpath_rest npath depth rest hsp
          subst hrest
          simp only []
          cases ht : resolveTarget d with
          | error e => rfl
          | ok ts =>
            have hts : ts = d.target := resolveTarget_ok d ts ht
            subst hts
            simp only []
            rw [setValueInAttrset_agree hA d.target true (scopeRest npath) v hd.target hp]
            by_cases hc : ((collectScopeLayers d).isEmpty && depth == 1) = true
            · simp only [if_pos hc]
              cases hfmt : formatNPath currentAnchor (scopeRest npath) with
              | error e => rfl
              | ok segs =>
                simp only []
                rw [pathExistsInAttrset_agree hA d.target segs hd.target (fun s h => (hp segs hfmt s h).1)]
                by_cases hpe : @pathExistsInAttrset I2 d.target segs = true
                · simp only [if_pos hpe]
                · simp only [if_neg hpe]
                  rw [onLayer_set_agree hA _ false _ (scopeRest npath) v
                    (by intro l hl; simp only [List.mem_singleton] at hl; subst hl; intro t ht; simp [toksL] at ht) hp]
            · simp only [if_neg hc]
              rw [onLayer_set_agree hA _ true _ (scopeRest npath) v (collect_within hd) hp]

set_option maxHeartbeats 1000000 in
theorem removeValue_agree (npath : Text) (d : Doc)
    (hd : DocWithin T d) (hp : PathOK T (scopeRest npath)) :
    @removeValue I1 npath d = @removeValue I2 npath d := by
  unfold removeValue
  split
  · rfl
  · rfl
  · cases hsp : splitScopeNpath npath with
    | error e => rfl
    | ok r =>
      cases r with
      | some dr =>
        obtain ⟨depth, rest⟩ := dr
        have hrest := splitScopeNpath_rest npath depth rest hsp
        subst hrest
        have e := onLayer_rm_agree hA (collectScopeLayers d) true ((collectScopeLayers d).length - depth)
          (scopeRest npath) (collect_within hd) hp
        simp only []
        rw [e]
      | none =>
        have hp' : PathOK T npath := by rw [← splitScopeNpath_none npath hsp]; exact hp
        simp only []
        cases ht : resolveTarget d with
        | error e => rfl
        | ok ts =>
          have hts : ts = d.target := resolveTarget_ok d ts ht
          subst hts
          simp only []
          cases hf : formatNPath currentAnchor npath with
          | error e => rfl
          | ok segs =>
            have hk := hp' segs hf
            have hsT : ∀ s ∈ segs, s ∈ T := fun s h => (hk s h).1
            cases segs with
            | nil => rfl
            | cons seg0 segRest =>
              have hts := hd.target
              have hvs := within_values hts
              have h0 : seg0 ∈ T := hsT seg0 (by simp)
              simp only []
              rw [findAttrpathLeaf_agree hA d.target _ hts hsT, findAttrpathRoot_agree hA hvs h0,
                findBinding_agree hA hvs h0, removeAttrpathValue_agree hA d.target _ hts hsT,
                setDelItem_agree hA d.target seg0 hts h0]
              split
              · rfl
              · split
                · rfl
                · split
                  · rfl
                  · have := resolveParentWalk_agree hA false _
                      (fun k h => hk k (mem_of_mem_dropLast' _ _ h)) d.target hts
                      (fun parent => match (seg0 :: segRest).getLast? with
                        | none => (throw (.internal "IndexError") : EditM Unit)
                        | some finalKey => @setDelItem I1 parent finalKey)
                      (fun parent => match (seg0 :: segRest).getLast? with
                        | none => (throw (.internal "IndexError") : EditM Unit)
                        | some finalKey => @setDelItem I2 parent finalKey)
                      (by
                        intro parent hparent
                        cases hlast : (seg0 :: segRest).getLast? with
                        | none => rfl
                        | some finalKey =>
                          exact setDelItem_agree hA parent finalKey hparent (hsT _ (getLast?_mem hlast)))
                    exact congrFun this d

end

/-! ### the code's comparison against comparison by spelling -/

/-- no two tokens of `T` are different spellings of one name (decidable) -/
def NoSpellingClash (T : List Text) : Prop := ∀ a ∈ T, ∀ b ∈ T, sameName a b = true → a = b

instance (T : List Text) : Decidable (NoSpellingClash T) := by
  unfold NoSpellingClash; infer_instance

theorem agree_of_noSpellingClash {T : List Text} (h : NoSpellingClash T) :
    Agree NameCmp.model NameCmp.spelled T := by
  intro a ha b hb
  show sameName a b = (a == b)
  by_cases hab : a = b
  · subst hab; simp [sameName_refl]
  · have e : (a == b) = false := by simpa using hab
    rw [e]
    cases hs : sameName a b with
    | false => rfl
    | true => exact absurd (h a ha b hb hs) hab

/-- the name tokens of a document: target set and scope layers -/
def docToks (d : Doc) : List Text :=
  toks d.target ++ (toksL d.scope ++ d.stack.flatMap (fun l => toksL l.scope))

/-- a key and, where `AttributeSet.__getitem__` reads it as a dotted path, its segments -/
def keyToks (k : Text) : List Text :=
  k :: (match splitAttrpath k with | .ok segs => segs | .error _ => [])

/-- the keys `set`/`rm` make of a path text -/
def pathToks (npath : Text) : List Text :=
  match formatNPath currentAnchor (scopeRest npath) with
  | .ok segs => segs.flatMap keyToks
  | .error _ => []

/-- THE side condition under which the by-spelling theorems speak of the repaired code: among the
    name tokens of the document and the keys of the path, no two are different spellings of one
    Nix name. Decidable; true of every input on which the code before the repair of C12-spelling
    did what Nix expects. -/
def noSpellingClash (d : Doc) (npath : Text) : Prop := NoSpellingClash (docToks d ++ pathToks npath)

instance (d : Doc) (npath : Text) : Decidable (noSpellingClash d npath) := by
  unfold noSpellingClash; infer_instance

theorem docWithin_docToks (d : Doc) (X : List Text) : DocWithin (docToks d ++ X) d := by
  refine ⟨?_, ?_, ?_⟩
  · intro t ht; simp [docToks, ht]
  · intro t ht; simp [docToks, ht]
  · intro l hl t ht
    simp only [docToks, List.mem_append, List.mem_flatMap]
    exact Or.inl (Or.inr (Or.inr ⟨l, hl, ht⟩))

theorem keyOK_keyToks (k : Text) (Tk : List Text) (h : ∀ t ∈ keyToks k, t ∈ Tk) : KeyOK Tk k := by
  refine ⟨h k (by simp [keyToks]), ?_⟩
  intro segs hsp s hs
  exact h s (by simp [keyToks, hsp, hs])

theorem pathOK_pathToks (npath : Text) (X : List Text) : PathOK (X ++ pathToks npath) (scopeRest npath) := by
  intro segs hf s hs
  apply keyOK_keyToks
  intro t ht
  simp only [List.mem_append, pathToks, hf, List.mem_flatMap]
  exact Or.inr ⟨s, hs, ht⟩

/-- `set_value` of the repaired code is `set_value` with comparison by spelling wherever there is
    no spelling clash. -/
theorem setValue_model_eq_spelled (npath : Text) (value : ValueArg) (d : Doc)
    (h : noSpellingClash d npath) :
    @setValue NameCmp.model npath value d = @setValue NameCmp.spelled npath value d :=
  setValue_agree (agree_of_noSpellingClash h) npath value d (docWithin_docToks d _) (pathOK_pathToks npath _)

/-- the same for `remove_value` -/
theorem removeValue_model_eq_spelled (npath : Text) (d : Doc) (h : noSpellingClash d npath) :
    @removeValue NameCmp.model npath d = @removeValue NameCmp.spelled npath d :=
  removeValue_agree (agree_of_noSpellingClash h) npath d (docWithin_docToks d _) (pathOK_pathToks npath _)

/-- the mapping API on one set object -/
theorem mapping_model_eq_spelled (s : Node) (key : Text) (v : Node)
    (h : NoSpellingClash (toks s ++ keyToks key)) :
    @setGetItem NameCmp.model s key = @setGetItem NameCmp.spelled s key ∧
    @setSetItem NameCmp.model s key v = @setSetItem NameCmp.spelled s key v ∧
    @setDelItem NameCmp.model s key = @setDelItem NameCmp.spelled s key := by
  have hA := agree_of_noSpellingClash h
  have hs : Within (toks s ++ keyToks key) s := fun t ht => by simp [ht]
  have hk : KeyOK (toks s ++ keyToks key) key := keyOK_keyToks key _ (fun t ht => by simp [ht])
  exact ⟨setGetItem_agree hA s key hs hk, setSetItem_agree hA s key v hs hk.1, setDelItem_agree hA s key hs hk.1⟩

/-! non-vacuity: the side condition is decided on closed inputs, and fails exactly on the repaired
defect's inputs -/

/-- `{ a = 1; "c d" = 2; }` -/
def exDoc : Doc :=
  { target := .set 0 [.bind 1 "a".toList false (.atom "1".toList) [] [],
                      .bind 2 "\"c d\"".toList false (.atom "2".toList) [] []] [] true false }

example : ¬ noSpellingClash exDoc "\"a\"".toList := by decide
example : NoSpellingClash (["a", "\"c d\"", "b", "\"x y\"", "foo-bar", "\"a${x}\"", "\"a\\${x}\""].map String.toList) := by
  decide
example : ¬ NoSpellingClash (["a", "\"a\""].map String.toList) := by decide
example : ¬ NoSpellingClash (["foo-bar", "\"foo-bar\""].map String.toList) := by decide
example : ¬ NoSpellingClash (["\"c d\"", "\"c\\ d\""].map String.toList) := by decide

end Nima.NameAgree
