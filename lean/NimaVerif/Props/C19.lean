import NimaVerif.Model.Edit
/-! # C19 — placeholder until the theorems are in. -/
namespace Nima.C19
theorem updBind_idem (id : Nat) (v : Node) (d : Doc) : (d.updBind id v).next = d.next := rfl
end Nima.C19
