import NimaVerif.Model.Edit
/-! # C04 — placeholder until the theorems are in. -/
namespace Nima.C04
theorem updBind_other (id i : Nat) (n : Text) (ne : Bool) (v val : Node) (b a : Payload) (h : i ≠ id) :
    Node.updBind id v (.bind i n ne val b a) = .bind i n ne (Node.updBind id v val) b a := by
  simp [Node.updBind, h]
end Nima.C04
