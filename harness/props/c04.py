"""C04 — an edit touches only the binding it addresses."""
from __future__ import annotations

from .. import editcorr as ec
from .. import editprops as ep
from .. import framework as fw
from ..gen import docs
from ..oracle import cstread
from .c05 import is_ident_leaf

GEN_TABLES = ()


def toks(text: str):
    """(text, start, end, is_comment) of every leaf"""
    b = text.encode("utf-8")
    root = cstread.ts_parse(text)
    return [(b[n.start_byte:n.end_byte].decode("utf-8", "replace"), n.start_byte, n.end_byte, n.type == "comment")
            for n in cstread.leaves(root) if n.end_byte > n.start_byte]


def find_binding_node(text: str, names: list[str], scoped_depth: int = 0):
    """The CST `binding` node an NPath addresses in `text` (None if there is none), together with
    the container (`binding_set` parent) — through attrpaths and explicit nested sets."""
    root = cstread.ts_parse(text)
    tgt = cstread.find_target(root)
    if tgt is None:
        return None
    if scoped_depth:
        node = tgt
        lets = []
        while node.parent is not None and node.parent.type == "let_expression" and \
                node.parent.child_by_field_name("body") == node:
            lets.append(node.parent)
            node = node.parent
        if scoped_depth > len(lets):
            return None
        container = lets[scoped_depth - 1]
    else:
        container = tgt

    def search(cont, names):
        bs = [c for c in cont.named_children if c.type == "binding_set"]
        for b in (bs[0].named_children if bs else []):
            if b.type != "binding":
                continue
            ap = b.child_by_field_name("attrpath")
            dn = [cstread.attr_name(a) for a in ap.named_children if a.type != "comment"]
            if dn == names:
                return b
            if len(dn) < len(names) and dn == names[: len(dn)]:
                val = b.child_by_field_name("expression")
                if val.type in ("attrset_expression", "rec_attrset_expression"):
                    r = search(val, names[len(dn):])
                    if r is not None:
                        return r
        return None

    return search(container, names)


def attached_comment_range(text: str, b):
    """candidate byte ranges of 'the binding with the comments attached to it': the binding alone,
    extended by own-line comments directly above it (each variant), and/or by an end-of-line comment
    on the line of its `;` — found on the token sequence (comments are CST extras and may hang
    off a different parent)."""
    bts = text.encode("utf-8")

    def row(off):
        return bts.count(b"\n", 0, off)

    tl = toks(text)
    first = next(k for k, t in enumerate(tl) if t[1] >= b.start_byte)
    last = max(k for k, t in enumerate(tl) if t[2] <= b.end_byte)
    starts = [b.start_byte]
    k = first - 1
    nxt_row = row(tl[first][1])
    while k >= 0 and tl[k][3]:
        c_row_end = row(tl[k][2])
        own_line = c_row_end < nxt_row and (k == 0 or row(tl[k - 1][2]) < row(tl[k][1]))
        if not own_line:
            break
        starts.append(tl[k][1])
        nxt_row = row(tl[k][1])
        k -= 1
    ends = [b.end_byte]
    if last + 1 < len(tl) and tl[last + 1][3] and row(tl[last + 1][1]) == row(b.end_byte):
        ends.append(tl[last + 1][2])
    return [(s, e) for s in starts for e in ends]


def sibling_named(text: str, name: str) -> bool:
    """does the target set itself have a binding (or a dotted family) of that name?"""
    tree = ep.safe_tree(text)
    return isinstance(tree, dict) and name in tree


def multiline_target(text: str) -> bool:
    tgt = cstread.find_target(cstread.ts_parse(text))
    if tgt is None or tgt.start_point[0] == tgt.end_point[0]:
        return False
    # at least one item, each on its own line
    bs = [c for c in tgt.named_children if c.type == "binding_set"]
    return bool(bs) and bs[0].start_point[0] > tgt.start_point[0]


def observe(ctx: fw.Ctx, hists):
    for h in hists:
        if h.parse_error:
            continue
        ctx.case({"doc": h.text, "ops": [list(r.op) for r in h.recs]}, any(r.result == "ok" for r in h.recs))
        for r in h.recs:
            if r.result != "ok":
                continue
            check(ctx, h, r)


def check(ctx, h, r):
    path = r.op[1]
    depth = len(path) - len(path.lstrip("@"))
    rest = path[depth:]
    before, out = r.before_text, r.out
    root = cstread.ts_parse(before)
    if root.has_error or cstread.find_target(root) is None or not cstread.error_free(out):
        return
    try:
        names = ep.split_path(rest)
    except Exception:  # noqa: BLE001
        return
    inp = {"doc": h.text, "ops": [list(x.op) for x in h.recs], "at": list(r.op), "before": before, "output": out,
           "stream": h.info.get("stream")}
    from .c05 import family_of

    if r.op[0] == "set" and ("#" in r.op[2] or "/*" in r.op[2]):
        return  # the VALUE carries a comment: where the renderer places it is C03/C06's business
    key0 = {"op": r.op[0], "path": ep.shape_of_path(path), "wrapper": h.info.get("wrapper"),
            "family": family_of(names, before) if not depth else "none"}
    if not depth:
        mixed_roots = ep.attrpath_prefixes_of(before, "mixed")
        if any(tuple(names[:k]) in mixed_roots for k in range(1, len(names) + 1)):
            key0["mixed"] = True
        if ep.quoted_identifier_segment(rest):
            key0["quoted_ident"] = True
    tb = [t for t in toks(before)]
    ta = [t for t in toks(out)]
    if depth:
        # a let-wrapped call argument must be parenthesised (`f (let … in { })`): the pair of
        # parentheses directly around a `let` belongs to the layer, not to the surrounding expression
        tb = [t for t in tb if t[0] not in ("(", ")")]
        ta = [t for t in ta if t[0] not in ("(", ")")]
    sb = [t[0] for t in tb]
    sa = [t[0] for t in ta]
    b = find_binding_node(before, names, depth)
    if b is None and depth == 1 and r.op[0] == "set" and find_binding_node(before, names, 1) is None:
        from .c09 import adjacent_layers

        if (adjacent_layers(before) or 0) == 0:
            # tested behaviour: with no let layer, `@path` naming an existing binding of the set edits it
            b = find_binding_node(before, names, 0)
    canonical = canonical_doc(before)
    if r.op[0] == "set":
        if b is not None:
            val = b.child_by_field_name("expression")
            vtext = before.encode()[val.start_byte:val.end_byte].decode()
            if is_ident_leaf(" ".join(vtext.split())):
                # edit through a reference: the addressed binding is the one that DEFINES the name (C11 says
                # which); C04's clause is that everything outside that binding's value keeps its tokens
                from . import c11

                if depth:
                    return
                res = c11.resolve(val, vtext.strip())
                if res[0] not in ("binding", "unbound"):
                    return
                tv = res[1].child_by_field_name("expression") if res[0] == "binding" else val
                newv = [t[0] for t in toks(r.op[2])]
                # either the defining binding or the binding at the path itself is "the addressed binding" for
                # C04 (which of the two it has to be is C11's question); anything else is a foreign write
                cands = [[t[0] for t in tb if t[2] <= x.start_byte] + newv + [t[0] for t in tb if t[1] >= x.end_byte]
                         for x in (tv, val)]
                if sa not in cands:
                    sib = sibling_named(before, vtext.strip())
                    ctx.fail({"clause": "reference-locality", **key0, "resolves": res[0], "binder": c11.binder_kind(res),
                              "separated": c11.separated(res, before), "binder_value": c11.binder_value(res),
                              "nested": len(names) > 1, **({"sibling": True} if sib else {})}, inp,
                             f"{r.op!r} through the reference {vtext.strip()!r}: tokens outside the value of the defining "
                             f"binding changed: {before!r} -> {out!r}")
                return
            # replace: tokens outside the value extent are unchanged, in place
            pre = [t[0] for t in tb if t[2] <= val.start_byte]
            post = [t[0] for t in tb if t[1] >= val.end_byte]
            newv = [t[0] for t in toks(r.op[2])]
            if sa != pre + newv + post:
                extra = {}
                if r is not h.recs[0] and fresh_parse_output(before, r.op) not in (None, out):
                    # the same operation on a fresh parse of the text the live document shows behaves
                    # differently: the live object graph has diverged from its own rendering (a history effect)
                    extra = {"live": "diverged-from-text"}
                ctx.fail({"clause": "replace-locality", **key0, **extra}, inp,
                         f"{r.op!r}: tokens outside the value of the addressed binding changed: {before!r} -> {out!r}")
                return
            if canonical and "\n" not in vtext and "\n" not in r.op[2].strip():
                want = before.encode()[:val.start_byte].decode() + r.op[2].strip() + before.encode()[val.end_byte:].decode()
                if out != want and " ".join(r.op[2].split()) == r.op[2].strip():
                    ctx.fail({"clause": "replace-bytes", **key0}, {**inp, "expected": want},
                             f"{r.op!r} on canonical {before!r}: expected {want!r}, got {out!r}")
        else:
            # insertion: the output is the input with one contiguous block of tokens inserted
            n = len(sa) - len(sb)
            ok = False
            if n > 0:
                for k in range(len(sb) + 1):
                    if sa[:k] == sb[:k] and sa[k + n:] == sb[k:]:
                        ok = True
                        break
            if not ok:
                ctx.fail({"clause": "insert-locality", **key0, "existing": existing_kind(before, names, depth)}, inp,
                         f"{r.op!r}: the output is not the input plus one inserted block: {before!r} -> {out!r}")
                return
            if canonical and not (depth and h.info.get("wrapper") in docs.CALL_WRAPPERS + ("lambda-call-paren", "paren")):
                # byte level: common prefix + inserted text + common suffix
                p = 0
                while p < len(before) and p < len(out) and before[p] == out[p]:
                    p += 1
                q = 0
                while q < len(before) - p and q < len(out) - p and before[len(before) - 1 - q] == out[len(out) - 1 - q]:
                    q += 1
                # (whitespace next to the insertion point may be re-laid out, e.g. `{ }` -> `{\n  …\n}`)
                if p + q < len(before) and before[p: len(before) - q].strip() != "":
                    ctx.fail({"clause": "insert-bytes", **key0}, inp,
                             f"{r.op!r} on canonical {before!r}: bytes outside the inserted text changed: {out!r}")
                elif not depth and len(names) == 1 and multiline_target(before):
                    # "the inserted binding line": into a set written one binding per line, whole lines are
                    # inserted at a line boundary; no existing line is split or joined with the new text
                    lb, la = before.splitlines(keepends=True), out.splitlines(keepends=True)
                    nl = len(la) - len(lb)
                    if not (nl > 0 and any(la[:k] == lb[:k] and la[k + nl:] == lb[k:] for k in range(len(lb) + 1))):
                        ctx.fail({"clause": "insert-lines", **key0}, inp,
                                 f"{r.op!r} on canonical {before!r}: the new binding is not inserted as whole line(s), an "
                                 f"existing line was split or changed: {out!r}")
    else:
        if b is None:
            return
        ok = False
        for (s, e) in attached_comment_range(before, b):
            kept = [t[0] for t in tb if t[2] <= s or t[1] >= e]
            variants = [kept]
            # a removed last binding takes its let/in (scoped) or its emptied attrpath parents' nothing else
            if depth:
                lk = [x for x in kept]
                variants.append(drop_let_in(tb, s, e))
            if any(sa == v for v in variants if v is not None):
                ok = True
                break
        if not ok:
            # is the removed binding the last item, followed by own-line comments before the closer?
            tl = toks(before)
            after_b = [t for t in tl if t[1] >= b.end_byte]
            row_b = before.encode("utf-8").count(b"\n", 0, b.end_byte)
            own = [t for t in after_b if t[3] and before.encode("utf-8").count(b"\n", 0, t[1]) > row_b]
            nxt_code = next((t for t in after_b if not t[3]), None)
            if own and nxt_code is not None and nxt_code[0] in ("}", "in") and own[0][1] < nxt_code[1]:
                key0 = {**key0, "closing_comments": True}
            ctx.fail({"clause": "remove-locality", **key0}, inp,
                     f"{r.op!r}: the output is not the input minus the addressed binding (and its comments): "
                     f"{before!r} -> {out!r}")


def fresh_parse_output(text: str, op):
    """what the operation yields on a fresh parse of `text` (None if it raises)"""
    from nix_manipulator import parse
    from nix_manipulator.cli import manipulations as M

    try:
        src = parse(text)
        return M.set_value(src, op[1], op[2]) if op[0] == "set" else M.remove_value(src, op[1])
    except Exception:  # noqa: BLE001
        return None


def strip_let_parens(tl):
    out = list(tl)
    k = 0
    while k < len(out) - 1:
        if out[k][0] == "(" and out[k + 1][0] == "let":
            depth = 0
            for m in range(k, len(out)):
                if out[m][0] == "(":
                    depth += 1
                elif out[m][0] == ")":
                    depth -= 1
                    if depth == 0:
                        del out[m]
                        del out[k]
                        break
            else:
                k += 1
        else:
            k += 1
    return out


def drop_let_in(tb, s, e):
    """tokens minus the binding [s,e) minus the `let` directly before and the `in` directly after it
    (the layer disappears with its last binding); None if the neighbours are not let/in"""
    idx = [i for i, t in enumerate(tb) if not (t[2] <= s or t[1] >= e)]
    if not idx:
        return None
    i0, i1 = idx[0], idx[-1]
    if i0 - 1 >= 0 and tb[i0 - 1][0] == "let" and i1 + 1 < len(tb) and tb[i1 + 1][0] == "in":
        return [t[0] for k, t in enumerate(tb) if k < i0 - 1 or k > i1 + 1]
    return None


def existing_kind(before, names, depth):
    t = ep.safe_tree(before)
    if t is None or isinstance(t, tuple) or depth:
        return "n/a"
    ex = ep.tree_get(t, names)
    return "absent" if ex is None else ("set" if isinstance(ex, dict) else "leaf")


_CANON: dict[str, bool] = {}


def canonical_doc(text: str) -> bool:
    from nix_manipulator import parse

    if text not in _CANON:
        try:
            _CANON[text] = parse(text).rebuild() == text
        except Exception:  # noqa: BLE001
            _CANON[text] = False
    return _CANON[text]


def run(ctx: fw.Ctx):
    ctx.extra["rule"] = (
        "successful set/rm operations of generated histories (same stream as C05); oracle on token sequences taken "
        "from the INPUT and OUTPUT CSTs: replace = input with the value's tokens swapped, insert = input plus one "
        "contiguous block, remove = input minus the binding and the comments attached to it (and the let/in of an "
        "emptied layer); byte-level for canonical (fixed-point) inputs; non-trivial = document with >= 2 items"
    )
    ctx.trusted_base = [
        "Lean 4 kernel; axioms propext, Classical.choice, Quot.sound only",
        "edit model Model/Edit.lean tied by correspondence (updates are by object identity, so other bindings are untouched)",
        "tree-sitter-nix token extents of input and output",
    ]
    ctx.assumptions = ["edits through identifier references are decided by C11",
                       "'canonical' is judged operationally (fixed point of parse/rebuild)"]
    stride, nrand, maxops = (3, 800, 8) if ctx.quick else (1, 12000, 30)
    hists = ep.build_stream(ctx, stride, nrand, maxops, enum_offset=3)
    hists += call_argument_histories()
    ec.correspond(ctx, hists)
    observe(ctx, hists)


def call_argument_histories():
    """sixth widening (after seeded round 6): the addressed set is the LAST argument of a curried call whose
    earlier argument is itself an attribute set, or a function that returns one — an edit lands in the
    addressed argument, also when that argument is `{ }` (C04 only: the shared stream is unchanged)"""
    out = []
    for doc in ["mk { a = 1; b = 2; } { }\n", "mk { a = 1; b = 2; } { c = 3; }\n",
                "{ pkgs }:\npkgs.callPackage ({ stdenv }: stdenv.mkDerivation { pname = \"x\"; version = \"1.0\"; }) { }\n",
                "callPackage (x: { a = 1; }) { }\n", "(mk { a = 1; }) { }\n"]:
        for ops in ([("set", "a", "10")], [("set", "version", '"2.0"')], [("rm", "b")], [("rm", "a")],
                    [("set", "zz", "7"), ("rm", "zz")], [("set", "a", "10"), ("set", "a", "11")]):
            out.append(ec.run_real(doc, ops, {"wrapper": "call-after-set-argument", "class": "editable", "stream": "special-c04"}))
    return out


def search(ctx: fw.Ctx):
    observe(ctx, ep.build_stream(ctx, 1, 3000, 12, enum_offset=1))


def replay(payload: dict) -> int:
    inp = payload["input"]
    h = ec.run_real(inp["doc"], [tuple(o) for o in inp.get("ops", [])], {})
    ctx = fw.Ctx("C04", "quick", 0)
    observe(ctx, [h])
    for f in ctx.failures:
        print("FAIL", f["what"])
    return 1 if ctx.failures else 0
