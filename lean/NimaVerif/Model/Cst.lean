import NimaVerif.Model.Trivia
import NimaVerif.Model.AttrPath
/-!
L3: the input type of the container fragment — a concrete-syntax tree in which every gap is an
explicit whitespace `Text` and comments are items. It is what tree-sitter delivers for

    source_code   : (gap comment)* gap expr (gap comment)* endGap
    expr          : leaf | `[` items closeGap `]` | [`rec` recGap] `{` items closeGap `}`
                  | `(` items closeGap `)`            (comments and exactly one expression)
                  | expr (gap comment)* gap expr      (function application)
                  | (`with` | `assert`) (gap comment)* gap expr (gap comment)* gap `;` (gap comment)* gap expr
                  | expr gap operator gap expr      (binary operator)
                  | (`!` | `-`) (gap comment)* gap expr      (unary operator)
                  | name (gap comment)* gap `:` gap expr      (lambda with an identifier argument)
                  | expr (gap comment)* gap `.` gap name (`.` name)* [(gap comment)* gap `or` gap expr]      (select)
                  | `if` (gap comment)* gap expr (gap comment)* gap `then` (gap comment)* gap expr
                      (gap comment)* gap `else` (gap comment)* gap expr      (if / then / else)
                  | expr (gap comment)* gap `?` (gap comment)* gap name (`.` name)*      (has-attr)
    list items    : (gap comment | gap expr)*
    set items     : (gap comment | gap binding)*
    binding       : name (gap comment)* gap `=` (gap comment)* gap expr (gap comment)* gap `;`

(`harness/cstdump.py` builds it from the real tree-sitter tree and checks `flatten cst = text` on
every sample — the parser contract). Positions are never stored: everything the Python code reads
from `start_byte` / `end_byte` / `start_point.row` / `end_point.row` is a function of the gaps
(two neighbouring nodes are on the same row iff the gap between them contains no line break).
Core Lean only.
-/
namespace Nima.Frag

inductive LeafKind where
  | ident   -- variable_expression (identifier, `true`, `false`, `null`)
  | int     -- integer_expression
  | float   -- float_expression
  | str     -- string_expression `"…"`
  | path    -- path_expression / hpath_expression / spath_expression
deriving DecidableEq, Repr

/-- a run of comments, each with the whitespace gap in front of it: `(gap, comment token)` -/
abbrev GC := List (Text × Text)

mutual
inductive Cst where
  | leaf (k : LeafKind) (t : Text)
  /-- `[` items closeGap `]` -/
  | list (items : Items) (closeGap : Text)
  /-- [`rec` recGap] `{` items closeGap `}` -/
  | set (isRec : Bool) (recGap : Text) (items : Items) (closeGap : Text)
  /-- `(` items closeGap `)` — `parenthesized_expression`: comments and exactly one expression -/
  | paren (items : Items) (closeGap : Text)
  /-- function (gap comment)* gap argument — `apply_expression` -/
  | app (f : Cst) (cs : GC) (g : Text) (a : Cst)
  /-- `with` c1 g1 environment c2 g2 `;` c3 g3 body — `with_expression` (`isWith`), or
      `assert` c1 g1 condition c2 g2 `;` c3 g3 body — `assert_expression` -/
  | kw (isWith : Bool) (c1 : GC) (g1 : Text) (head : Cst) (c2 : GC) (g2 : Text) (c3 : GC) (g3 : Text) (body : Cst)
  /-- expression c1 g1 `.` gd a₁ `.` a₂ … — `select_expression` without `or` default; the attrpath holds
      no whitespace (`attrs`: its segments, separated by `.`) -/
  | sel (e : Cst) (c1 : GC) (g1 : Text) (gd : Text) (attrs : List Text)
  /-- expression c1 g1 `.` gd attrpath c2 g2 `or` g3 default — `select_expression` with `or` default -/
  | selOr (e : Cst) (c1 : GC) (g1 : Text) (gd : Text) (attrs : List Text) (c2 : GC) (g2 : Text) (g3 : Text) (d : Cst)
  /-- name c1 g1 `:` c2 g2 body — `function_expression` with an identifier argument (no formals) -/
  | lam (name : Text) (c1 : GC) (g1 : Text) (c2 : GC) (g2 : Text) (body : Cst)
  /-- operator c g operand — `unary_expression` (`!`, `-`) -/
  | un (op : Text) (c : GC) (g : Text) (e : Cst)
  /-- left c1 g1 operator c2 g2 right — `binary_expression` -/
  | bin (l : Cst) (c1 : GC) (g1 : Text) (op : Text) (c2 : GC) (g2 : Text) (r : Cst)
  /-- `if` c1 g1 condition c2 g2 `then` c3 g3 consequence c4 g4 `else` c5 g5 alternative — `if_expression` -/
  | ite (c1 : GC) (g1 : Text) (cond : Cst) (c2 : GC) (g2 : Text) (c3 : GC) (g3 : Text) (thn : Cst)
      (c4 : GC) (g4 : Text) (c5 : GC) (g5 : Text) (els : Cst)
  /-- expression c1 g1 `?` c2 g2 a₁ `.` a₂ … — `has_attr_expression`; the attrpath holds no whitespace -/
  | has (e : Cst) (c1 : GC) (g1 : Text) (c2 : GC) (g2 : Text) (attrs : List Text)
inductive Items where
  | nil
  /-- gap, comment token -/
  | cmt (gap : Text) (t : Text) (rest : Items)
  /-- gap, element of a list / the top-level expression -/
  | elem (gap : Text) (c : Cst) (rest : Items)
  /-- gap name c1 g1 `=` c2 g2 value c3 g3 `;` -/
  | bind (gap : Text) (name : Text) (c1 : GC) (g1 : Text) (c2 : GC) (g2 : Text) (v : Cst)
      (c3 : GC) (g3 : Text) (rest : Items)
end

/-- a whole file: the children of `source_code` and the whitespace after the last one -/
structure File where
  items : Items
  endGap : Text

/-! ### flatten: the text the tree was parsed from -/

def flattenGC (cs : GC) : Text := cs.flatMap fun p => p.1 ++ p.2

/-- `a₁.a₂.….aₙ` -/
def attrText : List Text → Text
  | [] => []
  | [a] => a
  | a :: rest => a ++ '.' :: attrText rest

/-- the keyword token of a `kw` node -/
def kwText (isWith : Bool) : Text := if isWith then ['w', 'i', 't', 'h'] else ['a', 's', 's', 'e', 'r', 't']

mutual
def Cst.flatten : Cst → Text
  | .leaf _ t => t
  | .list its cg => '[' :: its.flatten ++ cg ++ [']']
  | .set r rg its cg => (if r then ['r', 'e', 'c'] ++ rg else []) ++ '{' :: its.flatten ++ cg ++ ['}']
  | .paren its cg => '(' :: its.flatten ++ cg ++ [')']
  | .app f cs g a => f.flatten ++ flattenGC cs ++ g ++ a.flatten
  | .kw w c1 g1 h c2 g2 c3 g3 b =>
    kwText w ++ flattenGC c1 ++ g1 ++ h.flatten ++ flattenGC c2 ++ g2 ++ ';' :: flattenGC c3 ++ g3 ++ b.flatten
  | .sel e c1 g1 gd attrs => e.flatten ++ flattenGC c1 ++ g1 ++ '.' :: gd ++ attrText attrs
  | .selOr e c1 g1 gd attrs c2 g2 g3 d =>
    e.flatten ++ flattenGC c1 ++ g1 ++ '.' :: gd ++ attrText attrs ++ flattenGC c2 ++ g2 ++ ['o', 'r'] ++ g3 ++ d.flatten
  | .lam n c1 g1 c2 g2 b => n ++ flattenGC c1 ++ g1 ++ ':' :: flattenGC c2 ++ g2 ++ b.flatten
  | .un op c g e => op ++ flattenGC c ++ g ++ e.flatten
  | .bin l c1 g1 op c2 g2 r => l.flatten ++ flattenGC c1 ++ g1 ++ op ++ flattenGC c2 ++ g2 ++ r.flatten
  | .ite c1 g1 c c2 g2 c3 g3 t c4 g4 c5 g5 e =>
    ['i', 'f'] ++ flattenGC c1 ++ g1 ++ c.flatten ++ flattenGC c2 ++ g2 ++ ['t', 'h', 'e', 'n'] ++ flattenGC c3 ++ g3 ++
      t.flatten ++ flattenGC c4 ++ g4 ++ ['e', 'l', 's', 'e'] ++ flattenGC c5 ++ g5 ++ e.flatten
  | .has e c1 g1 c2 g2 attrs => e.flatten ++ flattenGC c1 ++ g1 ++ '?' :: flattenGC c2 ++ g2 ++ attrText attrs
def Items.flatten : Items → Text
  | .nil => []
  | .cmt g t rest => g ++ t ++ rest.flatten
  | .elem g c rest => g ++ c.flatten ++ rest.flatten
  | .bind g n c1 g1 c2 g2 v c3 g3 rest =>
    g ++ n ++ flattenGC c1 ++ g1 ++ '=' :: flattenGC c2 ++ g2 ++ v.flatten ++ flattenGC c3 ++ g3 ++
      ';' :: rest.flatten
end

def File.flatten (f : File) : Text := f.items.flatten ++ f.endGap

/-- the text between the opening token and the first expression of an item sequence (comments
    included): what `gap_between(node, open_paren, value_node)` returns -/
def Items.preElem : Items → Text
  | .nil => []
  | .cmt g t rest => g ++ t ++ rest.preElem
  | .elem g _ _ => g
  | .bind .. => []

/-- the text between the first expression of an item sequence and the end of the sequence -/
def Items.postElem : Items → Text
  | .nil => []
  | .cmt _ _ rest => rest.postElem
  | .elem _ _ rest => rest.flatten
  | .bind .. => []

/-! ### code tokens and comments, in document order (SPEC side: read off the tree) -/

/-- one lexical item of the input -/
inductive Lex where
  | tok (s : Text)
  | cmt (s : Text)
deriving DecidableEq, Repr

def lexGC (cs : GC) : List Lex := cs.map fun p => .cmt p.2

/-- the tokens of `.a₁.a₂.….aₙ` -/
def attrLex : List Text → List Lex
  | [] => []
  | a :: rest => .tok ['.'] :: .tok a :: attrLex rest

/-- the tokens of `a₁.a₂.….aₙ` -/
def attrLex0 : List Text → List Lex
  | [] => []
  | a :: rest => .tok a :: attrLex rest

mutual
def Cst.lex : Cst → List Lex
  | .leaf _ t => [.tok t]
  | .list its _ => .tok ['['] :: its.lex ++ [.tok [']']]
  | .set r _ its _ => (if r then [.tok ['r', 'e', 'c']] else []) ++ .tok ['{'] :: its.lex ++ [.tok ['}']]
  | .paren its _ => .tok ['('] :: its.lex ++ [.tok [')']]
  | .app f cs _ a => f.lex ++ lexGC cs ++ a.lex
  | .kw w c1 _ h c2 _ c3 _ b => .tok (kwText w) :: lexGC c1 ++ h.lex ++ lexGC c2 ++ .tok [';'] :: lexGC c3 ++ b.lex
  | .sel e c1 _ _ attrs => e.lex ++ lexGC c1 ++ attrLex attrs
  | .selOr e c1 _ _ attrs c2 _ _ d => e.lex ++ lexGC c1 ++ attrLex attrs ++ lexGC c2 ++ .tok ['o', 'r'] :: d.lex
  | .lam n c1 _ c2 _ b => .tok n :: lexGC c1 ++ .tok [':'] :: lexGC c2 ++ b.lex
  | .un op c _ e => .tok op :: lexGC c ++ e.lex
  | .bin l c1 _ op c2 _ r => l.lex ++ lexGC c1 ++ .tok op :: lexGC c2 ++ r.lex
  | .ite c1 _ c c2 _ c3 _ t c4 _ c5 _ e =>
    .tok ['i', 'f'] :: lexGC c1 ++ c.lex ++ lexGC c2 ++ .tok ['t', 'h', 'e', 'n'] :: lexGC c3 ++ t.lex ++ lexGC c4 ++
      .tok ['e', 'l', 's', 'e'] :: lexGC c5 ++ e.lex
  | .has e c1 _ c2 _ attrs => e.lex ++ lexGC c1 ++ .tok ['?'] :: lexGC c2 ++ attrLex0 attrs
def Items.lex : Items → List Lex
  | .nil => []
  | .cmt _ t rest => .cmt t :: rest.lex
  | .elem _ c rest => c.lex ++ rest.lex
  | .bind _ n c1 _ c2 _ v c3 _ rest =>
    .tok n :: lexGC c1 ++ .tok ['='] :: lexGC c2 ++ v.lex ++ lexGC c3 ++ .tok [';'] :: rest.lex
end

def Lex.tok? : Lex → Option Text
  | .tok s => some s
  | .cmt _ => none

/-- the code tokens of the file, comments left out -/
def File.codeTokens (f : File) : List Text := f.items.lex.filterMap Lex.tok?

/-! ### well-formedness -/

/-- whitespace as tree-sitter-nix skips it -/
def isWsChar (c : Char) : Bool := c = ' ' || c = '\t' || c = '\r' || c = '\n'
def isGap (g : Text) : Bool := g.all isWsChar

/-- a comment token of the fragment: `#…` up to the end of the line, or a block comment on one line -/
def isCommentTok (t : Text) : Bool :=
  (startsWith ['#'] t && !containsNL t) ||
  (startsWith ['/', '*'] t && endsWith ['*', '/'] t && 4 ≤ t.length && !containsNL t)

def isIdentChar (c : Char) : Bool :=
  isAsciiLetter c || isAsciiDigit c || c = '_' || c = '\'' || c = '-'

/-- `int(text)` accepts at most 4300 digits (CPython's `sys.get_int_max_str_digits()` default) -/
def maxIntDigits : Nat := 4300

/-- a leaf is one token: identifiers over the identifier alphabet; integers in the spelling
    `str(int(text))` reproduces (no redundant leading zero, at most 4300 digits); strings are
    `"…"`; floats over the float alphabet; paths contain `/` or are `<…>`, and no whitespace. -/
def leafOk : LeafKind → Text → Bool
  | .ident, t => !t.isEmpty && t.all isIdentChar
  | .int, t => !t.isEmpty && t.all isAsciiDigit && (t.length = 1 || t.head? != some '0') &&
      t.length ≤ maxIntDigits
  | .float, t => !t.isEmpty && t.all fun c => isAsciiDigit c || c = '.' || c = 'e' || c = 'E' || c = '+' || c = '-'
  | .str, t => 2 ≤ t.length && t.head? == some '"' && t.getLast? == some '"'
  | .path, t => (t.contains '/' || t.head? == some '<') && t.all fun c => !isWsChar c

/-- `splitGo` of `Model/AttrPath.lean` (the loop of `binding._split_attrpath`) by structural
    recursion on a fuel, so that closed instances evaluate; `splitAttrpathF = splitAttrpath` is
    `Lemmas/FragParse.lean: splitAttrpathF_eq`. -/
def splitGoF : Nat → SplitSt → Text → Except Err SplitSt
  | 0, st, _ => .ok st
  | _ + 1, st, [] => .ok st
  | fuel + 1, st, ch :: rest =>
    if st.depth > 0 then splitGoF fuel (splitInterpStep st ch) rest
    else if st.inQuotes then
      if !st.escape && ch = '$' && rest.head? = some '{' then
        splitGoF fuel { st with buf := st.buf ++ ['$', '{'], depth := 1 } rest.tail
      else splitGoF fuel (splitQuoteStep st ch) rest
    else if ch = '"' then splitGoF fuel { st with inQuotes := true, buf := st.buf ++ [ch] } rest
    else if ch = '$' && rest.head? = some '{' then
      splitGoF fuel { st with buf := st.buf ++ ['$', '{'], depth := 1 } rest.tail
    else if ch = '.' then
      match splitFlush st with
      | .ok st' => splitGoF fuel st' rest
      | .error e => .error e
    else splitGoF fuel { st with buf := st.buf ++ [ch] } rest

/-- `_split_attrpath(text)` -/
def splitAttrpathF (t : Text) : Except Err (List Text) :=
  match splitGoF (t.length + 1) {} t with
  | .error e => .error e
  | .ok st =>
    if st.depth > 0 then .error .value
    else if st.inQuotes then .error .value
    else match splitFlush st with
      | .ok st' => .ok st'.segs
      | .error e => .error e

/-- a single-segment attribute name: the splitter of `binding._split_attrpath` returns it whole;
    it is not empty, has no line break in it and is not the token `;` -/
def nameOk (n : Text) : Bool :=
  decide (splitAttrpathF n = .ok [n]) && !n.isEmpty && !containsNL n && n != [';']

def isLineCmt (t : Text) : Bool := startsWith ['#'] t

/-- a line comment runs to the end of its line: the whitespace after it starts with the line break
    (or the file ends there) -/
def closedBy (t next : Text) (eofOk : Bool) : Bool :=
  !isLineCmt t || startsWithNL next || (eofOk && next.isEmpty)

/-- a comment run inside a binding; `next` is the gap after the run -/
def gcOk : GC → Text → Bool
  | [], _ => true
  | [p], next => isGap p.1 && isCommentTok p.2 && closedBy p.2 next false
  | p :: q :: rest, next => isGap p.1 && isCommentTok p.2 && closedBy p.2 q.1 false && gcOk (q :: rest) next

/-- a segment of the attrpath of a select: one token (an identifier or a `"…"` string) on one line,
    not `.` / `;` -/
def attrSegOk (a : Text) : Bool :=
  !a.isEmpty && !containsNL a && a != ['.'] && a != [';']

/-- the argument of a simple lambda: an identifier -/
def lamNameOk (n : Text) : Bool := !n.isEmpty && n.all isIdentChar

/-- a unary operator of Nix -/
def unOpOk (op : Text) : Bool := op == ['!'] || op == ['-']

/-- the binary operators of Nix (`?` is a node kind of its own) -/
def binOpOk (op : Text) : Bool :=
  ["//", "++", "+", "-", "*", "/", "==", "!=", "<", "<=", ">", ">=", "&&", "||", "->"].any fun s => s.toList == op

/-- the operators `_format_chained_binary` takes over when they stand on a line of their own -/
def chainOp (op : Text) : Bool := op == ['/', '/'] || op == ['+', '+']

/-- where an item sequence sits -/
inductive Mode where
  | file | list | set | paren
deriving DecidableEq, Repr

/-- the gap in front of the first item (`none`: no item) -/
def Items.firstGap : Items → Option Text
  | .nil => none
  | .cmt g _ _ => some g
  | .elem g _ _ => some g
  | .bind g _ _ _ _ _ _ _ _ _ => some g

def Items.countElems : Items → Nat
  | .nil => 0
  | .cmt _ _ rest => rest.countElems
  | .elem _ _ rest => rest.countElems + 1
  | .bind _ _ _ _ _ _ _ _ _ rest => rest.countElems

mutual
def Cst.wf : Cst → Bool
  | .leaf k t => leafOk k t
  | .list its cg => its.wf .list cg && isGap cg
  | .set r rg its cg => (r || rg.isEmpty) && isGap rg && its.wf .set cg && isGap cg
  | .paren its cg => its.wf .paren cg && its.countElems == 1 && isGap cg
  | .app f cs g a => f.wf && gcOk cs g && isGap g && a.wf
  -- `with` / `assert`: the three inner gaps are whitespace only. (The comment paths of
  -- `WithStatement.from_cst` / `Assertion.from_cst` are modelled, see `FromCst.lean` / `Rebuild.lean`,
  -- and tied to the implementation — `Cst.modelled` below —, but are outside the theorems' fragment.)
  | .kw _ c1 g1 h c2 g2 c3 g3 b =>
    c1.isEmpty && isGap g1 && h.wf && c2.isEmpty && isGap g2 && c3.isEmpty && isGap g3 && b.wf
  -- select: whitespace only between the expression and `.`, and between `.` and the attrpath
  | .sel e c1 g1 gd attrs => e.wf && c1.isEmpty && isGap g1 && isGap gd && !attrs.isEmpty && attrs.all attrSegOk
  | .selOr e c1 g1 gd attrs c2 g2 g3 d =>
    e.wf && c1.isEmpty && isGap g1 && isGap gd && !attrs.isEmpty && attrs.all attrSegOk && c2.isEmpty && isGap g2 &&
      isGap g3 && d.wf
  -- `x: body`: whitespace only around the `:`
  | .lam n c1 g1 c2 g2 b => lamNameOk n && c1.isEmpty && isGap g1 && c2.isEmpty && isGap g2 && b.wf
  -- `!e` / `-e`: whitespace only between operator and operand
  | .un op c g e => unOpOk op && c.isEmpty && isGap g && e.wf
  -- binary operators: whitespace only around the operator; `//` and `++` with the operator on a line of
  -- its own take the chain formatter `_format_chained_binary`, which is not modelled
  | .bin l c1 g1 op c2 g2 r =>
    l.wf && c1.isEmpty && isGap g1 && binOpOk op && !(chainOp op && containsNL g1) && c2.isEmpty && isGap g2 && r.wf
  -- `if` / `then` / `else`: the five inner gaps are whitespace only (the comment paths of `IfExpression.from_cst`
  -- are modelled and tied — `Cst.modelled` —, but are outside the theorems' fragment)
  | .ite c1 g1 c c2 g2 c3 g3 t c4 g4 c5 g5 e =>
    c1.isEmpty && isGap g1 && c.wf && c2.isEmpty && isGap g2 && c3.isEmpty && isGap g3 && t.wf && c4.isEmpty && isGap g4 &&
      c5.isEmpty && isGap g5 && e.wf
  -- `e ? a.b`: whitespace only around the `?`
  | .has e c1 g1 c2 g2 attrs =>
    e.wf && c1.isEmpty && isGap g1 && c2.isEmpty && isGap g2 && !attrs.isEmpty && attrs.all attrSegOk
/-- `closeGap`: the whitespace after the last item (in front of the closing token / the end of the
    file) -/
def Items.wf : Items → Mode → Text → Bool
  | .nil, _, _ => true
  | .cmt g t rest, m, cg =>
    isGap g && isCommentTok t && closedBy t (rest.firstGap.getD cg) (m == .file) && rest.wf m cg
  | .elem g c rest, m, cg => m != .set && isGap g && c.wf && rest.wf m cg
  | .bind g n c1 g1 c2 g2 v c3 g3 rest, m, cg =>
    m == .set && isGap g && nameOk n && gcOk c1 g1 && isGap g1 && gcOk c2 g2 && isGap g2 && v.wf &&
      gcOk c3 g3 && isGap g3 && rest.wf m cg
end

mutual
/-- what the MODEL covers (a superset of `wf`, the theorems' fragment): `wf` with comments allowed in
    the inner gaps of `with` / `assert` / select / unary / `if` / has-attr and in front of the `:` of a lambda. The driver answers `roundtrip`
    requests on this set, so the transliterations of `WithStatement` / `Assertion` are compared with
    the implementation also where no theorem speaks about them yet. -/
def Cst.modelled : Cst → Bool
  | .leaf k t => leafOk k t
  | .list its cg => its.modelled .list cg && isGap cg
  | .set r rg its cg => (r || rg.isEmpty) && isGap rg && its.modelled .set cg && isGap cg
  | .paren its cg => its.modelled .paren cg && its.countElems == 1 && isGap cg
  | .app f cs g a => f.modelled && gcOk cs g && isGap g && a.modelled
  | .kw _ c1 g1 h c2 g2 c3 g3 b =>
    gcOk c1 g1 && isGap g1 && h.modelled && gcOk c2 g2 && isGap g2 && gcOk c3 g3 && isGap g3 && b.modelled
  | .sel e c1 g1 gd attrs =>
    e.modelled && gcOk c1 g1 && isGap g1 && isGap gd && !attrs.isEmpty && attrs.all attrSegOk
  | .selOr e c1 g1 gd attrs c2 g2 g3 d =>
    e.modelled && gcOk c1 g1 && isGap g1 && isGap gd && !attrs.isEmpty && attrs.all attrSegOk && gcOk c2 g2 &&
      isGap g2 && isGap g3 && d.modelled
  | .lam n c1 g1 c2 g2 b => lamNameOk n && gcOk c1 g1 && isGap g1 && c2.isEmpty && isGap g2 && b.modelled
  | .un op c g e => unOpOk op && gcOk c g && isGap g && e.modelled
  | .bin l c1 g1 op c2 g2 r =>
    l.modelled && c1.isEmpty && isGap g1 && binOpOk op && !(chainOp op && containsNL g1) && c2.isEmpty && isGap g2 &&
      r.modelled
  | .ite c1 g1 c c2 g2 c3 g3 t c4 g4 c5 g5 e =>
    gcOk c1 g1 && isGap g1 && c.modelled && gcOk c2 g2 && isGap g2 && gcOk c3 g3 && isGap g3 && t.modelled && gcOk c4 g4 &&
      isGap g4 && gcOk c5 g5 && isGap g5 && e.modelled
  | .has e c1 g1 c2 g2 attrs =>
    e.modelled && gcOk c1 g1 && isGap g1 && gcOk c2 g2 && isGap g2 && !attrs.isEmpty && attrs.all attrSegOk
def Items.modelled : Items → Mode → Text → Bool
  | .nil, _, _ => true
  | .cmt g t rest, m, cg =>
    isGap g && isCommentTok t && closedBy t (rest.firstGap.getD cg) (m == .file) && rest.modelled m cg
  | .elem g c rest, m, cg => m != .set && isGap g && c.modelled && rest.modelled m cg
  | .bind g n c1 g1 c2 g2 v c3 g3 rest, m, cg =>
    m == .set && isGap g && nameOk n && gcOk c1 g1 && isGap g1 && gcOk c2 g2 && isGap g2 && v.modelled &&
      gcOk c3 g3 && isGap g3 && rest.modelled m cg
end

/-- `WF`: gaps are whitespace, comments are comment tokens of the fragment (a line comment is
    followed by its line break), names and leaves are single tokens, a file has exactly one
    top-level expression. -/
def File.wf (f : File) : Bool := f.items.wf .file f.endGap && f.items.countElems = 1 && isGap f.endGap

/-- The file does not start with whitespace. `NixSourceCode.from_cst` shares `node.text` — which
    starts at the first token — with helpers that index it by absolute byte offsets; the offsets
    are exact only when nothing precedes the first token (open finding
    `*-leading-whitespace-offset-shift`). The model covers those inputs. -/
def File.noLeadingWs (f : File) : Bool := f.items.firstGap == some []

/-- THE FRAGMENT: the files the model covers (the driver answers `(uncovered …)` for all others) -/
def File.covered (f : File) : Bool := f.wf && f.noLeadingWs

/-- the files the model is compared with the implementation on (`roundtrip` requests) -/
def File.modelled (f : File) : Bool :=
  f.items.modelled .file f.endGap && f.items.countElems = 1 && isGap f.endGap && f.noLeadingWs

end Nima.Frag
