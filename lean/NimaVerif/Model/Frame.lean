import NimaVerif.Model.Edit
/-!
L6 (c): structural predicates over documents used by the frame / composition theorems (C04, C19).
Core Lean only. Nothing here is executed by the driver; these are SPEC-side definitions:

* `hasBind j n` / `hasSet s n`: does a Binding object with identity `j` (an AttributeSet object with
  identity `s`) occur anywhere inside `n`?
* `Doc.maxId`: the largest identity a document mentions (the harness allocates `next` above it).
* `frames j n`: the layout-carrying part (identity, name, nested flag, before, after) of every binding
  of `n` in document order, **not** descending into the value of the binding with identity `j`.
-/
namespace Nima
-- name tokens are compared by spelling in this file (see `NameCmp` in Model/Edit.lean)
attribute [local instance] NameCmp.spelled

namespace Node

def isIdent : Node → Bool | ident _ => true | _ => false

mutual
  def hasBind (j : Nat) : Node → Bool
    | atom _ => false
    | ident _ => false
    | set _ vs o _ _ => hasBindL j vs || hasBindL j o
    | bind i _ _ v _ _ => i == j || hasBind j v
    | inherit _ _ => false
    | entry _ leaf _ _ => hasBind j leaf
  def hasBindL (j : Nat) : List Node → Bool
    | [] => false
    | x :: xs => hasBind j x || hasBindL j xs
end

mutual
  def hasSet (s : Nat) : Node → Bool
    | atom _ => false
    | ident _ => false
    | set t vs o _ _ => t == s || hasSetL s vs || hasSetL s o
    | bind _ _ _ v _ _ => hasSet s v
    | inherit _ _ => false
    | entry _ leaf _ _ => hasSet s leaf
  def hasSetL (s : Nat) : List Node → Bool
    | [] => false
    | x :: xs => hasSet s x || hasSetL s xs
end

/-- identity, name, nested flag, `before`, `after` of a Binding object -/
abbrev Frame := Nat × Text × Bool × Payload × Payload

mutual
  /-- frames of all bindings in document order; the value of binding `j` is not entered -/
  def frames (j : Nat) : Node → List Frame
    | atom _ => []
    | ident _ => []
    | set _ vs o _ _ => framesL j vs ++ framesL j o
    | bind i n ne v b a => (i, n, ne, b, a) :: (if i = j then [] else frames j v)
    | inherit _ _ => []
    | entry _ leaf _ _ => frames j leaf
  def framesL (j : Nat) : List Node → List Frame
    | [] => []
    | x :: xs => frames j x ++ framesL j xs
end

mutual
  /-- frames of **all** bindings inside a node, in document order -/
  def allFrames : Node → List Frame
    | atom _ => []
    | ident _ => []
    | set _ vs o _ _ => allFramesL vs ++ allFramesL o
    | bind i n ne v b a => (i, n, ne, b, a) :: allFrames v
    | inherit _ _ => []
    | entry _ leaf _ _ => allFrames leaf
  def allFramesL : List Node → List Frame
    | [] => []
    | x :: xs => allFrames x ++ allFramesL xs
end

/-- every binding inside the node has a frame satisfying `P` -/
def AllF (P : Frame → Prop) (n : Node) : Prop := ∀ x ∈ allFrames n, P x

end Node

open Node

namespace Layer
def hasBind (j : Nat) (l : Layer) : Bool := hasBindL j l.scope || hasBindL j l.order
def hasSet (s : Nat) (l : Layer) : Bool := hasSetL s l.scope || hasSetL s l.order
def maxId (l : Layer) : Nat := max (maxIdL l.scope) (maxIdL l.order)
def frames (j : Nat) (l : Layer) : List Frame := framesL j l.scope ++ framesL j l.order
end Layer

namespace Doc

def hasBind (j : Nat) (d : Doc) : Bool :=
  Node.hasBind j d.target || hasBindL j d.scope || hasBindL j d.stOrder ||
  d.stack.any (·.hasBind j) || (d.topScope.map (hasBindL j)).getD false ||
  (d.scratch.map (Node.hasBind j)).getD false

def hasSet (s : Nat) (d : Doc) : Bool :=
  Node.hasSet s d.target || hasSetL s d.scope || hasSetL s d.stOrder ||
  d.stack.any (·.hasSet s) || (d.topScope.map (hasSetL s)).getD false ||
  (d.scratch.map (Node.hasSet s)).getD false

/-- largest identity mentioned anywhere in the document -/
def maxId (d : Doc) : Nat :=
  max (Node.maxId d.target) (max (maxIdL d.scope) (max (maxIdL d.stOrder)
    (max (d.stack.foldr (fun l m => max l.maxId m) 0)
      (max ((d.topScope.map maxIdL).getD 0) ((d.scratch.map Node.maxId).getD 0)))))

/-- frames of the whole document (target, lifted scope, its order, stacked layers, top scope) -/
def frames (j : Nat) (d : Doc) : List Frame :=
  Node.frames j d.target ++ framesL j d.scope ++ framesL j d.stOrder ++
  d.stack.flatMap (·.frames j) ++ (d.topScope.map (framesL j)).getD [] ++
  (d.scratch.map (Node.frames j)).getD []

/-- The document has no let layer at all (fresh `ScopeState`, empty `Scope`). -/
def NoLayers (d : Doc) : Prop :=
  d.scope = [] ∧ d.stBodyBefore = [] ∧ d.stBodyAfter = [] ∧ d.stOrder = [] ∧
  d.stAfterLet = none ∧ d.stack = []

instance (d : Doc) : Decidable d.NoLayers := by unfold NoLayers; infer_instance

/-- identities are allocated above everything the document mentions, and no scoped edit is running.
    Established by construction: the harness snapshot sets `next` above every identity it hands
    out, `fresh` only increases it, and `onLayer` resets `scratch` to `none` before it returns. -/
def Fresh (d : Doc) : Prop := d.maxId < d.next ∧ d.scratch = none

instance (d : Doc) : Decidable d.Fresh := by unfold Fresh; infer_instance

end Doc

/-- SPEC: the layout around the target and at the end of the file, and the layer trivia
    ("wrappers": everything of the document that is not a node) -/
def Doc.wrappers (d : Doc) :=
  (d.noTarget, d.tBefore, d.tAfter, d.stBodyBefore, d.stBodyAfter, d.stAfterLet, d.trailing, d.rstripped)

/-- the root nodes a layer holds -/
def Layer.nodes (l : Layer) : List Node := l.scope ++ l.order

/-- every root node the document holds -/
def Doc.nodes (d : Doc) : List Node :=
  d.target :: (d.scope ++ d.stOrder ++ d.stack.flatMap Layer.nodes ++ d.topScope.getD [] ++
    d.scratch.toList)

/-- frames of all bindings the document holds -/
def Doc.allFrames (d : Doc) : List Frame := d.nodes.flatMap Node.allFrames

/-- SPEC: placeholder put into the value slot of the addressed binding when comparing the rest -/
def hole : Node := .atom []

/-- SPEC: does the AttributeSet object `sid` occur anywhere but at the target? (it does not in
    documents built by the parser: the target object is referenced once) -/
def Doc.sidElsewhere (sid : Nat) (d : Doc) : Bool := ({ d with target := hole } : Doc).hasSet sid

/-- SPEC: one CLI edit -/
inductive Op where
  | set (p : Text) (v : ValueArg)
  | rm (p : Text)

def Op.path : Op → Text | .set p _ => p | .rm p => p
def Op.apply : Op → EditM Unit
  | .set p v => setValue p v
  | .rm p => removeValue p
/-- the document after a history of edits (a rejected edit leaves whatever state it leaves) -/
def run : List Op → Doc → Doc
  | [], d => d
  | op :: ops, d => run ops (op.apply d).2

/-- `source.trailing` with its final linebreak / empty-line tokens popped (0 = linebreak, 1 = empty line) -/
def stripLayoutTail (t : Payload) : Payload :=
  (t.reverse.dropWhile (fun t => t == 0 || t == 1)).reverse
/-- SPEC: what `remove_value` leaves in `source.trailing` after pruning the last let layer whose
    stashed `body_after` is `bodyAfter` -/
def restoredTrailing (trailing bodyAfter : Payload) : Payload :=
  let t1 := stripLayoutTail trailing
  let t2 := if bodyAfter.isEmpty then t1
            else if t1.isEmpty then bodyAfter else t1 ++ bodyAfter.filter (!t1.contains ·)
  if t2.isEmpty && !trailing.isEmpty then trailing else t2

end Nima
