import NimaVerif.Model.Resolve
/-!
L7 (c): `specResolve` — SPEC. Nix's lexical scoping for the program type of Model/Scope.lean, as
the property C10 states it; written independently of the code under test (environments and
closures, no context store).

* An environment is a list of frames, INNERMOST FIRST. A `let` layer and the bindings of a `rec`
  set are `recF` frames (both are recursive in Nix); a plain set binds nothing lexically.
  Formals bind their names (`lamF`/`lam1F`; through `source[...]` a lambda body is only ever
  reached un-applied, so a formal's value is its default, and a formal without default has none).
  `with e;` is a `withF` frame.
* Lookup of a name: the innermost LEXICAL frame (let / rec / formals) that binds it wins; only when
  no lexical frame binds it are the `with` frames consulted, innermost first.
* A binding found in frame `i` is evaluated in the frames from `i` outwards (the frame included);
  `inherit x;` designates `x` of the scope ENCLOSING the frame (never the frame itself, also in a
  `rec` set); `inherit (s) x;` designates attribute `x` of the set `s` evaluates to, `s` being
  evaluated inside the frame. The attributes of a set are its bindings and inherited names;
  a binding of a plain set is evaluated in the environment of the set, of a `rec` set in that
  environment extended by the set's own frame.
* Reference chains are followed while the value of the designated binding is itself an identifier;
  re-entering an item that is being evaluated is a cycle (`vis`: bindings and formal defaults
  entered, `ivis`: inherit clauses entered).

Which set `source[k]` indexes (`_resolve_target_set`: through `with`, parentheses, lambdas, to the
ARGUMENT of a call) is API behaviour, not scoping; `specTarget` follows the same route but computes
the environment from the syntax alone.

Fuel: every function decreases one fuel; `fuel` outcomes do not occur for `fuel` larger than
(program size)², and are reported as such, never mapped to an agreeing outcome.
-/
namespace Nima.Scope
open Nima

inductive Frame where
  | recF (items : List Item)
  | withF (env : Expr)
  | lamF (formals : List Formal)
  | lam1F (name : Text)

/-- innermost first -/
abbrev Env := List Frame

/-- let layers (outermost first) pushed onto an environment -/
def pushLets (E : Env) : List (List Item) → Env
  | [] => E
  | l :: ls => pushLets (.recF l :: E) ls

structure Clo where
  e : Expr
  env : Env

/-- the environment inside `c.e`'s own let layers -/
def Clo.inner (c : Clo) : Env := pushLets c.env c.e.layers

structure SetClo where
  isRec : Bool
  items : List Item
  env : Env

/-- environment in which the values of the set's bindings are evaluated -/
def SetClo.inner (s : SetClo) : Env := if s.isRec then .recF s.items :: s.env else s.env

inductive SFail where
  | unbound | cycle | noValue | notASet | missingAttr | fuel
deriving DecidableEq, Repr

inductive SpecOutcome where
  | bound (valueNode : Nat)
  /-- the identifier was reached; Nix gives it no value -/
  | error (k : SFail)
  /-- no identifier is reached: an evaluation failure on the way … -/
  | navError (k : SFail)
  /-- … or the route does not exist (missing key, not subscriptable, no target set, not an identifier) -/
  | nav (f : Fail)
deriving DecidableEq, Repr

inductive SR (α : Type) where
  | ok (a : α)
  | fail (k : SFail)

/-- How Nix reads an attribute-name token: `"a"` names `a` (escapes are outside the fragment). -/
def specName (n : Text) : Text :=
  match n with
  | '"' :: rest =>
    match rest.reverse with
    | '"' :: inner => inner.reverse
    | _ => n
  | _ => n

/-- first binding of a list whose (decoded) name is `name` -/
def findBindS (name : Text) : List Item → Option Item
  | [] => none
  | .bind id n v :: rest => if specName n = name then some (.bind id n v) else findBindS name rest
  | _ :: rest => findBindS name rest

/-- the item of a binding list that defines attribute / variable `name`: a binding, else an inherit
    clause naming it (Nix rejects a list that has both, so the order between them is immaterial) -/
def findItem (name : Text) (items : List Item) : Option Item :=
  match findBindS name items with
  | some it => some it
  | none => findInherit name items

def findFormal (name : Text) : List Formal → Option Formal
  | [] => none
  | .req n :: rest => if n = name then some (.req n) else findFormal name rest
  | .opt n d :: rest => if n = name then some (.opt n d) else findFormal name rest

inductive LexHit where
  /-- found in a `recF` frame; `inner` starts at that frame, `outer` after it -/
  | item (it : Item) (inner outer : Env)
  | formalOpt (d : Expr) (inner : Env)
  | formalReq

/-- the innermost lexical frame binding `name` (with frames are skipped) -/
def findLex (name : Text) : Env → Option LexHit
  | [] => none
  | .recF items :: outer =>
    match findItem name items with
    | some it => some (.item it (.recF items :: outer) outer)
    | none => findLex name outer
  | .lamF fs :: outer =>
    match findFormal name fs with
    | some (.opt _ d) => some (.formalOpt d (.lamF fs :: outer))
    | some (.req _) => some .formalReq
    | none => findLex name outer
  | .lam1F n :: outer => if n = name then some .formalReq else findLex name outer
  | .withF _ :: outer => findLex name outer

/-- the innermost `with` frame: its environment expression, the frames it is evaluated in (those
    outside it) — also the frames to continue the search in. -/
def findWith : Env → Option (Expr × Env)
  | [] => none
  | .withF e :: outer => some (e, outer)
  | _ :: outer => findWith outer

mutual
/-- the value (as a closure) of the binding that `name` designates in `E`; the second component is
    the evaluation stack (items entered) -/
def lookupS : Nat → Env → Text → List Nat → List Nat → SR (Clo × List Nat × List Nat)
  | 0, _, _, _, _ => .fail .fuel
  | f + 1, E, name, vis, ivis =>
    match findLex name E with
    | some (.item it inner outer) => itemValueS f it inner outer name vis ivis
    | some (.formalOpt d inner) =>
      if vis.contains (dfltBindId (nodeId d)) then .fail .cycle
      else .ok (⟨d, inner⟩, dfltBindId (nodeId d) :: vis, ivis)
    | some .formalReq => .fail .noValue
    | none => withPassS f E name vis ivis

/-- the value an item gives to `name`; `inner` = where its right-hand side is evaluated,
    `outer` = the scope enclosing the construct the item belongs to -/
def itemValueS : Nat → Item → Env → Env → Text → List Nat → List Nat → SR (Clo × List Nat × List Nat)
  | 0, _, _, _, _, _, _ => .fail .fuel
  | f + 1, it, inner, outer, name, vis, ivis =>
    match it with
    | .bind id _ v =>
      if vis.contains id then .fail .cycle else .ok (⟨v, inner⟩, id :: vis, ivis)
    | .inh id _ =>
      if ivis.contains id then .fail .cycle else lookupS f outer name vis (id :: ivis)
    | .inhFrom id _ src =>
      if ivis.contains id then .fail .cycle
      else
        match evalToSetS f ⟨src, inner⟩ vis (id :: ivis) with
        | .fail k => .fail k
        | .ok sc => selectS f sc name vis (id :: ivis)

/-- evaluate a closure to an attribute set (set literal reached through identifiers, parentheses,
    `with` bodies); function application is outside the fragment -/
def evalToSetS : Nat → Clo → List Nat → List Nat → SR SetClo
  | 0, _, _, _ => .fail .fuel
  | f + 1, c, vis, ivis =>
    match c.e.core with
    | .set _ r items => .ok ⟨r, items, c.inner⟩
    | .paren _ i => evalToSetS f ⟨i, c.inner⟩ vis ivis
    | .withE _ envE body => evalToSetS f ⟨body, .withF envE :: c.inner⟩ vis ivis
    | .ref _ n =>
      match lookupS f c.inner n vis ivis with
      | .fail k => .fail k
      | .ok (c2, vis2, ivis2) => evalToSetS f c2 vis2 ivis2
    | _ => .fail .notASet

/-- attribute `name` of a set -/
def selectS : Nat → SetClo → Text → List Nat → List Nat → SR (Clo × List Nat × List Nat)
  | 0, _, _, _, _ => .fail .fuel
  | f + 1, sc, name, vis, ivis =>
    match findItem name sc.items with
    | none => .fail .missingAttr
    | some it => itemValueS f it sc.inner sc.env name vis ivis

/-- no lexical binder: the `with` environments, innermost first -/
def withPassS : Nat → Env → Text → List Nat → List Nat → SR (Clo × List Nat × List Nat)
  | 0, _, _, _, _ => .fail .fuel
  | f + 1, E, name, vis, ivis =>
    match findWith E with
    | none => .fail .unbound
    | some (envE, outer) =>
      match evalToSetS f ⟨envE, outer⟩ vis ivis with
      | .fail k => .fail k
      | .ok sc =>
        match findItem name sc.items with
        | some _ => selectS f sc name vis ivis
        | none => withPassS f outer name vis ivis
end

/-- follow a reference chain: the first value that is not an identifier (with the evaluation
    stack at that point) -/
def resolveCloS : Nat → Clo → List Nat → List Nat → SR (Clo × List Nat × List Nat)
  | 0, _, _, _ => .fail .fuel
  | f + 1, c, vis, ivis =>
    match c.e.core with
    | .ref _ n =>
      match lookupS (f + 1) c.inner n vis ivis with
      | .fail k => .fail k
      | .ok (c2, vis2, ivis2) => resolveCloS f c2 vis2 ivis2
    | _ => .ok (c, vis, ivis)

/-! ## Navigation (API route, lexical environments) -/

inductive SNav (α : Type) where
  | ok (a : α)
  | error (k : SFail)
  | nav (f : Fail)

/-- the argument handling of `_resolve_target_set` -/
def targetFromArgS : Nat → Clo → List Nat → List Nat → SNav (Option SetClo)
  | 0, _, _, _ => .error .fuel
  | f + 1, c, vis, ivis =>
    match c.e.core with
    | .paren _ i => targetFromArgS f ⟨i, c.inner⟩ vis ivis
    | .set _ r items => .ok (some ⟨r, items, c.inner⟩)
    | .ref .. =>
      match resolveCloS (f + 1) c vis ivis with
      | .fail k => .error k
      | .ok (c2, _, _) =>
        match c2.e.core with
        | .set _ r items => .ok (some ⟨r, items, c2.inner⟩)
        | _ => .ok none
    | _ => .ok none

/-- the set `source[...]` indexes. `vis` is the evaluation stack: finding the set forces the
    document's value, so an identifier met again on the way is a cycle. -/
def specTarget : Nat → Clo → List Nat → List Nat → SNav SetClo
  | 0, _, _, _ => .error .fuel
  | f + 1, c, vis, ivis =>
    match c.e.core with
    | .set _ r items => .ok ⟨r, items, c.inner⟩
    | .paren _ i => specTarget f ⟨i, c.inner⟩ vis ivis
    | .withE _ envE body => specTarget f ⟨body, .withF envE :: c.inner⟩ vis ivis
    | .ref .. =>
      match resolveCloS (f + 1) c vis ivis with
      | .fail k => .error k
      | .ok (c2, vis2, ivis2) =>
        match c2.e.core with
        | .ref .. => .error .fuel
        | _ => specTarget f c2 vis2 ivis2
    | .lam1 _ p body =>
      let Eb : Env := .lam1F p :: c.inner
      match body.core with
      | .app _ _ arg =>
        match targetFromArgS (f + 1) ⟨arg, pushLets Eb body.layers⟩ vis ivis with
        | .ok (some sc) => .ok sc
        | .ok none => specTarget f ⟨body, Eb⟩ vis ivis
        | .error k => .error k
        | .nav x => .nav x
      | _ => specTarget f ⟨body, Eb⟩ vis ivis
    | .lamP _ fs body =>
      let Eb : Env := .lamF fs :: c.inner
      match body.core with
      | .app _ _ arg =>
        match targetFromArgS (f + 1) ⟨arg, pushLets Eb body.layers⟩ vis ivis with
        | .ok (some sc) => .ok sc
        | .ok none => specTarget f ⟨body, Eb⟩ vis ivis
        | .error k => .error k
        | .nav x => .nav x
      | _ => specTarget f ⟨body, Eb⟩ vis ivis
    | .app _ _ arg =>
      match targetFromArgS (f + 1) ⟨arg, c.inner⟩ vis ivis with
      | .ok (some sc) => .ok sc
      | .ok none => .nav .value
      | .error k => .error k
      | .nav x => .nav x
    | _ => .nav .value

/-- where the spec's traversal stands -/
inductive SCur where
  | root
  | at (c : Clo)
  /-- the identifier `AttributeSet.__getitem__` hands out for an inherited name
      (`inRec`: the clause belongs to a `rec` set) -/
  | atInh (it : Item) (inner outer : Env) (name : Text) (inRec : Bool)

/-- `set[key]`: the binding named `key` as written, else the inherit clause naming it -/
def keyInSet (sc : SetClo) (key : Text) : SNav SCur :=
  match findBind key sc.items with
  | some (_, v) => .ok (.at ⟨v, sc.inner⟩)
  | none =>
    match findInherit key sc.items with
    | some it => .ok (.atInh it sc.inner sc.env key sc.isRec)
    | none => .nav .key

def keyStepS : Nat → Clo → Text → SNav SCur
  | 0, _, _ => .error .fuel
  | f + 1, c, key =>
    match c.e.core with
    | .set _ r items => keyInSet ⟨r, items, c.inner⟩ key
    | .withE _ envE body =>
      match body.core with
      | .set .. => keyStepS f ⟨body, .withF envE :: c.inner⟩ key
      | .withE .. => keyStepS f ⟨body, .withF envE :: c.inner⟩ key
      | _ => .nav .type
    | _ => .nav .type

/-- `.value` on what the traversal stands on: the value of the designated binding (chains followed) -/
def derefS (fuel : Nat) : SCur → SNav Clo
  | .root => .nav .notIdent
  | .at c =>
    match c.e.core with
    | .ref .. =>
      match resolveCloS fuel c [] [] with
      | .ok (c2, _, _) => .ok c2
      | .fail k => .error k
    | _ => .nav .notIdent
  | .atInh it inner outer name _ =>
    match itemValueS fuel it inner outer name [] [] with
    | .fail k => .error k
    | .ok (c, vis, ivis) =>
      match resolveCloS fuel c vis ivis with
      | .ok (c2, _, _) => .ok c2
      | .fail k => .error k

def specStep (fuel : Nat) (prog : Expr) (cur : SCur) (s : Step) : SNav SCur :=
  match cur, s with
  | .root, .key key =>
    match specTarget fuel ⟨prog, []⟩ [] [] with
    | .ok sc => keyInSet sc key
    | .error k => .error k
    | .nav f => .nav f
  | .at c, .key key => keyStepS fuel c key
  | .atInh .., .key _ => .nav .type
  | cur, .deref =>
    match derefS fuel cur with
    | .ok c => .ok (.at c)
    | .error k => .error k
    | .nav f => .nav f

def specSteps (fuel : Nat) (prog : Expr) : SCur → List Step → SNav SCur
  | cur, [] => .ok cur
  | cur, s :: rest =>
    match specStep fuel prog cur s with
    | .ok cur1 => specSteps fuel prog cur1 rest
    | .error k => .error k
    | .nav f => .nav f

/-- SPEC: what `src[path…].value` must yield under Nix's scoping rules. -/
def specResolve (fuel : Nat) (prog : Expr) (path : List Step) : SpecOutcome :=
  match specSteps fuel prog .root path with
  | .error k => .navError k
  | .nav f => .nav f
  | .ok cur =>
    match derefS fuel cur with
    | .ok c => .bound (nodeId c.e)
    | .error k => .error k
    | .nav f => .nav f

/-- a failure that is an exception of a documented class raised in bounded time -/
def Fail.explicit : Fail → Bool
  | .fuel => false
  | _ => true

/-- The comparison the property makes: the same defining value; or, where Nix gives no value
    (unbound, cycle, not a set, … — whether that shows while walking the route or at the reached
    identifier), a `ResolutionError`; or the route does not exist on either side (which exception
    class a missing ROUTE raises is API behaviour, not scoping — but it must be raised: running out
    of fuel, i.e. `RecursionError`, never agrees). -/
def agrees : Outcome → SpecOutcome → Bool
  | .bound a, .bound b => a == b
  | .fail (.res _), .error k => k != .fuel
  | .fail (.res _), .navError k => k != .fuel
  | .nav (.res _), .error k => k != .fuel
  | .nav f, .nav _ => f.explicit
  | .nav f, .navError k => f.explicit && k != .fuel
  | _, _ => false

end Nima.Scope
