import NimaVerif.Model.Trivia
/-!
SPEC definitions for the trivia-algebra properties (C01 C02 C03 C06 C18). Nothing here is a model of
Python code: these are the notions the property statements are written in. Core Lean only.
-/
namespace Nima

/-! ### separators -/

/-- The formatter's normal form of an inter-token separator: nothing, one space, or one line
    break / one blank line followed by an indentation run of spaces. (No tab, no CR, no blanks
    before a line break, at most one blank line.) -/
def NormalSep (s : Text) : Prop :=
  s = [] ∨ s = [' '] ∨ ∃ k, s = '\n' :: spaces k ∨ s = '\n' :: '\n' :: spaces k

def isNormalSep : Text → Bool
  | [] => true
  | [' '] => true
  | '\n' :: '\n' :: r => r.all (· == ' ')
  | '\n' :: r => r.all (· == ' ')
  | _ => false

/-! ### trivia lists -/

/-- No `,` sentinel in the list (the sentinel only occurs in formals; every other caller of
    `format_trivia` passes comma-free lists). -/
def CommaFree (ts : List Trivia) : Prop := Trivia.comma ∉ ts

instance (ts : List Trivia) : Decidable (CommaFree ts) := by unfold CommaFree; exact inferInstance

/-- What `format_trivia` emits for one item, independently of its siblings. -/
def itemText (i : Nat) : Trivia → Text
  | .emptyLine => ['\n']
  | .linebreak => []
  | .comma => [',']
  | .comment c => c.rebuild i ++ ['\n']

/-- The indentation a comment is rendered with: inline comments ignore the requested indent. -/
def Comment.effIndent (c : Comment) (i : Nat) : Nat := if c.inline then 0 else i

/-- The comment token as it is written at column `i` (everything `rebuild` emits after the leading
    indentation run). Continuation lines of a block comment are indented relative to `i`. -/
def Comment.token (c : Comment) (i : Nat) : Text :=
  match c.kind with
  | .line => c.str
  | .block doc innerIndent =>
    let opening : Text := if doc then ['/', '*', '*'] else ['/', '*']
    if containsNL c.text then
      let lines := splitLines c.text
      let head : Text := if startsWithNL c.text then opening else opening ++ [' ']
      let cont := (lines.drop 1).flatMap fun ln =>
        if ln.isEmpty then ['\n'] else '\n' :: spaces (i + innerIndent.getD 2) ++ ln
      head ++ lines.headD [] ++ cont ++ (if !endsWithNL c.text then [' ', '*', '/'] else spaces i ++ ['*', '/'])
    else opening ++ [' '] ++ c.text ++ [' ', '*', '/']

/-- Output pieces: whitespace the formatter writes, and comment tokens. -/
inductive Piece where
  | ws (s : Text)
  | cmt (s : Text)
deriving DecidableEq, Repr

def Piece.text : Piece → Text
  | .ws s => s
  | .cmt s => s

def piecesText (ps : List Piece) : Text := ps.flatMap Piece.text

def Piece.cmt? : Piece → Option Text
  | .cmt s => some s
  | .ws _ => none

def itemPieces (i : Nat) : Trivia → List Piece
  | .emptyLine => [.ws ['\n']]
  | .linebreak => []
  | .comma => [.ws [',']]
  | .comment c => [.ws (spaces (c.effIndent i)), .cmt (c.token (c.effIndent i)), .ws ['\n']]

def triviaPieces (i : Nat) (ts : List Trivia) : List Piece := ts.flatMap (itemPieces i)

/-- One rendered line of a trivia block: an empty line, or an indentation run of exactly the
    effective indent, one comment token, and the line break that closes it. -/
def TriviaLine (i : Nat) (ln : List Piece) : Prop :=
  ln = [.ws ['\n']] ∨ ∃ k tok, (k = 0 ∨ k = i) ∧ ln = [.ws (spaces k), .cmt tok, .ws ['\n']]

/-- The comments of a trivia list, as rendered tokens, in order. -/
def commentTokens (i : Nat) (ts : List Trivia) : List Text :=
  ts.filterMap fun
    | .comment c => some (c.token (c.effIndent i))
    | _ => none

/-- A comment as tree-sitter can deliver it: a line comment's text has no line break. -/
def Comment.tokenLike (c : Comment) : Bool :=
  match c.kind with
  | .line => !containsNL c.text
  | .block _ _ => true

def Trivia.tokenLike : Trivia → Bool
  | .comment c => c.tokenLike
  | _ => true

/-- every comment of the list is token-like (decidable) -/
def TokenLikeTrivia (ts : List Trivia) : Prop := ∀ t ∈ ts, t.tokenLike = true

instance (ts : List Trivia) : Decidable (TokenLikeTrivia ts) := by unfold TokenLikeTrivia; exact inferInstance

def Trivia.isComment : Trivia → Bool
  | .comment _ => true
  | _ => false

/-- the head of the list is an inline comment (the one `apply_trailing_trivia` keeps on the line) -/
def headInline : List Trivia → Option (Comment × List Trivia)
  | .comment c :: rest => if c.inline then some (c, rest) else none
  | _ => none

def lastIsComment (ts : List Trivia) : Bool :=
  match ts.getLast? with
  | some t => t.isComment
  | none => false

/-- an inline comment followed by line-break markers only -/
def inlineHeadOnly (ts : List Trivia) : Bool :=
  match headInline ts with
  | some (_, rest) => rest.all (· == .linebreak)
  | none => false

/-- `apply_trailing_trivia` leaves a comment open at the end of its output (no closing line
    break): the last item is a comment, or the list is an inline comment followed by line-break
    markers only. The caller must then start a new line before writing more code. -/
def leavesOpenComment (after : List Trivia) : Bool :=
  lastIsComment after || inlineHeadOnly after

/-- `"\n" + s` unless `s` is empty -/
def nlBlock (s : Text) : Text := if s.isEmpty then [] else '\n' :: s

/-! ### interstitial trivia -/

/-- The whitespace `format_interstitial_trivia` writes before an item; it depends on the text
    rendered so far only through "is it empty" and its last character. -/
def interGlue (acc : Text) : Trivia → Text
  | .emptyLine => if endsWithNL acc then ['\n'] else ['\n', '\n']
  | .linebreak => if endsWithNL acc then [] else ['\n']
  | .comma => []
  | .comment c =>
    if c.inline then
      (if acc.isEmpty || !(acc.getLast? == some ' ' || endsWithNL acc) then [' '] else [])
    else (if !acc.isEmpty && !endsWithNL acc then ['\n'] else [])

/-- The pieces `format_interstitial_trivia` appends for one item. -/
def interItemPieces (i : Nat) (nl : Bool) (acc : Text) : Trivia → List Piece
  | .comment c =>
    if c.inline then
      [.ws (interGlue acc (.comment c)), .cmt (c.token 0)] ++ (if nl then [.ws ['\n']] else [])
    else [.ws (interGlue acc (.comment c) ++ spaces i), .cmt (c.token i), .ws ['\n']]
  | t => [.ws (interGlue acc t)]

def interPieces (i : Nat) (nl : Bool) : List Trivia → Text → List Piece
  | [], _ => []
  | t :: rest, acc =>
    interItemPieces i nl acc t ++ interPieces i nl rest (acc ++ piecesText (interItemPieces i nl acc t))

def Trivia.isInlineComment : Trivia → Bool
  | .comment c => c.inline
  | _ => false

end Nima
