import NimaVerif.Lemmas.Trivia
/-! # C18 — trivia-algebra theorems (being proved; see Lemmas/Trivia.lean). -/
namespace Nima.C18
theorem formatTrivia_nil (i : Nat) : formatTrivia [] i = [] := rfl
end Nima.C18
