import NimaVerif.Lemmas.EditPlain
/-!
Composition of plain edits: lookups see through identity updates; set;set, set;rm, set/set on
distinct bindings. Used by C19 (and by C04 for histories).
-/
namespace Nima
-- name tokens are compared by spelling in this file (see `NameCmp` in Model/Edit.lean)
attribute [local instance] NameCmp.spelled
open Node

/-! ## lookups see through a write to a Binding object -/

theorem find?_updBindL (id : Nat) (v : Node) (q : Node → Bool)
    (hq : ∀ x, q (updBind id v x) = q x) (l : List Node) :
    (updBindL id v l).find? q = (l.find? q).map (updBind id v) := by
  rw [updBindL_eq_map, List.find?_map]
  congr 2
  funext x; exact hq x

theorem findBinding_updBindL (id : Nat) (v : Node) (l : List Node) (k : Text) :
    findBinding (updBindL id v l) k = (findBinding l k).map (updBind id v) :=
  find?_updBindL id v _ (by intro x; simp) l

theorem findAttrpathRoot_updBindL (id : Nat) (v : Node) (l : List Node) (k : Text) :
    findAttrpathRoot (updBindL id v l) k = (findAttrpathRoot l k).map (updBind id v) :=
  find?_updBindL id v _ (by intro x; simp) l

theorem findNamedBinding_updBindL (id : Nat) (v : Node) (l : List Node) (k : Text) (ne : Option Bool) :
    findNamedBinding (updBindL id v l) k ne = (findNamedBinding l k ne).map (updBind id v) :=
  find?_updBindL id v _ (by intro x; simp) l

theorem isIdent_updBind (id : Nat) (v n : Node) : (updBind id v n).isIdent = n.isIdent := by
  cases n <;> simp only [updBind] <;> (try split) <;> rfl

/-! ## lookups in `values ++ [new binding]` -/

theorem findBinding_append_new (vs : List Node) (k : Text) (j : Nat) (ne : Bool) (v : Node)
    (b a : Payload) (h : findBinding vs k = none) :
    findBinding (vs ++ [.bind j k ne v b a]) k = some (.bind j k ne v b a) := by
  simp only [findBinding_spelled] at *
  rw [List.find?_append, h]
  simp [isBind, bindName?]

theorem findAttrpathRoot_append_plain (vs : List Node) (k : Text) (j : Nat) (nm : Text) (v : Node)
    (b a : Payload) (h : findAttrpathRoot vs k = none) :
    findAttrpathRoot (vs ++ [.bind j nm false v b a]) k = none := by
  simp only [findAttrpathRoot_spelled] at *
  rw [List.find?_append, h]
  simp [isBind, bindNested]


theorem setValues_of_setSid {n : Node} {sid : Nat} (h : n.setSid? = some sid) :
    ∃ vs o m r, n = .set sid vs o m r := by
  cases n <;> simp [setSid?] at h
  subst h; exact ⟨_, _, _, _, rfl⟩

/-- `set p v` twice = once, existing plain binding whose old and new values are not references -/
theorem set_set_idem_existing (d : Doc) (p k : Text) (v : Node) (bid : Nat) (nm : Text) (ne : Bool)
    (val : Node) (bf af : Payload)
    (hnt : d.noTarget = none) (hsp : splitScopeNpath p = .ok none)
    (hf : formatNPath currentAnchor p = .ok [k])
    (hr : findAttrpathRoot d.target.setValues k = none)
    (hb : findBinding d.target.setValues k = some (.bind bid nm ne val bf af))
    (hval : val.isIdent = false) (hv : v.isIdent = false) :
    setValue p (.one v) (setValue p (.one v) d).2 = setValue p (.one v) d := by
  rw [set_existing_plain d p k v bid nm ne val bf af hnt hsp hf hr hb hval]
  have hr' : findAttrpathRoot (d.updBind bid v).target.setValues k = none := by
    simp [findAttrpathRoot_updBindL, hr]
  have hb' : findBinding (d.updBind bid v).target.setValues k = some (.bind bid nm ne v bf af) := by
    simp [findBinding_updBindL, hb, updBind]
  rw [set_existing_plain (d.updBind bid v) p k v bid nm ne v bf af (by simpa using hnt) hsp hf hr' hb' hv,
    Doc.updBind_idem]

mutual
theorem updBind_updSet_appendNew (j sid : Nat) (k : Text) (v : Node) :
    ∀ n : Node, hasBind j n = false →
      updBind j v (updSet sid (appendBothF (.bind j k false v [] [])) n) =
        updSet sid (appendBothF (.bind j k false v [] [])) n
  | .atom _, _ => by simp [updSet, updBind]
  | .ident _, _ => by simp [updSet, updBind]
  | .set s vs o m r, h => by
      simp only [hasBind, Bool.or_eq_false_iff] at h
      by_cases hs : s = sid
      · simp only [updSet, hs, if_true, appendBothF, updBind]
        have e1 := updBindL_of_not_hasBind j v vs h.1
        have e2 := updBindL_of_not_hasBind j v o h.2
        split <;> simp [updBindL_append, e1, e2, updBindL, updBind]
      · simp [updSet, hs, updBind, updBindL_updSetL_appendNew j sid k v vs h.1,
          updBindL_updSetL_appendNew j sid k v o h.2]
  | .bind i n ne val b a, h => by
      simp only [hasBind, Bool.or_eq_false_iff, beq_eq_false_iff_ne, ne_eq] at h
      simp [updSet, updBind, h.1, updBind_updSet_appendNew j sid k v val h.2]
  | .inherit _ _, _ => by simp [updSet, updBind]
  | .entry segs leaf b a, h => by
      simp only [hasBind] at h
      simp [updSet, updBind, updBind_updSet_appendNew j sid k v leaf h]
theorem updBindL_updSetL_appendNew (j sid : Nat) (k : Text) (v : Node) :
    ∀ l : List Node, hasBindL j l = false →
      updBindL j v (updSetL sid (appendBothF (.bind j k false v [] [])) l) =
        updSetL sid (appendBothF (.bind j k false v [] [])) l
  | [], _ => rfl
  | x :: xs, h => by
      simp only [hasBindL, Bool.or_eq_false_iff] at h
      simp [updSetL, updBindL, updBind_updSet_appendNew j sid k v x h.1,
        updBindL_updSetL_appendNew j sid k v xs h.2]
end

/-- `set p v` twice = once, fresh single-segment path -/
theorem set_set_idem_fresh (d : Doc) (p k : Text) (v : Node) (sid : Nat)
    (hnt : d.noTarget = none) (hsp : splitScopeNpath p = .ok none)
    (hf : formatNPath currentAnchor p = .ok [k])
    (hs : d.target.setSid? = some sid)
    (hr : findAttrpathRoot d.target.setValues k = none)
    (hb : findBinding d.target.setValues k = none)
    (hfresh : d.hasBind d.next = false) (hv : v.isIdent = false) :
    setValue p (.one v) (setValue p (.one v) d).2 = setValue p (.one v) d := by
  rw [set_fresh_plain d p k v sid hnt hsp hf hs hr hb]
  obtain ⟨vs, o, m, r, ht⟩ := setValues_of_setSid hs
  simp only [ht, setValues] at hr hb
  generalize hd1 : ({ d.updSet sid (appendBothF (.bind d.next k false v [] [])) with next := d.next + 1 } : Doc) = d1
  have htg : d1.target = .set sid (vs ++ [.bind d.next k false v [] []])
      (if o.isEmpty then o else o ++ [.bind d.next k false v [] []]) m r := by
    subst hd1; simp [ht, updSet, appendBothF]
  have hr' : findAttrpathRoot d1.target.setValues k = none := by
    rw [htg]; exact findAttrpathRoot_append_plain vs k _ _ _ _ _ hr
  have hb' : findBinding d1.target.setValues k = some (.bind d.next k false v [] []) := by
    rw [htg]; exact findBinding_append_new vs k _ _ _ _ _ hb
  rw [set_existing_plain d1 p k v d.next k false v [] [] (by subst hd1; exact hnt) hsp hf hr' hb' hv]
  congr 1
  subst hd1
  rw [Doc.updBind_eq_mapNodes, Doc.updSet_eq_mapNodes]
  show ({ (d.mapNodes _).mapNodes _ with next := d.next + 1 } : Doc) = _
  rw [Doc.mapNodes_mapNodes]
  rw [Doc.mapNodes_congr _ _ d (fun x hx =>
    updBind_updSet_appendNew d.next sid k v x (Doc.not_hasBind_nodes hfresh x hx))]


theorem not_bindId_of_not_hasBindL {j : Nat} {l : List Node} (h : hasBindL j l = false) :
    ∀ x ∈ l, ¬ ((x.bindId? == some j) = true) := by
  rw [hasBindL_eq_any, List.any_eq_false] at h
  intro x hx hc
  have := h x hx
  cases x <;> simp_all [bindId?, hasBind]

theorem eraseP_append_new {l : List Node} {q : Node → Bool} {nb : Node}
    (h : ∀ x ∈ l, ¬ (q x = true)) (hq : q nb = true) : (l ++ [nb]).eraseP q = l := by
  rw [List.eraseP_append_right _ h]
  simp [hq]

/-- append-then-erase of a fresh Binding object is the identity on every copy of the set -/
theorem erase_append_fix (j : Nat) (k : Text) (v : Node) (s : Nat) (vs o : List Node) (m r : Bool)
    (h1 : hasBindL j vs = false) (h2 : hasBindL j o = false) :
    eraseBothF j (appendBothF (.bind j k false v [] []) (.set s vs o m r)) = .set s vs o m r := by
  simp only [appendBothF, eraseBothF]
  have e1 : (vs ++ [Node.bind j k false v [] []]).eraseP (fun n => n.bindId? == some j) = vs :=
    eraseP_append_new (not_bindId_of_not_hasBindL h1) (by simp [bindId?])
  rw [e1]
  cases o with
  | nil => simp
  | cons x xs =>
    have e2 : (x :: xs ++ [Node.bind j k false v [] []]).eraseP
        (fun n => n.isBind && n.bindId? == some j) = x :: xs :=
      eraseP_append_new (fun y hy hc => not_bindId_of_not_hasBindL h2 y hy (by simp_all))
        (by simp [bindId?, isBind])
    rw [List.cons_append] at e2
    simp [e2]

theorem updSet_erase_append_fix (j : Nat) (k : Text) (v : Node) (sid : Nat) (n : Node)
    (h : hasBind j n = false) :
    updSet sid (fun x => eraseBothF j (appendBothF (.bind j k false v [] []) x)) n = n := by
  apply updSet_eq_self sid _ (fun x => !hasBind j x)
  · intro s vs o m r hQ
    simp only [hasBind, Bool.not_eq_true', Bool.or_eq_false_iff] at hQ
    refine ⟨fun _ => erase_append_fix j k v s vs o m r hQ.1 hQ.2, ?_, ?_⟩
    · intro x hx
      have := hQ.1; rw [hasBindL_eq_any, List.any_eq_false] at this
      simpa using this x hx
    · intro x hx
      have := hQ.2; rw [hasBindL_eq_any, List.any_eq_false] at this
      simpa using this x hx
  · intro i n ne v b a hQ
    simp only [hasBind, Bool.not_eq_true', Bool.or_eq_false_iff] at hQ
    simpa using hQ.2
  · intro sg l b a hQ
    simpa [hasBind] using hQ
  · simpa using h

theorem appendBothF_sid (b : Node) (sid : Nat) (vs o : List Node) (m r : Bool) :
    (appendBothF b (.set sid vs o m r)).setSid? = some sid := rfl

/-- `rm p` after `set p v` on a fresh single-segment path gives the document back (up to `next`) -/
theorem set_rm_restores_fresh (d : Doc) (p k : Text) (v : Node) (sid : Nat)
    (hnt : d.noTarget = none) (hsp : splitScopeNpath p = .ok none)
    (hf : formatNPath currentAnchor p = .ok [k])
    (hs : d.target.setSid? = some sid)
    (hr : findAttrpathRoot d.target.setValues k = none)
    (hb : findBinding d.target.setValues k = none)
    (hfresh : d.hasBind d.next = false) :
    removeValue p (setValue p (.one v) d).2 = (.ok (), { d with next := d.next + 1 }) := by
  rw [set_fresh_plain d p k v sid hnt hsp hf hs hr hb]
  obtain ⟨vs, o, m, r, ht⟩ := setValues_of_setSid hs
  simp only [ht, setValues] at hr hb
  generalize hd1 : ({ d.updSet sid (appendBothF (.bind d.next k false v [] [])) with next := d.next + 1 } : Doc) = d1
  have htg : d1.target = .set sid (vs ++ [.bind d.next k false v [] []])
      (if o.isEmpty then o else o ++ [.bind d.next k false v [] []]) m r := by
    subst hd1; simp [ht, updSet, appendBothF]
  have hr' : findAttrpathRoot d1.target.setValues k = none := by
    rw [htg]; exact findAttrpathRoot_append_plain vs k _ _ _ _ _ hr
  have hb' : findBinding d1.target.setValues k = some (.bind d.next k false v [] []) := by
    rw [htg]; exact findBinding_append_new vs k _ _ _ _ _ hb
  have hs' : d1.target.setSid? = some sid := by rw [htg]; rfl
  rw [rm_plain d1 p k d.next k false v [] [] sid (by subst hd1; exact hnt) hsp hf hs' hr' hb']
  congr 1
  subst hd1
  show ({ (d.updSet sid _).updSet sid _ with next := d.next + 1 } : Doc) = _
  rw [Doc.updSet_fuse sid _ _ (appendBothF_sid _ sid), Doc.updSet_eq_mapNodes,
    Doc.mapNodes_eq_self _ d (fun x hx =>
      updSet_erase_append_fix d.next k v sid x (Doc.not_hasBind_nodes hfresh x hx))]

/-- two `set`s on distinct existing plain bindings commute -/
theorem set_comm_existing (d : Doc) (p q kp kq : Text) (v w : Node)
    (bp : Nat) (nmp : Text) (nep : Bool) (valp : Node) (bfp afp : Payload)
    (bq : Nat) (nmq : Text) (neq : Bool) (valq : Node) (bfq afq : Payload)
    (hnt : d.noTarget = none)
    (hspp : splitScopeNpath p = .ok none) (hfp : formatNPath currentAnchor p = .ok [kp])
    (hspq : splitScopeNpath q = .ok none) (hfq : formatNPath currentAnchor q = .ok [kq])
    (hrp : findAttrpathRoot d.target.setValues kp = none)
    (hrq : findAttrpathRoot d.target.setValues kq = none)
    (hbp : findBinding d.target.setValues kp = some (.bind bp nmp nep valp bfp afp))
    (hbq : findBinding d.target.setValues kq = some (.bind bq nmq neq valq bfq afq))
    (hvalp : valp.isIdent = false) (hvalq : valq.isIdent = false)
    (hne : bp ≠ bq) (hv : hasBind bq v = false) (hw : hasBind bp w = false) :
    setValue q (.one w) (setValue p (.one v) d).2 = (.ok (), (d.updBind bp v).updBind bq w) ∧
    setValue p (.one v) (setValue q (.one w) d).2 = (.ok (), (d.updBind bp v).updBind bq w) := by
  rw [set_existing_plain d p kp v bp nmp nep valp bfp afp hnt hspp hfp hrp hbp hvalp,
    set_existing_plain d q kq w bq nmq neq valq bfq afq hnt hspq hfq hrq hbq hvalq]
  constructor
  · have hr' : findAttrpathRoot (d.updBind bp v).target.setValues kq = none := by
      simp [findAttrpathRoot_updBindL, hrq]
    have hb' : findBinding (d.updBind bp v).target.setValues kq =
        some (.bind bq nmq neq (updBind bp v valq) bfq afq) := by
      simp [findBinding_updBindL, hbq, updBind, Ne.symm hne]
    exact set_existing_plain (d.updBind bp v) q kq w bq nmq neq _ bfq afq (by simpa using hnt) hspq hfq hr' hb'
      (by rw [isIdent_updBind]; exact hvalq)
  · have hr' : findAttrpathRoot (d.updBind bq w).target.setValues kp = none := by
      simp [findAttrpathRoot_updBindL, hrp]
    have hb' : findBinding (d.updBind bq w).target.setValues kp =
        some (.bind bp nmp nep (updBind bq w valp) bfp afp) := by
      simp [findBinding_updBindL, hbp, updBind, hne]
    rw [set_existing_plain (d.updBind bq w) p kp v bp nmp nep _ bfp afp (by simpa using hnt) hspp hfp hr' hb'
      (by rw [isIdent_updBind]; exact hvalp)]
    rw [Doc.updBind_comm bq bp w v (Ne.symm hne) hw hv]

end Nima
