import NimaVerif.Lemmas.Frag
import NimaVerif.Model.FragSpec
/-! The lexical content (code tokens and comment tokens, in order) of the piece-level renderer's
output, for expressions as `fromCst` builds them. Core Lean only. -/
namespace Nima.Frag
open Nima

/-! ### lexical content of a piece list -/

@[simp] theorem lexOf_nil : lexOf [] = [] := rfl
@[simp] theorem lexOf_append (a b : List FP) : lexOf (a ++ b) = lexOf a ++ lexOf b := by simp [lexOf]
@[simp] theorem lexOf_tok (s : Text) (ps : List FP) : lexOf (.tok s :: ps) = .tok s :: lexOf ps := by
  simp [lexOf, FP.lex?]
@[simp] theorem lexOf_cmt (s : Text) (ps : List FP) : lexOf (.cmt s :: ps) = .cmt s :: lexOf ps := by
  simp [lexOf, FP.lex?]
@[simp] theorem lexOf_ws (s : Text) (ps : List FP) : lexOf (.ws s :: ps) = lexOf ps := by
  show List.filterMap FP.lex? (FP.ws s :: ps) = _
  rw [List.filterMap_cons_none rfl]; rfl
theorem lexOf_ite (c : Prop) [Decidable c] (a b : List FP) :
    lexOf (if c then a else b) = if c then lexOf a else lexOf b := by split <;> rfl

/-- a token or comment piece is not empty and does not end in a line break -/
def FP.solid : FP → Prop
  | .ws _ => True
  | .tok s => s ≠ [] ∧ endsWithNL s = false
  | .cmt s => s ≠ [] ∧ endsWithNL s = false

def Solid (ps : List FP) : Prop := ∀ p ∈ ps, p.solid

theorem solid_nil : Solid [] := by intro p h; cases h
theorem solid_append {a b : List FP} (ha : Solid a) (hb : Solid b) : Solid (a ++ b) := by
  intro p h; rcases List.mem_append.mp h with h | h
  · exact ha p h
  · exact hb p h
theorem solid_cons {p : FP} {ps : List FP} (hp : p.solid) (hs : Solid ps) : Solid (p :: ps) := by
  intro q h; rcases List.mem_cons.mp h with h | h
  · subst h; exact hp
  · exact hs q h
theorem solid_of_cons {p : FP} {ps : List FP} (h : Solid (p :: ps)) : p.solid ∧ Solid ps :=
  ⟨h p (List.mem_cons_self ..), fun q hq => h q (List.mem_cons_of_mem _ hq)⟩
theorem solid_ws (s : Text) : (FP.ws s).solid := trivial
theorem solid_ite (c : Prop) [Decidable c] {a b : List FP} (ha : Solid a) (hb : Solid b) :
    Solid (if c then a else b) := by split <;> assumption

theorem withText_self (p : FP) : p.withText p.text = p := by cases p <;> rfl

theorem lex_withText_ws (s t : Text) : (FP.ws s).withText t = .ws t := rfl

/-- a solid piece whose text consists of line breaks only is whitespace -/
theorem solid_allNL_isWs {p : FP} (hp : p.solid) (h : p.text.all (· == '\n') = true) : p.lex? = none := by
  cases p with
  | ws s => rfl
  | tok s =>
    exfalso
    obtain ⟨hne, hnl⟩ := hp
    have : s.getLast? = some '\n' := by
      obtain ⟨c, hc⟩ : ∃ c, s.getLast? = some c := by
        cases hs : s.getLast? with
        | none => exact absurd (List.getLast?_eq_none_iff.mp hs) hne
        | some c => exact ⟨c, rfl⟩
      have hmem : c ∈ s := List.mem_of_getLast? hc
      have : (c == '\n') = true := (List.all_eq_true.mp h) c hmem
      rw [hc]; simp at this; rw [this]
    simp [endsWithNL, this] at hnl
  | cmt s =>
    exfalso
    obtain ⟨hne, hnl⟩ := hp
    have : s.getLast? = some '\n' := by
      obtain ⟨c, hc⟩ : ∃ c, s.getLast? = some c := by
        cases hs : s.getLast? with
        | none => exact absurd (List.getLast?_eq_none_iff.mp hs) hne
        | some c => exact ⟨c, rfl⟩
      have hmem : c ∈ s := List.mem_of_getLast? hc
      have : (c == '\n') = true := (List.all_eq_true.mp h) c hmem
      rw [hc]; simp at this; rw [this]
    simp [endsWithNL, this] at hnl

theorem lexOf_of_allNL : ∀ {ps : List FP}, Solid ps → (concat ps).all (· == '\n') = true → lexOf ps = []
  | [], _, _ => rfl
  | p :: rest, hs, h => by
    obtain ⟨hp, hr⟩ := solid_of_cons hs
    rw [concat_cons, List.all_append, Bool.and_eq_true] at h
    have h1 := solid_allNL_isWs hp h.1
    have h2 := lexOf_of_allNL hr h.2
    simp [lexOf, h1] at h2 ⊢
    exact h2

theorem lexOf_of_concat_nil {ps : List FP} (hs : Solid ps) (h : concat ps = []) : lexOf ps = [] :=
  lexOf_of_allNL hs (by rw [h]; rfl)

/-! ### the cuts touch whitespace only -/

theorem endsWithNL_false_of_solid_nonws {p : FP} (hp : p.solid) (h : p.lex? ≠ none) :
    p.text ≠ [] ∧ endsWithNL p.text = false := by
  cases p with
  | ws s => exact absurd rfl h
  | tok s => exact hp
  | cmt s => exact hp

/-- cutting the final line break off a solid piece list touches whitespace only -/
theorem dropLastCharP_solid : ∀ {ps : List FP}, Solid ps → endsWithNL (concat ps) = true →
    lexOf (dropLastCharP ps) = lexOf ps ∧ Solid (dropLastCharP ps)
  | [], _, h => by simp [endsWithNL] at h
  | p :: rest, hs, h => by
    obtain ⟨hp, hr⟩ := solid_of_cons hs
    simp only [dropLastCharP]
    by_cases he : (concat rest).isEmpty = true
    · have h0 : concat rest = [] := by simpa using he
      have hl : lexOf rest = [] := lexOf_of_concat_nil hr h0
      rw [concat_cons, h0, List.append_nil] at h
      have hpw : p.lex? = none := by
        cases hq : p.lex? with
        | none => rfl
        | some l =>
          have := endsWithNL_false_of_solid_nonws hp (by rw [hq]; simp)
          rw [this.2] at h; cases h
      simp only [he, if_true]
      have hlp : lexOf (p :: rest) = [] := by
        show List.filterMap FP.lex? (p :: rest) = []
        rw [List.filterMap_cons_none hpw]; exact hl
      rw [hlp]
      cases p with
      | ws s =>
        split
        · exact ⟨rfl, solid_nil⟩
        · exact ⟨by simp [FP.withText], solid_cons (solid_ws _) solid_nil⟩
      | tok s => simp [FP.lex?] at hpw
      | cmt s => simp [FP.lex?] at hpw
    · have h0 : concat rest ≠ [] := by simpa using he
      simp only [he]
      rw [concat_cons, endsWithNL_append_of_ne_nil _ _ h0] at h
      obtain ⟨ih1, ih2⟩ := dropLastCharP_solid hr h
      refine ⟨?_, solid_cons hp ih2⟩
      simp only [Bool.false_eq_true, if_false]
      show List.filterMap FP.lex? (p :: dropLastCharP rest) = List.filterMap FP.lex? (p :: rest)
      simp only [List.filterMap_cons]
      have : List.filterMap FP.lex? (dropLastCharP rest) = List.filterMap FP.lex? rest := ih1
      rw [this]

theorem rstripNL_of_solid {s : Text} (hne : s ≠ []) (h : endsWithNL s = false) : rstripNL s = s := by
  unfold rstripNL
  have : s.reverse.dropWhile (· == '\n') = s.reverse := by
    cases hr : s.reverse with
    | nil => rfl
    | cons c r =>
      have hl : s.getLast? = some c := by
        rw [List.getLast?_eq_head?_reverse, hr]; rfl
      have hc : (c == '\n') = false := by
        cases hcc : (c == '\n') with
        | false => rfl
        | true =>
          have : c = '\n' := by simpa using hcc
          subst this
          simp [endsWithNL, hl] at h
      simp [List.dropWhile_cons, hc]
  rw [this, List.reverse_reverse]

/-- `rstrip("\n")` on a solid piece list touches whitespace only -/
theorem rstripNLP_solid : ∀ {ps : List FP}, Solid ps →
    lexOf (rstripNLP ps) = lexOf ps ∧ Solid (rstripNLP ps)
  | [], _ => ⟨rfl, solid_nil⟩
  | p :: rest, hs => by
    obtain ⟨hp, hr⟩ := solid_of_cons hs
    simp only [rstripNLP]
    by_cases ha : (concat rest).all (· == '\n') = true
    · simp only [ha, if_true]
      have hl : lexOf rest = [] := lexOf_of_allNL hr ha
      cases p with
      | ws s =>
        have : lexOf (FP.ws s :: rest) = [] := by simp [hl]
        rw [this]
        split
        · exact ⟨rfl, solid_nil⟩
        · exact ⟨by simp [FP.withText], solid_cons (solid_ws _) solid_nil⟩
      | tok s =>
        have hrs := rstripNL_of_solid hp.1 hp.2
        have hne : (rstripNL (FP.tok s).text).isEmpty = false := by
          show (rstripNL s).isEmpty = false
          rw [hrs]; cases s with | nil => exact absurd rfl hp.1 | cons _ _ => rfl
        simp only [hne]
        show lexOf [FP.tok (rstripNL s)] = _ ∧ Solid [FP.tok (rstripNL s)]
        rw [hrs]
        exact ⟨by simp [hl], solid_cons hp solid_nil⟩
      | cmt s =>
        have hrs := rstripNL_of_solid hp.1 hp.2
        have hne : (rstripNL (FP.cmt s).text).isEmpty = false := by
          show (rstripNL s).isEmpty = false
          rw [hrs]; cases s with | nil => exact absurd rfl hp.1 | cons _ _ => rfl
        simp only [hne]
        show lexOf [FP.cmt (rstripNL s)] = _ ∧ Solid [FP.cmt (rstripNL s)]
        rw [hrs]
        exact ⟨by simp [hl], solid_cons hp solid_nil⟩
    · simp only [ha]
      obtain ⟨ih1, ih2⟩ := rstripNLP_solid hr
      refine ⟨?_, solid_cons hp ih2⟩
      simp only [Bool.false_eq_true, if_false]
      show List.filterMap FP.lex? (p :: rstripNLP rest) = List.filterMap FP.lex? (p :: rest)
      simp only [List.filterMap_cons]
      have : List.filterMap FP.lex? (rstripNLP rest) = List.filterMap FP.lex? rest := ih1
      rw [this]

/-! ### trivia renderers -/

/-- a comment of the fragment: its text has no line break (line comments and one-line block comments) -/
def cOk (c : Comment) : Prop := containsNL c.text = false

/-- trivia lists as `fromCst` builds them: no `,` sentinel, one-line comments -/
def TrivOk (ts : List Trivia) : Prop := CommaFree ts ∧ ∀ c, Trivia.comment c ∈ ts → cOk c

/-- the comments of a trivia list as lexical items (rendered token) -/
def cm (ts : List Trivia) : List Lex :=
  ts.filterMap fun
    | .comment c => some (.cmt (c.token 0))
    | _ => none

@[simp] theorem cm_nil : cm [] = [] := rfl
@[simp] theorem cm_append (a b : List Trivia) : cm (a ++ b) = cm a ++ cm b := by simp [cm]
@[simp] theorem cm_emptyLine (ts : List Trivia) : cm (.emptyLine :: ts) = cm ts := by
  show List.filterMap _ _ = _; rw [List.filterMap_cons_none rfl]; rfl
@[simp] theorem cm_linebreak (ts : List Trivia) : cm (.linebreak :: ts) = cm ts := by
  show List.filterMap _ _ = _; rw [List.filterMap_cons_none rfl]; rfl
@[simp] theorem cm_comment (c : Comment) (ts : List Trivia) : cm (.comment c :: ts) = .cmt (c.token 0) :: cm ts := by
  simp [cm]

theorem trivOk_nil : TrivOk [] := ⟨by simp [CommaFree], by intro c h; cases h⟩
theorem trivOk_cons {t : Trivia} {ts : List Trivia} (h : TrivOk (t :: ts)) : TrivOk ts :=
  ⟨commaFree_cons h.1, fun c hc => h.2 c (List.mem_cons_of_mem _ hc)⟩
theorem trivOk_append {a b : List Trivia} (ha : TrivOk a) (hb : TrivOk b) : TrivOk (a ++ b) :=
  ⟨commaFree_append.mpr ⟨ha.1, hb.1⟩, fun c hc => by
    rcases List.mem_append.mp hc with h | h
    · exact ha.2 c h
    · exact hb.2 c h⟩
theorem trivOk_of_append {a b : List Trivia} (h : TrivOk (a ++ b)) : TrivOk a ∧ TrivOk b :=
  ⟨⟨(commaFree_append.mp h.1).1, fun c hc => h.2 c (List.mem_append_left _ hc)⟩,
   ⟨(commaFree_append.mp h.1).2, fun c hc => h.2 c (List.mem_append_right _ hc)⟩⟩

theorem cOk_tokenLike {c : Comment} (h : cOk c) : c.tokenLike = true := by
  unfold Comment.tokenLike; cases c.kind <;> simp [h, cOk] <;> exact h

/-- the token of a one-line comment does not depend on the column it is written at -/
theorem token_indep {c : Comment} (h : cOk c) (i : Nat) : c.token i = c.token 0 := by
  unfold Comment.token
  cases c.kind with
  | line => rfl
  | block doc ii => simp [show containsNL c.text = false from h]

theorem cmtP_lex {c : Comment} (h : cOk c) (i : Nat) : lexOf (cmtP c i) = [.cmt (c.token 0)] := by
  simp [cmtP, token_indep h]

theorem cmtP_solid {c : Comment} (h : cOk c) (i : Nat) : Solid (cmtP c i) := by
  unfold cmtP
  refine solid_cons (solid_ws _) (solid_cons ?_ solid_nil)
  exact ⟨token_ne_nil c _ (cOk_tokenLike h), token_not_endsWithNL c _ (cOk_tokenLike h)⟩

theorem fmtGoP_lex (i : Nat) : ∀ (ts : List Trivia) (acc : List FP) (e : Bool), TrivOk ts → Solid acc →
    lexOf (fmtGoP i ts acc e) = lexOf acc ++ cm ts ∧ Solid (fmtGoP i ts acc e)
  | [], acc, e, _, ha => by simp [fmtGoP, ha]
  | .emptyLine :: rest, acc, e, h, ha => by
    have := fmtGoP_lex i rest (acc ++ [.ws ['\n']]) true (trivOk_cons h)
      (solid_append ha (solid_cons (solid_ws _) solid_nil))
    simp only [fmtGoP]; simpa using this
  | .linebreak :: rest, acc, e, h, ha => by
    have := fmtGoP_lex i rest acc e (trivOk_cons h) ha
    simp only [fmtGoP]; simpa using this
  | .comma :: rest, acc, e, h, _ => by
    exact absurd (List.mem_cons_self ..) h.1
  | .comment c :: rest, acc, e, h, ha => by
    have hc : cOk c := h.2 c (List.mem_cons_self ..)
    have := fmtGoP_lex i rest (acc ++ cmtP c i ++ [.ws ['\n']]) true (trivOk_cons h)
      (solid_append (solid_append ha (cmtP_solid hc i)) (solid_cons (solid_ws _) solid_nil))
    simp only [fmtGoP]
    rw [this.1]
    exact ⟨by simp [cmtP_lex hc], this.2⟩

theorem fmtP_lex {ts : List Trivia} (h : TrivOk ts) (i : Nat) : lexOf (fmtP ts i) = cm ts := by
  have := (fmtGoP_lex i ts [] true h solid_nil).1; simpa [fmtP] using this
theorem fmtP_solid {ts : List Trivia} (h : TrivOk ts) (i : Nat) : Solid (fmtP ts i) :=
  (fmtGoP_lex i ts [] true h solid_nil).2

theorem trimP_lex (ts : List Trivia) {ps : List FP} (h : Solid ps) :
    lexOf (trimP ts ps) = lexOf ps ∧ Solid (trimP ts ps) := by
  unfold trimP
  cases ts.getLast? with
  | none => exact ⟨rfl, h⟩
  | some t =>
    simp only
    split
    · rename_i hc
      simp only [Bool.and_eq_true] at hc
      exact dropLastCharP_solid h hc.2
    · exact ⟨rfl, h⟩

theorem nlBlockP_lex {ps : List FP} (h : Solid ps) : lexOf (nlBlockP ps) = lexOf ps ∧ Solid (nlBlockP ps) := by
  unfold nlBlockP
  split
  · rename_i he
    have : concat ps = [] := by simpa using he
    exact ⟨(lexOf_of_concat_nil h this).symm, solid_nil⟩
  · exact ⟨by simp, solid_cons (solid_ws _) h⟩

theorem trailP_lex {after : List Trivia} (h : TrivOk after) (i : Nat) :
    lexOf (trailP after i) = cm after ∧ Solid (trailP after i) := by
  unfold trailP
  match after, h with
  | [], _ => exact ⟨rfl, solid_nil⟩
  | .emptyLine :: rest, h =>
    have h1 := trimP_lex (.emptyLine :: rest) (fmtP_solid h i)
    have h2 := nlBlockP_lex h1.2
    exact ⟨by rw [h2.1, h1.1, fmtP_lex h], h2.2⟩
  | .linebreak :: rest, h =>
    have h1 := trimP_lex (.linebreak :: rest) (fmtP_solid h i)
    have h2 := nlBlockP_lex h1.2
    exact ⟨by rw [h2.1, h1.1, fmtP_lex h], h2.2⟩
  | .comma :: rest, h => exact absurd (List.mem_cons_self ..) h.1
  | .comment c :: rest, h =>
    have hc : cOk c := h.2 c (List.mem_cons_self ..)
    simp only
    split
    · have h1 := trimP_lex (.comment c :: rest) (fmtP_solid (trivOk_cons h) i)
      have h2 := nlBlockP_lex h1.2
      refine ⟨?_, solid_cons (solid_ws _) (solid_append (cmtP_solid hc 0) h2.2)⟩
      simp [cmtP_lex hc, h2.1, h1.1, fmtP_lex (trivOk_cons h)]
    · have h1 := trimP_lex (.comment c :: rest) (fmtP_solid h i)
      have h2 := nlBlockP_lex h1.2
      exact ⟨by rw [h2.1, h1.1, fmtP_lex h], h2.2⟩

theorem indentP_lex (i : Nat) (b : Bool) : lexOf (indentP i b) = [] ∧ Solid (indentP i b) := by
  unfold indentP; split
  · exact ⟨rfl, solid_nil⟩
  · exact ⟨by simp, solid_cons (solid_ws _) solid_nil⟩

theorem bindingTailP_lex {after : List Trivia} (h : TrivOk after) (i : Nat) :
    lexOf (bindingTailP after i) = cm after ∧ Solid (bindingTailP after i) := by
  unfold bindingTailP
  match after, h with
  | [], h => exact trailP_lex h i
  | .emptyLine :: rest, h => exact trailP_lex h i
  | .comma :: rest, h => exact trailP_lex h i
  | .comment c :: rest, h => exact trailP_lex h i
  | .linebreak :: rest, h =>
    have hr := trivOk_cons h
    have hs : Solid (if startsWithNL (concat (fmtP rest i)) = true then fmtP rest i else .ws ['\n'] :: fmtP rest i) :=
      solid_ite _ (fmtP_solid hr i) (solid_cons (solid_ws _) (fmtP_solid hr i))
    have hl : lexOf (if startsWithNL (concat (fmtP rest i)) = true then fmtP rest i else .ws ['\n'] :: fmtP rest i)
        = cm rest := by
      split <;> simp [fmtP_lex hr]
    simp only
    generalize (if startsWithNL (concat (fmtP rest i)) = true then fmtP rest i else FP.ws ['\n'] :: fmtP rest i) = tr
      at hs hl ⊢
    split
    · rename_i he
      have := dropLastCharP_solid hs he
      exact ⟨by rw [this.1, hl]; simp, this.2⟩
    · exact ⟨by rw [hl]; simp, hs⟩

/-! ### expressions -/

def solidT (t : Text) : Prop := t ≠ [] ∧ endsWithNL t = false

mutual
/-- expressions as `fromCst` builds them: token texts are solid, trivia lists are `TrivOk` -/
def Expr.ok : Expr → Prop
  | .leaf _ t b a => solidT t ∧ TrivOk b ∧ TrivOk a
  | .list v _ inner b a => allOk v ∧ TrivOk inner ∧ TrivOk b ∧ TrivOk a
  | .set v _ _ inner b a => allOk v ∧ TrivOk inner ∧ TrivOk b ∧ TrivOk a
  | .binding n v _ b a => solidT n ∧ v.ok ∧ TrivOk b ∧ TrivOk a
  | .paren v _ _ _ _ b a => v.ok ∧ TrivOk b ∧ TrivOk a
  | .app n x _ fa b a => n.ok ∧ x.ok ∧ (∀ c ∈ fa, cOk c) ∧ TrivOk b ∧ TrivOk a
  -- `with` / `assert` from well-formed trees: the interstitial lists hold layout markers only
  | .wth env body awc _ asc b a => env.ok ∧ body.ok ∧ cm awc = [] ∧ asc = [] ∧ TrivOk b ∧ TrivOk a
  | .asrt cond body aac bsc b a => cond.ok ∧ body.ok ∧ cm aac = [] ∧ cm bsc = [] ∧ TrivOk b ∧ TrivOk a
  | .sel e attrs _ ab b a => e.ok ∧ attrs ≠ [] ∧ (∀ x ∈ attrs, solidT x) ∧ cm ab = [] ∧ TrivOk b ∧ TrivOk a
  | .selOr e attrs _ ab d _ db b a =>
    e.ok ∧ attrs ≠ [] ∧ (∀ x ∈ attrs, solidT x) ∧ cm ab = [] ∧ d.ok ∧ cm db = [] ∧ TrivOk b ∧ TrivOk a
  | .lam n bcc _ _ body b a => solidT n ∧ cm bcc = [] ∧ body.ok ∧ TrivOk b ∧ TrivOk a
  | .un op e _ bt b a => (solidT op ∧ op ≠ ['+', '+']) ∧ e.ok ∧ cm bt = [] ∧ TrivOk b ∧ TrivOk a
  | .bin op l r _ _ b a => solidT op ∧ l.ok ∧ r.ok ∧ TrivOk b ∧ TrivOk a
  -- `if` / `?` from well-formed trees: the interstitial lists hold layout markers only
  | .ite c t e _ aic _ btc _ atc _ bec _ aec _ b a =>
    c.ok ∧ t.ok ∧ e.ok ∧ cm aic = [] ∧ cm btc = [] ∧ atc = [] ∧ cm bec = [] ∧ aec = [] ∧ TrivOk b ∧ TrivOk a
  | .has e attrs _ _ bq aq b a =>
    e.ok ∧ attrs ≠ [] ∧ (∀ x ∈ attrs, solidT x) ∧ cm bq = [] ∧ cm aq = [] ∧ TrivOk b ∧ TrivOk a
def allOk : List Expr → Prop
  | [] => True
  | e :: rest => e.ok ∧ allOk rest
end

def recLex (r : Bool) : List Lex := if r then [.tok ['r', 'e', 'c']] else []

/-- the comments after the function of a call as lexical items -/
def cmC (cs : List Comment) : List Lex := cs.map fun c => .cmt (c.token 0)

mutual
/-- tokens and comments of the rendering of an expression, in order -/
def Expr.lexOut : Expr → Bool → List Lex
  | .leaf _ t b a, na => cm b ++ [.tok t] ++ (if na then [] else cm a)
  | .list v _ inner b a, na =>
    cm b ++ [.tok ['[']] ++ (if v.isEmpty then cm inner else lexOutAll v) ++ [.tok [']']] ++
      (if na then [] else cm a)
  | .set v _ r inner b a, na =>
    cm b ++ recLex r ++ [.tok ['{']] ++ (if v.isEmpty then cm inner else lexOutAll v) ++ [.tok ['}']] ++
      (if na then [] else cm a)
  | .binding n v _ b a, na =>
    cm b ++ [.tok n, .tok ['=']] ++ v.lexOut true ++ [.tok [';']] ++ cm (v.after ++ (if na then [] else a))
  | .paren v _ _ _ _ b a, na =>
    cm b ++ [.tok ['(']] ++ v.lexOut false ++ [.tok [')']] ++ (if na then [] else cm a)
  | .app n x _ fa b a, na =>
    cm b ++ n.lexOut false ++ cmC fa ++ x.lexOut false ++ (if na then [] else cm a)
  | .wth env body _ _ _ b a, na =>
    cm b ++ [.tok kwWith] ++ env.lexOut false ++ [.tok [';']] ++ body.lexOut false ++ (if na then [] else cm a)
  -- the trailing trivia of an `assert` are written after its `;`, in front of the body
  | .asrt cond body _ _ b a, na =>
    cm b ++ [.tok kwAssert] ++ cond.lexOut false ++ [.tok [';']] ++ (if na then [] else cm a) ++ body.lexOut false
  | .sel e attrs _ _ b a, na => cm b ++ e.lexOut false ++ attrLex attrs ++ (if na then [] else cm a)
  | .selOr e attrs _ _ d _ _ b a, na =>
    cm b ++ e.lexOut false ++ attrLex attrs ++ [.tok ['o', 'r']] ++ d.lexOut false ++ (if na then [] else cm a)
  | .lam n _ _ _ body b a, na => cm b ++ [.tok n, .tok [':']] ++ body.lexOut false ++ (if na then [] else cm a)
  | .un op e _ _ b a, na => cm b ++ [.tok op] ++ e.lexOut false ++ (if na then [] else cm a)
  | .bin op l r _ _ b a, na => cm b ++ l.lexOut false ++ [.tok op] ++ r.lexOut false ++ (if na then [] else cm a)
  | .ite c t e _ _ _ _ _ _ _ _ _ _ _ b a, na =>
    cm b ++ [.tok kwIf] ++ c.lexOut false ++ [.tok kwThen] ++ t.lexOut false ++ [.tok kwElse] ++ e.lexOut false ++
      (if na then [] else cm a)
  | .has e attrs _ _ _ _ b a, na => cm b ++ e.lexOut false ++ [.tok ['?']] ++ attrLex0 attrs ++ (if na then [] else cm a)
def lexOutAll : List Expr → List Lex
  | [] => []
  | e :: rest => e.lexOut false ++ lexOutAll rest
end

theorem lexOf_joinP_ws (s : Text) : ∀ (xs : List (List FP)), lexOf (joinP [.ws s] xs) = (xs.map lexOf).flatten
  | [] => rfl
  | [x] => by simp [joinP]
  | x :: y :: rest => by
    have := lexOf_joinP_ws s (y :: rest)
    simp only [joinP, lexOf_append, lexOf_ws, lexOf_nil, this]; simp

theorem solid_joinP_ws (s : Text) : ∀ (xs : List (List FP)), (∀ x ∈ xs, Solid x) → Solid (joinP [.ws s] xs)
  | [], _ => solid_nil
  | [x], h => h x (List.mem_cons_self ..)
  | x :: y :: rest, h => by
    simp only [joinP]
    exact solid_append (solid_append (h x (List.mem_cons_self ..)) (solid_cons (solid_ws _) solid_nil))
      (solid_joinP_ws s (y :: rest) (fun z hz => h z (List.mem_cons_of_mem _ hz)))

theorem trimLeading_cm (ts : List Trivia) : cm (trimLeadingLayoutTrivia ts) = cm ts := by
  unfold trimLeadingLayoutTrivia
  induction ts with
  | nil => rfl
  | cons t ts ih =>
    cases t <;> simp [List.dropWhile_cons, Trivia.isLayout, ih]

theorem trimLeading_ok {ts : List Trivia} (h : TrivOk ts) : TrivOk (trimLeadingLayoutTrivia ts) := by
  unfold trimLeadingLayoutTrivia
  have hs : (ts.dropWhile Trivia.isLayout).Sublist ts := List.dropWhile_sublist _
  exact ⟨fun hm => h.1 (hs.mem hm), fun c hc => h.2 c (hs.mem hc)⟩

theorem leafBefore_cm (k : LeafKind) (t : Text) (b : List Trivia) (i : Nat) (inl : Bool) :
    cm (leafBefore k t b i inl) = cm b := by
  unfold leafBefore; split
  · simp only; split
    · exact trimLeading_cm b
    · rfl
  · rfl

theorem leafBefore_ok (k : LeafKind) (t : Text) {b : List Trivia} (h : TrivOk b) (i : Nat) (inl : Bool) :
    TrivOk (leafBefore k t b i inl) := by
  unfold leafBefore; split
  · simp only; split
    · exact trimLeading_ok h
    · exact h
  · exact h

theorem solid_tok {t : Text} (h : solidT t) : Solid [FP.tok t] := solid_cons h solid_nil
theorem solidT_lit (c : Char) (hc : c ≠ '\n') : solidT [c] := by
  refine ⟨by simp, ?_⟩
  simp [endsWithNL]; exact hc

theorem ite_nil_ok (na : Bool) {a : List Trivia} (h : TrivOk a) : TrivOk (if na = true then [] else a) := by
  split
  · exact trivOk_nil
  · exact h

theorem cm_ite_nil (na : Bool) (a : List Trivia) :
    cm (if na = true then [] else a) = if na = true then [] else cm a := by split <;> rfl

theorem multilineBlockP_lex {bp op body : List FP} (closer : Char) (hc : closer ≠ '\n') (i : Nat) (b s : Bool)
    (h1 : Solid bp) (h2 : Solid op) (h3 : Solid body) :
    lexOf (multilineBlockP bp op body closer i b s) = lexOf bp ++ lexOf op ++ lexOf body ++ [.tok [closer]] ∧
    Solid (multilineBlockP bp op body closer i b s) := by
  unfold multilineBlockP
  have hi := indentP_lex i b
  refine ⟨?_, ?_⟩
  · simp only [lexOf_append, hi.1, lexOf_ws, lexOf_tok, lexOf_nil, lexOf_ite]
    simp
  · refine solid_append (solid_append (solid_append (solid_append (solid_append (solid_append h1 hi.2) h2)
      (solid_cons (solid_ws _) solid_nil)) h3) (solid_ite _ solid_nil (solid_cons (solid_ws _) solid_nil)))
      (solid_cons (solid_ws _) (solid_tok (solidT_lit closer hc)))

theorem solid_tokc (c : Char) (hc : c ≠ '\n') {rest : List FP} (h : Solid rest) : Solid (FP.tok [c] :: rest) :=
  solid_cons (p := FP.tok [c]) (solidT_lit c hc) h
theorem solid_wsc (s : Text) {rest : List FP} (h : Solid rest) : Solid (FP.ws s :: rest) :=
  solid_cons (solid_ws s) h

theorem addTriviaP_lex {before after : List Trivia} {core : List FP} (hb : TrivOk before) (ha : TrivOk after)
    (hc : Solid core) (i : Nat) (b : Bool) :
    lexOf (addTriviaP before after core i b) = cm before ++ lexOf core ++ cm after ∧
    Solid (addTriviaP before after core i b) := by
  unfold addTriviaP
  have hi := indentP_lex i b
  have ht := trailP_lex ha i
  refine ⟨by simp [fmtP_lex hb, hi.1, ht.1], ?_⟩
  exact solid_append (solid_append (solid_append (fmtP_solid hb i) hi.2) hc) ht.2

theorem recP_lex (r : Bool) : lexOf (recP r) = recLex r ∧ Solid (recP r) := by
  cases r
  · exact ⟨rfl, solid_nil⟩
  · refine ⟨by simp [recP, recLex], ?_⟩
    exact solid_cons ⟨by simp, by simp [endsWithNL]⟩ (solid_cons (solid_ws _) solid_nil)

theorem fnAfterP_lex : ∀ (cs : List Comment) (acc : List FP) (i : Nat), (∀ c ∈ cs, cOk c) → Solid acc →
    lexOf (fnAfterP acc cs i) = lexOf acc ++ cmC cs ∧ Solid (fnAfterP acc cs i)
  | [], acc, i, _, ha => by simp [fnAfterP, cmC, ha]
  | c :: rest, acc, i, hc, ha => by
    have hc0 := hc c (List.mem_cons_self ..)
    have hr : ∀ c' ∈ rest, cOk c' := fun c' h => hc c' (List.mem_cons_of_mem _ h)
    simp only [fnAfterP]
    split
    · have := fnAfterP_lex rest (acc ++ (if (concat acc).getLast? == some ' ' then [] else [FP.ws [' ']]) ++ cmtP c 0) i hr
        (solid_append (solid_append ha (solid_ite _ solid_nil (solid_cons (solid_ws _) solid_nil))) (cmtP_solid hc0 0))
      refine ⟨?_, this.2⟩
      rw [this.1]; simp [lexOf_ite, cmtP_lex hc0, cmC]
    · have := fnAfterP_lex rest (acc ++ (if endsWithNL (concat acc) = true then [] else [FP.ws ['\n']]) ++ cmtP c i) i hr
        (solid_append (solid_append ha (solid_ite _ solid_nil (solid_cons (solid_ws _) solid_nil))) (cmtP_solid hc0 i))
      refine ⟨?_, this.2⟩
      rw [this.1]; simp [lexOf_ite, cmtP_lex hc0, cmC]

theorem ok_after {e : Expr} (h : e.ok) : TrivOk e.after := by
  cases e with
  | leaf k t b a => exact h.2.2
  | list v m inn b a => exact h.2.2.2
  | set v m r inn b a => exact h.2.2.2
  | binding n v g b a => exact h.2.2.2
  | paren v lg tg lb tb b a => exact h.2.2
  | app n x g fa b a => exact h.2.2.2.2
  | wth e bd c g s b a => exact h.2.2.2.2.2
  | asrt c bd x y b a => exact h.2.2.2.2.2
  | sel e ats g ab b a => exact h.2.2.2.2.2
  | selOr e ats g ab d dg db b a => exact h.2.2.2.2.2.2.2
  | lam n c g k bd b a => exact h.2.2.2.2
  | un o e g bt b a => exact h.2.2.2.2
  | bin o l r x y b a => exact h.2.2.2.2
  | ite c t e cg aic aig btc btg atc tg bec beg aec eg b a => exact h.2.2.2.2.2.2.2.2.2
  | has e ats lg rg bq aq b a => exact h.2.2.2.2.2.2

theorem ok_before {e : Expr} (h : e.ok) : TrivOk e.before := by
  cases e with
  | leaf k t b a => exact h.2.1
  | list v m inn b a => exact h.2.2.1
  | set v m r inn b a => exact h.2.2.1
  | binding n v g b a => exact h.2.2.1
  | paren v lg tg lb tb b a => exact h.2.1
  | app n x g fa b a => exact h.2.2.2.1
  | wth e bd c g s b a => exact h.2.2.2.2.1
  | asrt c bd x y b a => exact h.2.2.2.2.1
  | sel e ats g ab b a => exact h.2.2.2.2.1
  | selOr e ats g ab d dg db b a => exact h.2.2.2.2.2.2.1
  | lam n c g k bd b a => exact h.2.2.2.1
  | un o e g bt b a => exact h.2.2.2.1
  | bin o l r x y b a => exact h.2.2.2.1
  | ite c t e cg aic aig btc btg atc tg bec beg aec eg b a => exact h.2.2.2.2.2.2.2.2.1
  | has e ats lg rg bq aq b a => exact h.2.2.2.2.2.1

theorem leafBefore_nil' (k : LeafKind) (t : Text) (i : Nat) (inl : Bool) : leafBefore k t [] i inl = [] := by
  unfold leafBefore; split
  · simp [trimLeadingLayoutTrivia]
  · rfl

theorem endsWithNL_spaces_append (i : Nat) {X : Text} (hX : X ≠ []) : endsWithNL (spaces i ++ X) = endsWithNL X :=
  endsWithNL_append_of_ne_nil _ _ hX

theorem addTriviaP_nil_split (a : List Trivia) (core : List FP) (i : Nat) :
    addTriviaP [] a core i false = .ws (spaces i) :: addTriviaP [] a core i true := by
  simp [addTriviaP, fmtP, fmtGoP, indentP]

/-- without leading trivia, the own-line rendering is the indentation run followed by the inline one -/
theorem rebuildAP_indent_split {e : Expr} (hok : e.ok) (h : e.before = []) (na : Bool) (i : Nat) :
    e.rebuildAP na i false = .ws (spaces i) :: e.rebuildAP na i true := by
  cases e with
  | leaf k t b a =>
    simp only [Expr.before] at h; subst h
    simp [Expr.rebuildAP, addTriviaP, leafBefore_nil', fmtP, fmtGoP, indentP]
  | list v m inn b a =>
    simp only [Expr.before] at h; subst h
    cases v with
    | nil => simp only [Expr.rebuildAP]; split <;> simp [multilineBlockP, fmtP, fmtGoP, indentP]
    | cons x xs => simp only [Expr.rebuildAP]; split <;> simp [multilineBlockP, fmtP, fmtGoP, indentP]
  | set v m r inn b a =>
    simp only [Expr.before] at h; subst h
    cases v with
    | nil => simp only [Expr.rebuildAP]; split <;> simp [multilineBlockP, addTriviaP, fmtP, fmtGoP, indentP]
    | cons x xs => simp only [Expr.rebuildAP]; split <;> simp [multilineBlockP, addTriviaP, fmtP, fmtGoP, indentP]
  | binding n v g b a =>
    simp only [Expr.before] at h; subst h
    simp [Expr.rebuildAP, fmtP, fmtGoP, indentP]
  | paren v lg tg lb tb b a =>
    simp only [Expr.before] at h; subst h
    simp [Expr.rebuildAP, addTriviaP, fmtP, fmtGoP, indentP]
  | app n x g fa b a =>
    simp only [Expr.before] at h; subst h
    simp [Expr.rebuildAP, addTriviaP, fmtP, fmtGoP, indentP]
  | wth e bd c g s b a =>
    simp only [Expr.before] at h; subst h
    simp [Expr.rebuildAP, addTriviaP, fmtP, fmtGoP, indentP]
  | sel e ats g ab b a =>
    simp only [Expr.before] at h; subst h
    simp [Expr.rebuildAP, addTriviaP, fmtP, fmtGoP, indentP]
  | selOr e ats g ab d dg db b a =>
    simp only [Expr.before] at h; subst h
    simp [Expr.rebuildAP, addTriviaP, fmtP, fmtGoP, indentP]
  | lam n c g k bd b a =>
    simp only [Expr.before] at h; subst h
    simp [Expr.rebuildAP, addTriviaP, fmtP, fmtGoP, indentP]
  | bin o l r x y b a =>
    simp only [Expr.before] at h; subst h
    simp [Expr.rebuildAP, addTriviaP, fmtP, fmtGoP, indentP]
  | ite c t e cg aic aig btc btg atc tg bec beg aec eg b a =>
    simp only [Expr.before] at h; subst h
    simp [Expr.rebuildAP, addTriviaP, fmtP, fmtGoP, indentP]
  | has e ats lg rg bq aq b a =>
    simp only [Expr.before] at h; subst h
    simp [Expr.rebuildAP, addTriviaP, fmtP, fmtGoP, indentP]
  | un o e g bt b a =>
    simp only [Expr.before] at h; subst h
    have hne : (o == ['+', '+']) = false := by
      have := hok.1.2
      simpa using this
    simp [Expr.rebuildAP, addTriviaP, fmtP, fmtGoP, indentP, hne]
  | asrt c bd x y b a =>
    simp only [Expr.before] at h; subst h
    simp only [Expr.rebuildAP, addTriviaP_nil_split, List.cons_append, concat_cons, text_ws]
    rw [endsWithNL_spaces_append i (by simp [addTriviaP, fmtP, fmtGoP, indentP, kwAssert])]

theorem attrP_lex : ∀ (attrs : List Text), attrs ≠ [] → (∀ x ∈ attrs, solidT x) →
    lexOf (FP.tok ['.'] :: attrP attrs) = attrLex attrs ∧ Solid (FP.tok ['.'] :: attrP attrs)
  | [], h, _ => absurd rfl h
  | [a], _, hs => by
    refine ⟨by simp [attrP, attrLex], ?_⟩
    exact solid_tokc '.' (by decide) (solid_tok (hs a (List.mem_cons_self ..)))
  | a :: b :: rest, _, hs => by
    have ih := attrP_lex (b :: rest) (by simp) (fun x hx => hs x (List.mem_cons_of_mem _ hx))
    refine ⟨?_, ?_⟩
    · simp only [attrP, attrLex, lexOf_tok] at ih ⊢
      rw [ih.1]
    · exact solid_tokc '.' (by decide) (solid_cons (p := FP.tok a) (hs a (List.mem_cons_self ..)) ih.2)

/-- the tokens of `a₁.a₂.….aₙ` -/
theorem attrP_lex0 : ∀ (attrs : List Text), attrs ≠ [] → (∀ x ∈ attrs, solidT x) →
    lexOf (attrP attrs) = attrLex0 attrs ∧ Solid (attrP attrs)
  | [], h, _ => absurd rfl h
  | [a], _, hs => ⟨by simp [attrP, attrLex0, attrLex], solid_tok (hs a (List.mem_cons_self ..))⟩
  | a :: b :: rest, _, hs => by
    have ih := attrP_lex (b :: rest) (by simp) (fun x hx => hs x (List.mem_cons_of_mem _ hx))
    refine ⟨?_, solid_cons (p := FP.tok a) (hs a (List.mem_cons_self ..)) ih.2⟩
    simp only [attrP, attrLex0, lexOf_tok] at ih ⊢
    rw [ih.1]

/-- `addTriviaP_lex` in the shape the expression cases use it -/
theorem addTriviaP_lex' {before after : List Trivia} {core : List FP} (hb : TrivOk before) (ha : TrivOk after) (na : Bool)
    {L : List Lex} (hc : lexOf core = L ∧ Solid core) (i : Nat) (b : Bool) (R : List Lex)
    (hR : R = cm before ++ L ++ (if na = true then [] else cm after)) :
    lexOf (addTriviaP before (if na = true then [] else after) core i b) = R ∧
    Solid (addTriviaP before (if na = true then [] else after) core i b) := by
  have := addTriviaP_lex hb (ite_nil_ok na ha) hc.2 i b
  refine ⟨?_, this.2⟩
  rw [this.1, hc.1, hR, cm_ite_nil]

theorem solidT_kwIf : solidT kwIf := ⟨by simp [kwIf], by simp [kwIf, endsWithNL]⟩
theorem solidT_kwThen : solidT kwThen := ⟨by simp [kwThen], by simp [kwThen, endsWithNL]⟩
theorem solidT_kwElse : solidT kwElse := ⟨by simp [kwElse], by simp [kwElse, endsWithNL]⟩

/-- the four layouts of a binary expression: left, separator, operator, separator, right -/
theorem binCoreP_shape (l ro ri : List FP) (op : Text) (ogl rgl i : Nat) :
    ∃ w1 w2 R, binCoreP l ro ri op ogl rgl i = l ++ (FP.ws w1 :: FP.tok op :: FP.ws w2 :: R) ∧ (R = ro ∨ R = ri) := by
  unfold binCoreP
  split
  · split
    · exact ⟨List.replicate ogl '\n' ++ spaces i, List.replicate rgl '\n', ro, by simp, Or.inl rfl⟩
    · exact ⟨List.replicate ogl '\n' ++ spaces i, [' '], ri, by simp, Or.inr rfl⟩
  · split
    · exact ⟨[' '], List.replicate rgl '\n', ro, by simp, Or.inl rfl⟩
    · exact ⟨[' '], [' '], ri, by simp, Or.inr rfl⟩

theorem dropCharsP_ws_spaces (i : Nat) (rest : List FP) (hi : i ≠ 0) :
    dropCharsP (.ws (spaces i) :: rest) i = rest := by
  have hl : (spaces i).length = i := by simp [spaces]
  cases rest with
  | nil => simp [dropCharsP, hi, hl]
  | cons q r => simp [dropCharsP, hi, hl]

theorem noLayoutOrComment_nil {ts : List Trivia} (hok : TrivOk ts) (h : hasLayoutOrComment ts = false) : ts = [] := by
  cases ts with
  | nil => rfl
  | cons t r =>
    exfalso
    cases t with
    | comma => exact hok.1 (List.mem_cons_self ..)
    | emptyLine => simp [hasLayoutOrComment] at h
    | linebreak => simp [hasLayoutOrComment] at h
    | comment c => simp [hasLayoutOrComment] at h

/-- the body of a `with`: a separator, then the body rendered inline or on its own line -/
theorem withBodyPartP_shape {body : Expr} (hbd : body.ok) (awc : List Trivia) (asc : List Comment) (i : Nat) :
    ∃ b' w, withBodyPartP (withBodyForce awc asc body.before) body.absorbable
      (body.rebuildAP false i true) (body.rebuildAP false i false) i = .ws w :: body.rebuildAP false i b' := by
  unfold withBodyPartP
  split
  · rename_i hc
    simp only [Bool.and_eq_true, Bool.not_eq_true'] at hc
    have hbf : body.before = [] := by
      have hf := hc.1
      unfold withBodyForce at hf
      simp only [Bool.or_eq_false_iff] at hf
      exact noLayoutOrComment_nil (ok_before hbd) hf.2
    unfold stripIndentPrefixP
    split
    · rename_i hcond
      simp only [Bool.and_eq_true, bne_iff_ne, ne_eq] at hcond
      rw [rebuildAP_indent_split hbd hbf, dropCharsP_ws_spaces i _ hcond.1]
      exact ⟨true, _, rfl⟩
    · exact ⟨false, _, rfl⟩
  · split
    · exact ⟨false, _, rfl⟩
    · exact ⟨true, _, rfl⟩

theorem solidT_kwWith : solidT kwWith := ⟨by simp [kwWith], by simp [kwWith, endsWithNL]⟩
theorem solidT_kwAssert : solidT kwAssert := ⟨by simp [kwAssert], by simp [kwAssert, endsWithNL]⟩

mutual
theorem rebuildAP_lex : (e : Expr) → e.ok → ∀ (na : Bool) (i : Nat) (b : Bool),
    lexOf (e.rebuildAP na i b) = e.lexOut na ∧ Solid (e.rebuildAP na i b)
  | .leaf k t before after, hok, na, i, b => by
    obtain ⟨ht, hb, ha⟩ := hok
    have := addTriviaP_lex (leafBefore_ok k t hb i b) (ite_nil_ok na ha) (solid_tok ht) i b
    simp only [Expr.rebuildAP, Expr.lexOut]
    refine ⟨?_, this.2⟩
    rw [this.1, leafBefore_cm, cm_ite_nil]; simp
  | .list value ml inner before after, hok, na, i, b => by
    obtain ⟨hv, hin, hb, ha⟩ := hok
    have ht := trailP_lex (ite_nil_ok na ha) i
    have hi := indentP_lex i b
    cases value with
    | nil =>
      simp only [Expr.rebuildAP, Expr.lexOut]
      split
      · have hm := multilineBlockP_lex (bp := fmtP before i) (op := [.tok ['[']]) (body := fmtP inner (i + 2))
          ']' (by decide) i b false (fmtP_solid hb i) (solid_tok (solidT_lit '[' (by decide))) (fmtP_solid hin _)
        refine ⟨?_, solid_append hm.2 ht.2⟩
        simp [hm.1, ht.1, fmtP_lex hb, fmtP_lex hin, cm_ite_nil]
      · rename_i hne
        have hin0 : inner = [] := by simpa using hne
        refine ⟨?_, ?_⟩
        · simp [ht.1, hi.1, fmtP_lex hb, cm_ite_nil, hin0]
        · exact solid_append (solid_append (solid_append (fmtP_solid hb i) hi.2)
            (solid_tokc '[' (by decide) (solid_cons (solid_ws _) (solid_tok (solidT_lit ']' (by decide))))))
            ht.2
    | cons v vs =>
      have ih := fun i b => rebuildAllP_lex (v :: vs) hv i b
      cases ml with
      | true =>
        simp only [Expr.rebuildAP, Expr.lexOut, if_true, Bool.not_true]
        have hj := lexOf_joinP_ws ['\n'] (rebuildAllP (v :: vs) (i + 2) false)
        have hm := multilineBlockP_lex (bp := []) (op := [.tok ['[']])
          (body := joinP [.ws ['\n']] (rebuildAllP (v :: vs) (i + 2) false))
          ']' (by decide) i b true solid_nil (solid_tok (solidT_lit '[' (by decide)))
          (solid_joinP_ws _ _ (ih _ _).2)
        refine ⟨?_, solid_append (solid_append (fmtP_solid hb i) hm.2) ht.2⟩
        simp [hm.1, ht.1, fmtP_lex hb, cm_ite_nil, hj, (ih _ _).1]
      | false =>
        simp only [Expr.rebuildAP, Expr.lexOut, Bool.false_eq_true, if_false, Bool.not_false]
        have hj := lexOf_joinP_ws [' '] (rebuildAllP (v :: vs) i true)
        refine ⟨?_, ?_⟩
        · simp [ht.1, hi.1, fmtP_lex hb, cm_ite_nil, hj, (ih _ _).1]
        · exact solid_append (solid_append (solid_append (solid_append (solid_append (fmtP_solid hb i) hi.2)
            (solid_tokc '[' (by decide) (solid_wsc _ solid_nil)))
            (solid_joinP_ws _ _ (ih _ _).2)) (solid_wsc _ (solid_tok (solidT_lit ']' (by decide))))) ht.2
  | .set values ml r inner before after, hok, na, i, b => by
    obtain ⟨hv, hin, hb, ha⟩ := hok
    have ha' := ite_nil_ok na ha
    have ht := trailP_lex ha' i
    have hr := recP_lex r
    cases values with
    | nil =>
      simp only [Expr.rebuildAP, Expr.lexOut]
      split
      · have hm := multilineBlockP_lex (bp := fmtP before i) (op := recP r ++ [.tok ['{']]) (body := fmtP inner (i + 2))
          '}' (by decide) i b false (fmtP_solid hb i) (solid_append hr.2 (solid_tok (solidT_lit '{' (by decide))))
          (fmtP_solid hin _)
        refine ⟨?_, solid_append hm.2 ht.2⟩
        simp [hm.1, ht.1, fmtP_lex hb, fmtP_lex hin, cm_ite_nil, hr.1]
      · rename_i hne
        have hin0 : inner = [] := by simpa using hne
        have hat := addTriviaP_lex (core := recP r ++ [.tok ['{'], .ws [' '], .tok ['}']]) hb ha'
          (solid_append hr.2 (solid_tokc '{' (by decide) (solid_cons (solid_ws _) (solid_tok (solidT_lit '}' (by decide))))))
          i b
        refine ⟨?_, hat.2⟩
        rw [hat.1]; simp [hr.1, cm_ite_nil, hin0]
    | cons v vs =>
      have ih := fun i b => rebuildAllP_lex (v :: vs) hv i b
      simp only [Expr.rebuildAP, Expr.lexOut]
      split
      · have hj := lexOf_joinP_ws ['\n'] (rebuildAllP (v :: vs) (i + 2) false)
        have hm := multilineBlockP_lex (bp := fmtP before i) (op := recP r ++ [.tok ['{']])
          (body := joinP [.ws ['\n']] (rebuildAllP (v :: vs) (i + 2) false))
          '}' (by decide) i b true (fmtP_solid hb i) (solid_append hr.2 (solid_tok (solidT_lit '{' (by decide))))
          (solid_joinP_ws _ _ (ih _ _).2)
        refine ⟨?_, solid_append hm.2 ht.2⟩
        simp [hm.1, ht.1, fmtP_lex hb, cm_ite_nil, hj, (ih _ _).1, hr.1]
      · have hj := lexOf_joinP_ws [' '] (rebuildAllP (v :: vs) (i + 2) true)
        have hat := addTriviaP_lex
          (core := recP r ++ [.tok ['{'], .ws [' ']] ++ joinP [.ws [' ']] (rebuildAllP (v :: vs) (i + 2) true) ++
            [.ws [' '], .tok ['}']]) hb ha'
          (solid_append (solid_append (solid_append hr.2 (solid_tokc '{' (by decide) (solid_cons (solid_ws _) solid_nil)))
            (solid_joinP_ws _ _ (ih _ _).2)) (solid_cons (solid_ws _) (solid_tok (solidT_lit '}' (by decide)))))
          i b
        refine ⟨?_, hat.2⟩
        rw [hat.1]; simp [hr.1, cm_ite_nil, hj, (ih _ _).1]
  | .binding name value vg before after, hok, na, i, b => by
    obtain ⟨hn, hv, hb, ha⟩ := hok
    have ihv := rebuildAP_lex value hv
    have ihp := previewP_lex value hv
    have hva : TrivOk value.after := by
      cases value with
      | leaf k t b a => exact hv.2.2
      | list v m inn b a => exact hv.2.2.2
      | set v m r inn b a => exact hv.2.2.2
      | binding n v g b a => exact hv.2.2.2
      | paren v lg tg lb tb b a => exact hv.2.2
      | app n x g fa b a => exact hv.2.2.2.2
      | wth e bd c g s b a => exact hv.2.2.2.2.2
      | asrt c bd x y b a => exact hv.2.2.2.2.2
      | sel e ats g ab b a => exact hv.2.2.2.2.2
      | selOr e ats g ab d dg db b a => exact hv.2.2.2.2.2.2.2
      | lam n c g k bd b a => exact hv.2.2.2.2
      | un o e g bt b a => exact hv.2.2.2.2
      | bin o l r x y b a => exact hv.2.2.2.2
      | ite c t e cg aic aig btc btg atc tg bec beg aec eg b a => exact hv.2.2.2.2.2.2.2.2.2
      | has e ats lg rg bq aq b a => exact hv.2.2.2.2.2.2
    have hbt := bindingTailP_lex (trivOk_append hva (ite_nil_ok na ha)) i
    have hi := indentP_lex i b
    simp only [Expr.rebuildAP, Expr.lexOut]
    generalize hon : bindOnNewline vg value.before = on
    generalize hvi : bindValIndent vg value.before i = vi
    have hval : lexOf ((if on = true then none else value.previewP vi).getD (value.rebuildAP true vi (!on))) =
          value.lexOut true ∧
        Solid ((if on = true then none else value.previewP vi).getD (value.rebuildAP true vi (!on))) := by
      cases on
      · simp only [Bool.false_eq_true, if_false]
        cases hp : value.previewP vi with
        | none => exact ihv true vi _
        | some p => exact ihp vi p hp
      · exact ihv true vi _
    have hrs := rstripNLP_solid hval.2
    refine ⟨?_, ?_⟩
    · simp [fmtP_lex hb, hi.1, hrs.1, hval.1, hbt.1]
    · exact solid_append (solid_append (solid_append (solid_append (solid_append (fmtP_solid hb i) hi.2)
        (solid_cons hn (solid_cons (solid_ws _) (solid_tokc '=' (by decide) (solid_cons (solid_ws _) solid_nil)))))
        hrs.2) (solid_tok (solidT_lit ';' (by decide)))) hbt.2
  | .paren value lg tg lb tb before after, hok, na, i, b => by
    obtain ⟨hv, hb, ha⟩ := hok
    have ihv := rebuildAP_lex value hv false
    simp only [Expr.rebuildAP, Expr.lexOut]
    generalize (Layout.fromGap lg).onNewline = on1
    generalize (Layout.fromGap tg).onNewline = on2
    generalize (Layout.fromGap lg).indent.getD (i + 2) = vi
    have hinner : lexOf (if on1 = true then FP.ws (nlSep lb) :: value.rebuildAP false vi false
          else value.rebuildAP false i true) = value.lexOut false ∧
        Solid (if on1 = true then FP.ws (nlSep lb) :: value.rebuildAP false vi false
          else value.rebuildAP false i true) := by
      split
      · exact ⟨by simp [(ihv _ _).1], solid_wsc _ (ihv _ _).2⟩
      · exact ihv _ _
    have hinner2 : lexOf (if on2 = true then (if on1 = true then FP.ws (nlSep lb) :: value.rebuildAP false vi false
          else value.rebuildAP false i true) ++ [FP.ws (nlSep tb ++ spaces i)]
          else (if on1 = true then FP.ws (nlSep lb) :: value.rebuildAP false vi false
          else value.rebuildAP false i true)) = value.lexOut false ∧
        Solid (if on2 = true then (if on1 = true then FP.ws (nlSep lb) :: value.rebuildAP false vi false
          else value.rebuildAP false i true) ++ [FP.ws (nlSep tb ++ spaces i)]
          else (if on1 = true then FP.ws (nlSep lb) :: value.rebuildAP false vi false
          else value.rebuildAP false i true)) := by
      split
      · exact ⟨by simp [hinner.1], solid_append hinner.2 (solid_wsc _ solid_nil)⟩
      · exact hinner
    have hat := addTriviaP_lex (core := FP.tok ['('] :: (if on2 = true then (if on1 = true then
          FP.ws (nlSep lb) :: value.rebuildAP false vi false else value.rebuildAP false i true) ++
          [FP.ws (nlSep tb ++ spaces i)]
          else (if on1 = true then FP.ws (nlSep lb) :: value.rebuildAP false vi false
          else value.rebuildAP false i true)) ++ [FP.tok [')']]) hb (ite_nil_ok na ha)
      (solid_tokc '(' (by decide) (solid_append hinner2.2 (solid_tok (solidT_lit ')' (by decide))))) i b
    refine ⟨?_, hat.2⟩
    rw [hat.1]; simp [hinner2.1, cm_ite_nil]
  | .app name arg g fa before after, hok, na, i, b => by
    obtain ⟨hn, hx, hfa, hb, ha⟩ := hok
    have ihn := rebuildAP_lex name hn false i true
    have ihx := rebuildAP_lex arg hx false
    simp only [Expr.rebuildAP, Expr.lexOut]
    generalize (Layout.fromGap g).onNewline = on
    generalize (if on = true then (Layout.fromGap g).indent.getD (i + 2) else i) = ai
    generalize (if (Layout.fromGap g).blankLine = true then ['\n', '\n'] else if on = true then ['\n'] else [' ']) = sep
    have hf := fnAfterP_lex fa _ i hfa ihn.2
    have hargs : lexOf (if (on && startsNonSpace (concat (arg.rebuildAP false ai (!on)))) = true then
          FP.ws (spaces ai) :: arg.rebuildAP false ai (!on) else arg.rebuildAP false ai (!on)) = arg.lexOut false ∧
        Solid (if (on && startsNonSpace (concat (arg.rebuildAP false ai (!on)))) = true then
          FP.ws (spaces ai) :: arg.rebuildAP false ai (!on) else arg.rebuildAP false ai (!on)) := by
      split
      · exact ⟨by simp [(ihx _ _).1], solid_wsc _ (ihx _ _).2⟩
      · exact ihx _ _
    revert hargs
    generalize (if (on && startsNonSpace (concat (arg.rebuildAP false ai (!on)))) = true then
          FP.ws (spaces ai) :: arg.rebuildAP false ai (!on) else arg.rebuildAP false ai (!on)) = argsP
    intro hargs
    have hat := addTriviaP_lex (core := fnAfterP (name.rebuildAP false i true) fa i ++ FP.ws sep :: argsP)
      hb (ite_nil_ok na ha) (solid_append hf.2 (solid_wsc _ hargs.2)) i b
    refine ⟨?_, hat.2⟩
    rw [hat.1]; simp [hf.1, ihn.1, hargs.1, cm_ite_nil]
  | .wth env body awc awGap asc before after, hok, na, i, b => by
    obtain ⟨he, hbd, _, hasc, hb, ha⟩ := hok
    subst hasc
    have ihe := rebuildAP_lex env he false
    have ihb := rebuildAP_lex body hbd false i
    simp only [Expr.rebuildAP, Expr.lexOut]
    have henv : lexOf (if (withLayout awc awGap).onNewline = true
          then env.rebuildAP false ((withLayout awc awGap).indent.getD i) false else env.rebuildAP false i true) =
          env.lexOut false ∧
        Solid (if (withLayout awc awGap).onNewline = true
          then env.rebuildAP false ((withLayout awc awGap).indent.getD i) false else env.rebuildAP false i true) := by
      split
      · exact ihe _ _
      · exact ihe _ _
    have hbody : lexOf (withBodyPartP (withBodyForce awc [] body.before) body.absorbable
          (body.rebuildAP false i true) (body.rebuildAP false i false) i) = body.lexOut false ∧
        Solid (withBodyPartP (withBodyForce awc [] body.before) body.absorbable
          (body.rebuildAP false i true) (body.rebuildAP false i false) i) := by
      obtain ⟨b', w, hsh⟩ := withBodyPartP_shape hbd awc [] i
      rw [hsh]
      exact ⟨by simp [(ihb b').1], solid_wsc _ (ihb b').2⟩
    revert henv hbody
    generalize (if (withLayout awc awGap).onNewline = true
          then env.rebuildAP false ((withLayout awc awGap).indent.getD i) false else env.rebuildAP false i true) = envP
    generalize (withBodyPartP (withBodyForce awc [] body.before) body.absorbable
          (body.rebuildAP false i true) (body.rebuildAP false i false) i) = bodyP
    intro henv hbody
    have hat := addTriviaP_lex
      (core := [FP.tok kwWith, FP.ws ((formatInterstitialTriviaWithSeparator awc (withLayout awc awGap) i
          (includeIndent := false) (dropBlankIfItems := false)).1 ++
          (formatInterstitialTriviaWithSeparator awc (withLayout awc awGap) i
          (includeIndent := false) (dropBlankIfItems := false)).2)] ++ envP ++
        [FP.tok [';'], FP.ws (formatInlineCommentSuffix [])] ++ bodyP)
      hb (ite_nil_ok na ha)
      (solid_append (solid_append (solid_append (solid_cons (p := FP.tok kwWith) solidT_kwWith (solid_wsc _ solid_nil)) henv.2)
        (solid_tokc ';' (by decide) (solid_wsc _ solid_nil))) hbody.2) i b
    refine ⟨?_, hat.2⟩
    rw [hat.1]; simp [henv.1, hbody.1, cm_ite_nil]
  | .asrt cond body aac bsc before after, hok, na, i, b => by
    obtain ⟨hc, hbd, _, _, hb, ha⟩ := hok
    have ihc := rebuildAP_lex cond hc false
    have ihb := rebuildAP_lex body hbd false i false
    simp only [Expr.rebuildAP, Expr.lexOut]
    generalize (triviaForcesNewline aac || !inlineIsAbsorbed (concat (cond.rebuildAP false i true))) = onNL
    have hcond : lexOf (if onNL = true then cond.rebuildAP false (i + 2) false else cond.rebuildAP false i true) =
          cond.lexOut false ∧
        Solid (if onNL = true then cond.rebuildAP false (i + 2) false else cond.rebuildAP false i true) := by
      split
      · exact ihc _ _
      · exact ihc _ _
    revert hcond
    generalize (if onNL = true then cond.rebuildAP false (i + 2) false else cond.rebuildAP false i true) = condP
    intro hcond
    generalize (formatInterstitialTriviaWithSeparator aac (asrtLayout onNL i) (if onNL = true then i + 2 else i)
      (includeIndent := false) (stripLeadingNLAfter := some (concat condP))) = r1
    generalize (if bsc.isEmpty = true then (([], []) : Text × Text)
      else formatInterstitialTriviaWithSeparator bsc { onNewline := true, blankLine := false, indent := some i } i
        (inlineSep := [' ']) (stripLeadingNLAfter := some (concat condP))) = r2
    have hat := addTriviaP_lex (core := [FP.tok kwAssert, FP.ws (r1.1 ++ r1.2)] ++ condP ++ [FP.ws (r2.1 ++ r2.2), FP.tok [';']])
      hb (ite_nil_ok na ha)
      (solid_append (solid_append (solid_cons (p := FP.tok kwAssert) solidT_kwAssert (solid_wsc _ solid_nil)) hcond.2)
        (solid_wsc _ (solid_tok (solidT_lit ';' (by decide))))) i b
    refine ⟨?_, solid_append (solid_append hat.2 (solid_wsc _ solid_nil)) ihb.2⟩
    simp only [lexOf_append, hat.1, lexOf_ws, lexOf_nil, ihb.1]
    simp [hcond.1, cm_ite_nil]
  | .sel expr attrs g ab before after, hok, na, i, b => by
    obtain ⟨he, hne, hat, _, hb, ha⟩ := hok
    have ihe := rebuildAP_lex expr he false i true
    simp only [Expr.rebuildAP, Expr.lexOut]
    have hap := attrP_lex attrs hne hat
    have hatp := addTriviaP_lex (core := expr.rebuildAP false i true ++
        [FP.ws (selSep (concat (expr.rebuildAP false i true)) g ab i), FP.tok ['.']] ++ attrP attrs)
      hb (ite_nil_ok na ha)
      (by
        rw [show expr.rebuildAP false i true ++ [FP.ws (selSep (concat (expr.rebuildAP false i true)) g ab i), FP.tok ['.']] ++
            attrP attrs = expr.rebuildAP false i true ++ (FP.ws (selSep (concat (expr.rebuildAP false i true)) g ab i) ::
            (FP.tok ['.'] :: attrP attrs)) from by simp]
        exact solid_append ihe.2 (solid_wsc _ hap.2)) i b
    refine ⟨?_, hatp.2⟩
    rw [hatp.1]
    have : lexOf (expr.rebuildAP false i true ++ [FP.ws (selSep (concat (expr.rebuildAP false i true)) g ab i), FP.tok ['.']] ++
        attrP attrs) = expr.lexOut false ++ attrLex attrs := by
      rw [show expr.rebuildAP false i true ++ [FP.ws (selSep (concat (expr.rebuildAP false i true)) g ab i), FP.tok ['.']] ++
          attrP attrs = expr.rebuildAP false i true ++ (FP.ws (selSep (concat (expr.rebuildAP false i true)) g ab i) ::
          (FP.tok ['.'] :: attrP attrs)) from by simp]
      rw [lexOf_append, lexOf_ws, hap.1, ihe.1]
    rw [this]; simp [cm_ite_nil]
  | .selOr expr attrs g ab d dg db before after, hok, na, i, b => by
    obtain ⟨he, hne, hat, _, hd, _, hb, ha⟩ := hok
    have ihe := rebuildAP_lex expr he false i true
    have ihd := rebuildAP_lex d hd false (selOrIndent dg i) true
    simp only [Expr.rebuildAP, Expr.lexOut]
    have hap := attrP_lex attrs hne hat
    have hcore : lexOf (expr.rebuildAP false i true ++ [FP.ws (selSep (concat (expr.rebuildAP false i true)) g ab i), FP.tok ['.']] ++
          attrP attrs ++ [FP.ws (selOrSep dg db i), FP.tok ['o', 'r'], FP.ws [' ']] ++
          d.rebuildAP false (selOrIndent dg i) true) =
          expr.lexOut false ++ attrLex attrs ++ [Lex.tok ['o', 'r']] ++ d.lexOut false ∧
        Solid (expr.rebuildAP false i true ++ [FP.ws (selSep (concat (expr.rebuildAP false i true)) g ab i), FP.tok ['.']] ++
          attrP attrs ++ [FP.ws (selOrSep dg db i), FP.tok ['o', 'r'], FP.ws [' ']] ++
          d.rebuildAP false (selOrIndent dg i) true) := by
      rw [show expr.rebuildAP false i true ++ [FP.ws (selSep (concat (expr.rebuildAP false i true)) g ab i), FP.tok ['.']] ++
          attrP attrs ++ [FP.ws (selOrSep dg db i), FP.tok ['o', 'r'], FP.ws [' ']] ++
          d.rebuildAP false (selOrIndent dg i) true =
        expr.rebuildAP false i true ++ (FP.ws (selSep (concat (expr.rebuildAP false i true)) g ab i) ::
          ((FP.tok ['.'] :: attrP attrs) ++ (FP.ws (selOrSep dg db i) :: FP.tok ['o', 'r'] :: FP.ws [' '] ::
          d.rebuildAP false (selOrIndent dg i) true))) from by simp]
      refine ⟨?_, solid_append ihe.2 (solid_wsc _ (solid_append hap.2 (solid_wsc _
        (solid_cons (p := FP.tok ['o', 'r']) ⟨by simp, by simp [endsWithNL]⟩ (solid_wsc _ ihd.2)))))⟩
      rw [lexOf_append, lexOf_ws, lexOf_append, hap.1, lexOf_ws, lexOf_tok, lexOf_ws, ihe.1, ihd.1]
      simp
    have hatp := addTriviaP_lex hb (ite_nil_ok na ha) hcore.2 i b
    refine ⟨?_, hatp.2⟩
    rw [hatp.1, hcore.1]; simp [cm_ite_nil]
  | .lam name bcc g k body before after, hok, na, i, b => by
    obtain ⟨hn, _, hbd, hb, ha⟩ := hok
    have ihb := rebuildAP_lex body hbd false i (k == 0)
    simp only [Expr.rebuildAP, Expr.lexOut]
    have hatp := addTriviaP_lex (core := [FP.tok name, FP.ws (lamColonPrefix bcc g i), FP.tok [':'], FP.ws (lamBreak k)] ++
        body.rebuildAP false i (k == 0)) hb (ite_nil_ok na ha)
      (solid_append (solid_cons (p := FP.tok name) hn (solid_wsc _ (solid_tokc ':' (by decide) (solid_wsc _ solid_nil)))) ihb.2) i b
    refine ⟨?_, hatp.2⟩
    rw [hatp.1]; simp [ihb.1, cm_ite_nil]
  | .un op expr g bt before after, hok, na, i, b => by
    obtain ⟨⟨hop, _⟩, he, _, hb, ha⟩ := hok
    have ihe := rebuildAP_lex expr he false
    simp only [Expr.rebuildAP, Expr.lexOut]
    have hexpr : lexOf (if (unLayout bt g).onNewline = true then expr.rebuildAP false ((unLayout bt g).indent.getD i) false
          else expr.rebuildAP false i true) = expr.lexOut false ∧
        Solid (if (unLayout bt g).onNewline = true then expr.rebuildAP false ((unLayout bt g).indent.getD i) false
          else expr.rebuildAP false i true) := by
      split
      · exact ihe _ _
      · exact ihe _ _
    have hbase : lexOf (if (op == ['+', '+'] && !b) = true then [FP.ws (['\n'] ++ spaces i), FP.tok op] else [FP.tok op]) = [Lex.tok op] ∧
        Solid (if (op == ['+', '+'] && !b) = true then [FP.ws (['\n'] ++ spaces i), FP.tok op] else [FP.tok op]) := by
      split
      · exact ⟨by simp, solid_wsc _ (solid_tok hop)⟩
      · exact ⟨by simp, solid_tok hop⟩
    revert hexpr hbase
    generalize (if (unLayout bt g).onNewline = true then expr.rebuildAP false ((unLayout bt g).indent.getD i) false
          else expr.rebuildAP false i true) = EP
    generalize (if (op == ['+', '+'] && !b) = true then [FP.ws (['\n'] ++ spaces i), FP.tok op] else [FP.tok op]) = BP
    intro hexpr hbase
    have hatp := addTriviaP_lex (core := BP ++ [FP.ws (unSep bt g i)] ++ EP) hb (ite_nil_ok na ha)
      (solid_append (solid_append hbase.2 (solid_wsc _ solid_nil)) hexpr.2) i b
    refine ⟨?_, hatp.2⟩
    rw [hatp.1]; simp [hbase.1, hexpr.1, cm_ite_nil]
  | .bin op left right ogl rgl before after, hok, na, i, b => by
    obtain ⟨hop, hl, hr, hb, ha⟩ := hok
    have ihl := rebuildAP_lex left hl false i true
    have ihr := rebuildAP_lex right hr false
    simp only [Expr.rebuildAP, Expr.lexOut]
    obtain ⟨w1, w2, R, hsh, hR⟩ := binCoreP_shape (left.rebuildAP false i true)
      (FP.ws (spaces (ensureIndentPad (concat (right.rebuildAP false (binRightIndent op right i) right.before.isEmpty))
        (binRightIndent op right i))) :: right.rebuildAP false (binRightIndent op right i) right.before.isEmpty)
      (right.rebuildAP false i true) op ogl rgl i
    rw [hsh]
    have hRl : lexOf R = right.lexOut false ∧ Solid R := by
      rcases hR with h | h <;> subst h
      · exact ⟨by simp [(ihr _ _).1], solid_wsc _ (ihr _ _).2⟩
      · exact ihr _ _
    have hatp := addTriviaP_lex (core := left.rebuildAP false i true ++ (FP.ws w1 :: FP.tok op :: FP.ws w2 :: R))
      hb (ite_nil_ok na ha) (solid_append ihl.2 (solid_wsc _ (solid_cons (p := FP.tok op) hop (solid_wsc _ hRl.2)))) i b
    refine ⟨?_, hatp.2⟩
    rw [hatp.1]; simp [ihl.1, hRl.1, cm_ite_nil]
  | .ite cond thn els cg aic aig btc btg atc tg bec beg aec eg before after, hok, na, i, b => by
    obtain ⟨hc, ht, he, _, _, _, _, _, hb, ha⟩ := hok
    have ihc := rebuildAP_lex cond hc false
    have iht := rebuildAP_lex thn ht false
    have ihe := rebuildAP_lex els he false
    have ihc1 : ∀ j bb, lexOf (cond.rebuildAP false j bb) = cond.lexOut false := fun j bb => (ihc j bb).1
    have iht1 : ∀ j bb, lexOf (thn.rebuildAP false j bb) = thn.lexOut false := fun j bb => (iht j bb).1
    have ihe1 : ∀ j bb, lexOf (els.rebuildAP false j bb) = els.lexOut false := fun j bb => (ihe j bb).1
    simp only [Expr.rebuildAP, Expr.lexOut]
    refine addTriviaP_lex' hb ha na
      (L := [Lex.tok kwIf] ++ cond.lexOut false ++ [Lex.tok kwThen] ++ thn.lexOut false ++ [Lex.tok kwElse] ++ els.lexOut false)
      ⟨?_, ?_⟩ i b _ (by simp)
    · simp [lexOf_ite, ihc1, iht1, ihe1]
    · exact solid_append (solid_append (solid_append (solid_append (solid_append
        (solid_cons (p := FP.tok kwIf) solidT_kwIf (solid_wsc _ solid_nil))
        (solid_ite _ (ihc _ _).2 (ihc _ _).2))
        (solid_wsc _ (solid_cons (p := FP.tok kwThen) solidT_kwThen (solid_wsc _ solid_nil))))
        (solid_ite _ (iht _ _).2 (iht _ _).2))
        (solid_wsc _ (solid_cons (p := FP.tok kwElse) solidT_kwElse (solid_wsc _ solid_nil))))
        (solid_ite _ (ihe _ _).2 (ihe _ _).2)
  | .has expr attrs lg rg bq aq before after, hok, na, i, b => by
    obtain ⟨he, hne, hat, _, _, hb, ha⟩ := hok
    have ihe := rebuildAP_lex expr he false i true
    have hap := attrP_lex0 attrs hne hat
    simp only [Expr.rebuildAP, Expr.lexOut]
    refine addTriviaP_lex' hb ha na (L := expr.lexOut false ++ [Lex.tok ['?']] ++ attrLex0 attrs) ⟨?_, ?_⟩ i b _ (by simp)
    · simp [ihe.1, hap.1]
    · exact solid_append (solid_append ihe.2 (solid_wsc _ (solid_tokc '?' (by decide) (solid_wsc _ solid_nil)))) hap.2
theorem rebuildAllP_lex : (es : List Expr) → allOk es → ∀ (i : Nat) (b : Bool),
    ((rebuildAllP es i b).map lexOf).flatten = lexOutAll es ∧ ∀ x ∈ rebuildAllP es i b, Solid x
  | [], _, i, b => ⟨rfl, by intro x hx; cases hx⟩
  | e :: rest, hok, i, b => by
    obtain ⟨he, hr⟩ := hok
    have h1 := rebuildAP_lex e he false i b
    have h2 := rebuildAllP_lex rest hr i b
    refine ⟨by simp [rebuildAllP, lexOutAll, h1.1, h2.1], ?_⟩
    intro x hx
    simp only [rebuildAllP, List.mem_cons] at hx
    rcases hx with hx | hx
    · subst hx; exact h1.2
    · exact h2.2 x hx
theorem previewP_lex : (e : Expr) → e.ok → ∀ (i : Nat) (p : List FP), e.previewP i = some p →
    lexOf p = e.lexOut true ∧ Solid p
  | .leaf .., _, i, p, h => by simp [Expr.previewP] at h
  | .set .., _, i, p, h => by simp [Expr.previewP] at h
  | .binding .., _, i, p, h => by simp [Expr.previewP] at h
  | .paren .., _, i, p, h => by simp [Expr.previewP] at h
  | .app .., _, i, p, h => by simp [Expr.previewP] at h
  | .wth .., _, i, p, h => by simp [Expr.previewP] at h
  | .asrt .., _, i, p, h => by simp [Expr.previewP] at h
  | .sel .., _, i, p, h => by simp [Expr.previewP] at h
  | .selOr .., _, i, p, h => by simp [Expr.previewP] at h
  | .lam .., _, i, p, h => by simp [Expr.previewP] at h
  | .un .., _, i, p, h => by simp [Expr.previewP] at h
  | .bin .., _, i, p, h => by simp [Expr.previewP] at h
  | .ite .., _, i, p, h => by simp [Expr.previewP] at h
  | .has .., _, i, p, h => by simp [Expr.previewP] at h
  | .list value ml inner before after, hok, i, p, h => by
    obtain ⟨hv, hin, hb, ha⟩ := hok
    have ih := fun i b => rebuildAllP_lex value hv i b
    cases value with
    | nil =>
      simp only [Expr.previewP] at h
      split at h
      · cases h
      · split at h
        · cases h
        · rename_i hbi
          have hb0 : before = [] := by
            cases before with
            | nil => rfl
            | cons _ _ => simp at hbi
          have hi0 : inner = [] := by
            cases inner with
            | nil => rfl
            | cons _ _ => simp at hbi
          split at h
          · cases h
          · split at h
            · cases h
            · injection h with h
              subst h; subst hb0; subst hi0
              refine ⟨by simp [Expr.lexOut], ?_⟩
              exact solid_tokc '[' (by decide) (solid_wsc _ (solid_tok (solidT_lit ']' (by decide))))
    | cons v vs =>
      simp only [Expr.previewP] at h
      split at h
      · cases h
      · split at h
        · cases h
        · rename_i hbi
          have hb0 : before = [] := by
            cases before with
            | nil => rfl
            | cons _ _ => simp at hbi
          have hi0 : inner = [] := by
            cases inner with
            | nil => rfl
            | cons _ _ => simp at hbi
          split at h
          · cases h
          · split at h
            · cases h
            · injection h with h
              subst h; subst hb0; subst hi0
              have hj := lexOf_joinP_ws [' '] (rebuildAllP (v :: vs) i true)
              refine ⟨by simp [Expr.lexOut, hj, (ih _ _).1], ?_⟩
              exact solid_append (solid_append (solid_tokc '[' (by decide) (solid_wsc _ solid_nil))
                (solid_joinP_ws _ _ (ih _ _).2)) (solid_wsc _ (solid_tok (solidT_lit ']' (by decide))))
end


/-! ### files -/

def Src.ok (s : Src) : Prop := allOk s.exprs ∧ TrivOk s.trailing
def Src.lexOut (s : Src) : List Lex := lexOutAll s.exprs ++ cm s.trailing

theorem lexOf_flatten (xs : List (List FP)) : lexOf xs.flatten = (xs.map lexOf).flatten := by
  induction xs with
  | nil => rfl
  | cons x xs ih => simp [ih]

theorem solid_flatten {xs : List (List FP)} (h : ∀ x ∈ xs, Solid x) : Solid xs.flatten := by
  induction xs with
  | nil => exact solid_nil
  | cons x xs ih =>
    simp only [List.flatten_cons]
    exact solid_append (h x (List.mem_cons_self ..)) (ih fun y hy => h y (List.mem_cons_of_mem _ hy))

/-- the tokens and comments of a rebuilt file are those of its expressions, then the trailing comments -/
theorem srcRebuildP_lex (s : Src) (h : s.ok) : lexOf s.rebuildP = s.lexOut ∧ Solid s.rebuildP := by
  obtain ⟨he, ht⟩ := h
  have h1 := rebuildAllP_lex s.exprs he 0 false
  have hr : lexOf (rebuildAllP s.exprs 0 false).flatten = lexOutAll s.exprs := by rw [lexOf_flatten, h1.1]
  have hsr : Solid (rebuildAllP s.exprs 0 false).flatten := solid_flatten h1.2
  have h2 := trimP_lex s.trailing (fmtP_solid ht 0)
  unfold Src.rebuildP Src.lexOut
  simp only
  split
  · rename_i hemp
    have : s.trailing = [] := by simpa using hemp
    rw [this]; exact ⟨by simp [hr], hsr⟩
  · split
    · refine ⟨?_, solid_append (solid_append hsr (solid_ite _ solid_nil (solid_cons (solid_ws _) solid_nil))) h2.2⟩
      simp only [lexOf_append, hr, h2.1, fmtP_lex ht, lexOf_ite]
      simp
    · rename_i hte
      have hz : concat (trimP s.trailing (fmtP s.trailing 0)) = [] := by simpa using hte
      have hcm : cm s.trailing = [] := by
        rw [← fmtP_lex ht 0, ← h2.1]; exact lexOf_of_concat_nil h2.2 hz
      refine ⟨?_, solid_ite _ (solid_append hsr (solid_ite _ solid_nil (solid_cons (solid_ws _) solid_nil))) hsr⟩
      simp only [lexOf_ite, lexOf_append, hr, hcm, lexOf_ws, lexOf_nil]
      simp

end Nima.Frag
