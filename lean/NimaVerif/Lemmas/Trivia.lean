import NimaVerif.Model.Trivia
/-! Lemmas about the trivia algebra (L2). -/
namespace Nima

@[simp] theorem spaces_zero : spaces 0 = [] := rfl
theorem spaces_succ (n : Nat) : spaces (n + 1) = ' ' :: spaces n := rfl

theorem containsNL_append (a b : Text) : containsNL (a ++ b) = (containsNL a || containsNL b) := by
  simp [containsNL]

end Nima
