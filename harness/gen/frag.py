"""G-frag: random programs of the container fragment (lean/NimaVerif/Model/Cst.lean): nested sets,
`rec` sets, lists, parenthesised expressions and function applications (curried, with comments between
function and argument) over leaf values, depth <= 4, with random whitespace in every gap and line /
single-line block comments between items, at ends of lines and (with probability `p_inner`) between
the tokens of a binding. Never starts with whitespace. Small by construction (py-tree-sitter 0.26
crashes beyond ~250 lines)."""
from __future__ import annotations

import random

GAPS = ["", " ", "  ", "\t", "\n", "\n\n", "\n\n\n", "\n   "]
SEPS = [" ", "  ", "\t", "\n", "\n\n", "\n\n\n", "\n   "]
LEAVES = ["a", "foo", "true", "false", "null", "0", "1", "42", "3.14", ".5", '"s"', '"a b"', '""', '"é✓"',
          '"x${y}z"', "./p.nix", "../q/r.nix", "<nixpkgs>", "~/h", "x'", "b-c", "_u"]
NAMES = ["a", "b", "foo", '"q r"', "x'", "c-d", '"é"']
FUNCS = ["f", "foo", "x'", "b-c", "_u", "import"]
WS = (" ", "\t", "\n")


class FragGen:
    def __init__(self, rng: random.Random, p_cmt: float, p_inner: float):
        self.rng, self.p_cmt, self.p_inner, self.n = rng, p_cmt, p_inner, 0

    def comment(self):
        self.n += 1
        r = self.rng.random()
        if r < 0.55:
            return self.rng.choice([f"# c{self.n}", f"#c{self.n}", f"#  c{self.n}", "#"]), True
        return self.rng.choice([f"/* c{self.n} */", f"/*c{self.n}*/", f"/** d{self.n} */", f"/*  c{self.n}  */"]), False

    def gap(self, p: float, sep_before: bool = False) -> str:
        """whitespace and comments between two tokens; `sep_before`: the tokens would glue without it"""
        out = self.rng.choice(SEPS if sep_before else GAPS)
        while self.rng.random() < p:
            c, line = self.comment()
            out += c
            out += ("\n" + self.rng.choice(["", " ", "  ", "\n", "\n  ", "\n\n"])) if line else self.rng.choice(GAPS)
        return out

    def _after(self, s: str, v: str, g: str) -> str:
        """`g` after the value `v`: a path leaf would swallow a closing token / comment start"""
        if v.endswith(("nix", "h", ">")) and not g.startswith(WS):
            return " " + g
        return g

    def paren(self, depth: int) -> str:
        s = "(" + self.gap(self.p_cmt)
        v = self.expr(depth - 1, "paren")
        if v[0] == "/" or (s.endswith("/") and v[0] == "*"):
            s += " "
        s += v
        return s + self._after(s, v, self.gap(self.p_cmt)) + ")"

    def app(self, depth: int) -> str:
        """function application; the function is an identifier, a parenthesis or (curried) another
        application; the argument anything but a bare application"""
        r = self.rng.random()
        if depth > 1 and r < 0.3:
            f = self.app(depth - 1)
        elif depth > 0 and r < 0.45:
            f = self.paren(depth - 1)
        else:
            f = self.rng.choice(FUNCS)
        a = self.expr(depth - 1, "arg")
        g = self.gap(max(self.p_cmt, self.p_inner))
        if not g.endswith(WS) and not (g == "" and a[0] in "[{(") and not g.endswith("*/"):
            g += " "
        if g.endswith("/") and a[0] in "/*":
            g += " "
        if g == "" and a[0] not in "[{(":
            g = " "
        if a[0] in "./~<" and not g.endswith(WS):
            g += " "
        return f + g + a

    def expr(self, depth: int, ctx: str = "top") -> str:
        r = self.rng.random()
        if depth <= 0 or r < 0.25:
            return self.rng.choice(LEAVES)
        if r < 0.37:
            return self.paren(depth)
        if r < 0.5:
            # a bare application only where the grammar reads it as one expression
            return self.app(depth) if ctx in ("top", "value", "paren") else "(" + self.app(depth) + ")"
        if r < 0.75:
            n = self.rng.choice([0, 0, 1, 1, 2, 3])
            s = "["
            for _ in range(n):
                s += self.gap(self.p_cmt)
                if not s.endswith(WS) and not s.endswith(("[", "/")):
                    s += " "
                if s.endswith("/"):
                    s += " "
                s += self.expr(depth - 1, "elem")
                if not s.endswith(("]", "}", ")")) or self.rng.random() < 0.7:
                    s += self.rng.choice(SEPS)
            s += self.gap(self.p_cmt)
            return s + "]"
        s = ("rec" + self.rng.choice(GAPS) if self.rng.random() < 0.2 else "") + "{"
        for _ in range(self.rng.choice([0, 1, 1, 2, 3])):
            s += self.gap(self.p_cmt)
            s += self.rng.choice(NAMES)
            s += self.gap(self.p_inner) + "=" + self.gap(self.p_inner)
            v = self.expr(depth - 1, "value")
            if v[0] == "/" or (s.endswith("/") and v[0] == "*"):
                s += " "
            s += v
            g = self.gap(self.p_inner)
            if v.endswith(("nix", "h", ">")) and not g.startswith(WS):
                g = " " + g   # `;` would otherwise be lexed into the path
            s += g + ";"
        s += self.gap(self.p_cmt)
        return s + "}"

    def file(self, depth: int) -> str:
        s = ""
        while self.rng.random() < self.p_cmt * 0.7:
            c, line = self.comment()
            s += c + ("\n" if line else self.rng.choice(["\n", " ", ""])) + self.rng.choice(["", "\n", "  "])
        s += self.expr(depth)
        s += self.gap(self.p_cmt, sep_before=False)
        if self.rng.random() < 0.6 and not s.endswith("\n"):
            s += "\n"
        return s


def programs(rng: random.Random, n: int):
    """yields n fragment programs (text); mixture of comment densities; about a third with comments
    between the tokens of bindings"""
    made = 0
    while made < n:
        g = FragGen(rng, rng.choice([0.0, 0.2, 0.5]), rng.choice([0.0, 0.0, 0.3]))
        t = g.file(rng.randint(0, 4))
        if t.count("\n") > 150 or t[:1] in WS:
            continue
        made += 1
        yield t
