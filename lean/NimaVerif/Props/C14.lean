import NimaVerif.Model.Edit
/-! # C14 — placeholder until the theorems are in. -/
namespace Nima.C14
theorem get_missing_is_keyerror (d : Doc) (k : Text) (h : findBinding d.scope k = none) :
    scopeGetItem d k = .error .key := by simp [scopeGetItem, h]
end Nima.C14
