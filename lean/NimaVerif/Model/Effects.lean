/-
L9 (C15a): heap-effect IR of the rebuild-reachable Python code, its collecting semantics, the
abstract domain {Shared, Fresh(allocation sites)} and the checker `check : Prog → Cert → Bool`.

The IR is produced by `harness/translate/gen_effects.py` (Gen/Effects.lean).  A program is a *bag*
of statements over SSA-like versions of the Python variables: the semantics may execute any
statement of the bag at any time, any number of times, reading for every operand *any* value that
was ever bound to it (collecting semantics).  This over-approximates every control flow, every
recursion depth and every closure of the Python code, so no control-flow constructs are needed.

Import-free (core Lean only).
-/
namespace Nima.Effects

abbrev Var := Nat
abbrev Fld := Nat
abbrev Site := Nat
abbrev Label := Nat

/-- Pseudo-field holding the contents of a container object (list / dict / set / tuple). -/
def ITEMS : Fld := 0

/-! ## IR -/

inductive Rhs where
  /-- an immutable value (str, int, bool, None, …): no heap cell can be written through it -/
  | prim
  /-- a parameter of an entry point, `self`, a global, the result of an unknown call: anything -/
  | unknown
  /-- move: SSA join input, parameter binding at a call, return-value flow -/
  | var (y : Var)
  /-- `y.f`, `y[i]`, iteration over `y` (f = ITEMS) -/
  | load (y : Var) (f : Fld)
  /-- constructor call / literal / `list(..)` / comprehension: a new object whose field `f` holds
      (some of) the values of the listed variables -/
  | alloc (s : Site) (inits : List (Fld × Var))
  /-- `copy.copy(y)` (upd = []) and `dataclasses.replace(y, **upd)`: a new object, the fields named
      in `upd` are taken from there, every other field is copied from `y` (so it aliases) -/
  | copy (s : Site) (y : Var) (upd : List (Fld × Var))
deriving DecidableEq, Repr, Inhabited

inductive Stmt where
  | assign (x : Var) (r : Rhs)
  /-- `x.f = y` -/
  | store (lbl : Label) (x : Var) (f : Fld) (y : Var)
  /-- in-place container update of `x` (`append/extend/insert/pop/remove/clear/sort/reverse`,
      `x += ..`, `x[i] = ..`, `del x[i]`), possibly inserting values of `ys` -/
  | mutate (lbl : Label) (x : Var) (ys : List Var)
deriving DecidableEq, Repr, Inhabited

structure Prog where
  stmts : List Stmt
deriving Repr, Inhabited

def Stmt.label? : Stmt → Option Label
  | .assign _ _ => none
  | .store l _ _ _ => some l
  | .mutate l _ _ => some l

def Stmt.isWrite (s : Stmt) : Bool := s.label?.isSome

/-- The program without the write statements whose label is listed. -/
def Prog.remove (p : Prog) (skip : List Label) : Prog :=
  ⟨p.stmts.filter fun st => match st.label? with
    | some l => !skip.contains l
    | none => true⟩

/-! ## Abstract domain and certificate -/

inductive Abs where
  /-- may be any object, in particular one that existed before the call -/
  | shared
  /-- an immutable value, or an object allocated during this execution at one of these sites -/
  | fresh (sites : List Site)
deriving DecidableEq, Repr, Inhabited

def Abs.le : Abs → Abs → Bool
  | _, .shared => true
  | .fresh ts, .fresh us => ts.all fun t => us.contains t
  | .shared, .fresh _ => false

def Abs.isShared : Abs → Bool
  | .shared => true
  | .fresh _ => false

def siteIn (s : Site) : Abs → Bool
  | .shared => true
  | .fresh ts => ts.contains s

/-- The certificate (computed by the translator, *validated* here — it is not trusted):
    an abstract value per variable and per (allocation site, field).  Two-level lists so that
    look-ups stay cheap under kernel evaluation.  Missing entries are `shared`. -/
structure Cert where
  vars : List (List Abs)
  flds : List (List (List (Fld × Abs)))
deriving Repr, Inhabited

def chunk : Nat := 64

def Cert.var (c : Cert) (x : Var) : Abs :=
  ((c.vars.getD (x / chunk) []).getD (x % chunk) .shared)

def Cert.fldsOf (c : Cert) (s : Site) : List (Fld × Abs) :=
  ((c.flds.getD (s / chunk) []).getD (s % chunk) [])

def lookupFld : List (Fld × Abs) → Fld → Abs
  | [], _ => .shared
  | (g, a) :: rest, f => if g = f then a else lookupFld rest f

def Cert.fld (c : Cert) (s : Site) (f : Fld) : Abs := lookupFld (c.fldsOf s) f

/-- everything loaded through a value of abstraction `a` at field `f` is below `b` -/
def loadLe (c : Cert) (a : Abs) (f : Fld) (b : Abs) : Bool :=
  match a with
  | .shared => b.isShared
  | .fresh ts => ts.all fun t => (c.fld t f).le b

def okRhs (c : Cert) (ax : Abs) : Rhs → Bool
  | .prim => true
  | .unknown => ax.isShared
  | .var y => (c.var y).le ax
  | .load y f => loadLe c (c.var y) f ax
  | .alloc s inits => siteIn s ax && inits.all fun fy => (c.var fy.2).le (c.fld s fy.1)
  | .copy s y upd =>
      siteIn s ax && (upd.all fun fy => (c.var fy.2).le (c.fld s fy.1)) &&
      (c.fldsOf s).all fun fb => (upd.any fun fy => fy.1 == fb.1) || loadLe c (c.var y) fb.1 fb.2

/-- a write through `x` into field `f` of values of `ys`: only through Fresh receivers, and the
    field abstraction of every possible site of the receiver must cover the written values -/
def writeOk (c : Cert) (x : Var) (f : Fld) (ys : List Var) : Bool :=
  match c.var x with
  | .shared => false
  | .fresh ts => ts.all fun t => ys.all fun y => (c.var y).le (c.fld t f)

def okStmt (c : Cert) : Stmt → Bool
  | .assign x r => okRhs c (c.var x) r
  | .store _ x f y => writeOk c x f [y]
  | .mutate _ x ys => writeOk c x ITEMS ys

def check (p : Prog) (c : Cert) : Bool := p.stmts.all (okStmt c)

/-- Labels of the write statements the certificate does not cover (for reporting). -/
def violations (p : Prog) (c : Cert) : List Label :=
  (p.stmts.filterMap fun st => if okStmt c st then none else st.label?).eraseDups

/-- Number of non-write statements the certificate does not cover (a translator bug, not a
    purity violation). -/
def certErrors (p : Prog) (c : Cert) : Nat :=
  (p.stmts.filter fun st => !okStmt c st && !st.isWrite).length

/-! ## Concrete (collecting) semantics -/

inductive Val where
  | prim
  | loc (l : Nat)
deriving DecidableEq, Repr, Inhabited

/-- A heap object: the allocation site is a ghost tag; every field holds a list of values (a
    scalar field a singleton, a container's ITEMS its elements). -/
structure Obj where
  site : Site
  flds : Fld → List Val

structure State where
  heap : Nat → Option Obj
  next : Nat
  /-- `env x v`: `v` was bound to `x` at some point (in some frame) -/
  env : Var → Val → Prop

def State.bind (s : State) (x : Var) (v : Val) : State :=
  { s with env := fun y w => s.env y w ∨ (y = x ∧ w = v) }

def State.setObj (s : State) (l : Nat) (o : Obj) : State :=
  { s with heap := fun k => if k = l then some o else s.heap k }

def State.allocObj (s : State) (o : Obj) : State :=
  { s with heap := (fun k => if k = s.next then some o else s.heap k), next := s.next + 1 }

def Obj.setFld (o : Obj) (f : Fld) (vs : List Val) : Obj :=
  { o with flds := fun g => if g = f then vs else o.flds g }

inductive Step (p : Prog) : State → State → Prop
  | prim {s x} : .assign x .prim ∈ p.stmts → Step p s (s.bind x .prim)
  | unknown {s x} (v : Val) : .assign x .unknown ∈ p.stmts → Step p s (s.bind x v)
  | var {s x y v} : .assign x (.var y) ∈ p.stmts → s.env y v → Step p s (s.bind x v)
  | load {s x y f l o v} : .assign x (.load y f) ∈ p.stmts → s.env y (.loc l) →
      s.heap l = some o → v ∈ o.flds f → Step p s (s.bind x v)
  | alloc {s x site inits} (o : Obj) : .assign x (.alloc site inits) ∈ p.stmts → o.site = site →
      (∀ f v, v ∈ o.flds f → ∃ y, (f, y) ∈ inits ∧ s.env y v) →
      Step p s ((s.allocObj o).bind x (.loc s.next))
  | copy {s x site y upd l o0} (o : Obj) : .assign x (.copy site y upd) ∈ p.stmts →
      s.env y (.loc l) → s.heap l = some o0 → o.site = site →
      (∀ f v, v ∈ o.flds f →
        (∃ y', (f, y') ∈ upd ∧ s.env y' v) ∨ ((∀ y', (f, y') ∉ upd) ∧ v ∈ o0.flds f)) →
      Step p s ((s.allocObj o).bind x (.loc s.next))
  | store {s lbl x f y l o v} : .store lbl x f y ∈ p.stmts → s.env x (.loc l) →
      s.heap l = some o → s.env y v → Step p s (s.setObj l (o.setFld f [v]))
  | mutate {s lbl x ys l o} (vs : List Val) : .mutate lbl x ys ∈ p.stmts → s.env x (.loc l) →
      s.heap l = some o → (∀ v ∈ vs, v ∈ o.flds ITEMS ∨ ∃ y ∈ ys, s.env y v) →
      Step p s (s.setObj l (o.setFld ITEMS vs))

inductive Exec (p : Prog) : State → State → Prop
  | refl {s} : Exec p s s
  | step {s t u} : Exec p s t → Step p t u → Exec p s u

/-- Start of a call: nothing is bound yet (roots enter through `unknown`), the allocator is fresh. -/
def Init (s : State) : Prop :=
  (∀ x v, ¬ s.env x v) ∧ (∀ l, s.next ≤ l → s.heap l = none)

/-- SPEC. The program is pure: whatever it executes, every object that existed at the start
    (in particular every cell reachable from the arguments) is unchanged at the end. -/
def Pure (p : Prog) : Prop :=
  ∀ s t, Init s → Exec p s t → ∀ l, l < s.next → t.heap l = s.heap l

end Nima.Effects
