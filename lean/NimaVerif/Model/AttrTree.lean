import NimaVerif.Model.Doc
/-!
L6 (c) SPEC: attribute trees — what Nix reads in an attribute set — and the documented semantics of
`set` / `rm` on them. Core Lean only. Nothing here looks at identities, `attrpath_order`, the `nested`
flag or trivia: two documents that Nix reads the same way have the same `denote`.

Names are the formatted segment spellings (`formatNPath` output); decoding spellings is C12's business.
-/
namespace Nima

/-- Finite map from rendered names to `leaf | node`, as an association list. "No duplicate keys" is the
    separate predicate `AttrTree.nodup` (theorems, not a subtype). -/
inductive AttrTree where
  /-- any value that is not an attribute set; carries the value node -/
  | leaf (v : Node)
  /-- an attribute set -/
  | node (kids : List (Text × AttrTree))
deriving Repr, Inhabited

abbrev Kids := List (Text × AttrTree)

namespace Kids

/-- value under key `k` (first occurrence) -/
def lookup (k : Text) : Kids → Option AttrTree
  | [] => none
  | (k', t) :: rest => if k' = k then some t else lookup k rest

/-- replace the value under `k` in place, or append `(k, t)` last when `k` is new -/
def upsert (k : Text) (t : AttrTree) : Kids → Kids
  | [] => [(k, t)]
  | (k', t') :: rest => if k' = k then (k, t) :: rest else (k', t') :: upsert k t rest

/-- drop key `k` (first occurrence) -/
def erase (k : Text) : Kids → Kids
  | [] => []
  | (k', t') :: rest => if k' = k then rest else (k', t') :: erase k rest

def keys (ks : Kids) : List Text := ks.map (·.1)

end Kids

namespace AttrTree

mutual
  /-- no attribute set of the tree defines a name twice -/
  def nodup : AttrTree → Bool
    | leaf _ => true
    | node kids => nodupL kids
  def nodupL : List (Text × AttrTree) → Bool
    | [] => true
    | (k, t) :: rest => t.nodup && !(rest.any (·.1 == k)) && nodupL rest
end

def isNode : AttrTree → Bool | node _ => true | leaf _ => false
def kids : AttrTree → Kids | node ks => ks | leaf _ => []

end AttrTree

open Node

mutual
  /-- How Nix reads a value: an attribute set is a node — whether it was written `a = { … }` or arose
      from merged attrpath bindings `a.b = …` (`nested = true`) makes no difference —, anything else
      is a leaf carrying the value node. -/
  def denote : Node → AttrTree
    | .set _ vs _ _ _ => .node (denoteL vs)
    | .atom t => .leaf (.atom t)
    | .ident n => .leaf (.ident n)
    -- a Binding / Inherit / _AttrpathEntry object is never the value of a binding; an ill-typed
    -- graph reads as an opaque leaf
    | _ => .leaf (.atom [])
  /-- the attributes a `values` list defines, in order -/
  def denoteL : List Node → Kids
    | [] => []
    | x :: xs => denoteI x ++ denoteL xs
  /-- the attributes one item of `values` defines: a binding defines its name, `inherit a b;` defines
      `a` and `b` as references -/
  def denoteI : Node → Kids
    | .bind _ name _ v _ _ => [(name, denote v)]
    | .inherit _ names => names.map fun n => (n, AttrTree.leaf (.ident n))
    | _ => []
end

/-- subtree at a path; `none` if the path leaves the tree -/
def treeAt : AttrTree → List Text → Option AttrTree
  | t, [] => some t
  | .node kids, k :: ks => match Kids.lookup k kids with
    | some t => treeAt t ks
    | none => none
  | .leaf _, _ :: _ => none

/-- `set` on the attributes of one set: afterwards the path exists and holds `v`; missing
    intermediate sets are created (last); everything else is unchanged. `none`: empty path, or the
    path runs through a value that is not a set. -/
def specSetK (v : Node) : Kids → List Text → Option Kids
  | _, [] => none
  | kids, n :: rest =>
    match rest with
    | [] => some (kids.upsert n (denote v))
    | _ :: _ =>
      match kids.lookup n with
      | none => (specSetK v [] rest).map fun sub => kids.upsert n (.node sub)
      | some (.node sub) => (specSetK v sub rest).map fun sub' => kids.upsert n (.node sub')
      | some (.leaf _) => none

def specSet (t : AttrTree) (names : List Text) (v : Node) : Option AttrTree :=
  match t with
  | .leaf _ => none
  | .node kids => (specSetK v kids names).map .node

/-- `rm` on the attributes of one set: the path is gone. `prune = true` (the parents on the path are
    attrpath parents, `a.b.c = …`): a parent left empty goes as well, innermost first, up to the
    first one that is not empty. `prune = false` (explicit sets `a = { … }`): an emptied set stays.
    `none`: the path does not exist. -/
def specRemoveK (prune : Bool) : Kids → List Text → Option Kids
  | _, [] => none
  | kids, n :: rest =>
    match rest with
    | [] => if (kids.lookup n).isSome then some (kids.erase n) else none
    | _ :: _ =>
      match kids.lookup n with
      | some (.node sub) =>
        match specRemoveK prune sub rest with
        | none => none
        | some sub' =>
          some (if prune && sub'.isEmpty then kids.erase n else kids.upsert n (.node sub'))
      | _ => none

def specRemove (t : AttrTree) (names : List Text) (prune : Bool) : Option AttrTree :=
  match t with
  | .leaf _ => none
  | .node kids => (specRemoveK prune kids names).map .node

/-! ### what the text shows

`AttributeSet.rebuild` renders `attrpath_order` when it is non-empty and `values` otherwise; an
`_AttrpathEntry(segments, binding)` is written `seg1.seg2.… = value;`. `renderedTree` reads the
attributes off exactly those items (so it is what Nix will read in the rebuilt text), while `denote`
reads `values`. -/

/-- put `t` at path `segs` of an attribute list (how Nix merges `a.b = t;` into what precedes) -/
def insertPath (t : AttrTree) : Kids → List Text → Kids
  | kids, [] => kids
  | kids, n :: rest =>
    match rest with
    | [] => kids ++ [(n, t)]
    | _ :: _ =>
      match kids.lookup n with
      | some (.node sub) => kids.upsert n (.node (insertPath t sub rest))
      | _ => kids ++ [(n, .node (insertPath t [] rest))]

mutual
  def renderedTree : Node → AttrTree
    | .set _ vs o _ _ => .node (if o.isEmpty then renderedVals vs else renderedItems [] o)
    | .atom t => .leaf (.atom t)
    | .ident n => .leaf (.ident n)
    | _ => .leaf (.atom [])
  /-- one item rendered. An explicit binding is one line `name = value;`; an attrpath family
      (`nested = true`) is expanded into one line `name.….leaf = value;` per leaf, which Nix merges
      back into nested sets — a family without leaves leaves no trace in the text. (The `ValueError`
      fallback of `_render_bindings` for families holding an `inherit` or a non-set is not modelled:
      `WF` excludes those shapes.) -/
  def renderedItem : Node → Kids
    | .bind _ name true (.set _ vs _ _ _) _ _ =>
        let sub := renderedFam vs
        if sub.isEmpty then [] else [(name, .node sub)]
    | .bind _ _ true _ _ _ => []
    | .bind _ name false v _ _ => [(name, renderedTree v)]
    | .inherit _ names => names.map fun n => (n, AttrTree.leaf (.ident n))
    | _ => []
  /-- the leaves below an attrpath family's `values` (only bindings count) -/
  def renderedFam : List Node → Kids
    | [] => []
    | x :: xs => (if x.isBind then renderedItem x else []) ++ renderedFam xs
  /-- `values` rendered (used when `attrpath_order` is empty) -/
  def renderedVals : List Node → Kids
    | [] => []
    | x :: xs => renderedItem x ++ renderedVals xs
  /-- `attrpath_order` rendered, accumulating left to right the way Nix merges attrpath bindings -/
  def renderedItems (acc : Kids) : List Node → Kids
    | [] => acc
    | .entry segs (.bind _ _ _ v _ _) _ _ :: xs => renderedItems (insertPath (renderedTree v) acc segs) xs
    | x :: xs => renderedItems (acc ++ renderedItem x) xs
end

end Nima
