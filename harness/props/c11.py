"""C11 — editing through a reference updates exactly the defining binding."""
from __future__ import annotations

import itertools

from .. import editcorr as ec
from .. import editprops as ep
from .. import framework as fw
from ..oracle import cstread
from .c05 import is_ident_leaf

GEN_TABLES = ()


# ---------------------------------------------------------------- reference resolver on the CST (Nix lexical scoping)
def binding_named(binding_set, name):
    """(kind, node): the `binding` of `name` in a binding_set, or the inherit clause that brings it in"""
    if binding_set is None:
        return None
    for b in binding_set.named_children:
        if b.type == "binding":
            ap = b.child_by_field_name("attrpath")
            dn = [cstread.attr_name(a) for a in ap.named_children if a.type != "comment"]
            if dn and dn[0] == name:
                return ("binding", b) if len(dn) == 1 else ("attrpath", b)
        elif b.type in ("inherit", "inherit_from"):
            attrs = b.child_by_field_name("attrs")
            for a in (attrs.named_children if attrs else []):
                if a.type != "comment" and cstread.attr_name(a) == name:
                    return (b.type, b)
    return None


def bset(node):
    bs = [c for c in node.named_children if c.type == "binding_set"]
    return bs[0] if bs else None


def resolve(ref_node, name, depth=0):
    """The CST binding node that defines `name` as seen from `ref_node`, following reference chains.
    Returns ("binding", node) | ("unbound",) | ("formal",) | ("with", node) | ("skip", why)."""
    if depth > 12:
        return ("skip", "cycle")
    node = ref_node
    with_envs = []
    while node.parent is not None:
        par = node.parent
        if par.type == "let_expression":
            # bindings are in scope in the body and in the bindings themselves
            hit = binding_named(bset(par), name)
            if hit:
                return finish(hit, name, depth)
        elif par.type == "rec_attrset_expression":
            hit = binding_named(bset(par), name)
            if hit:
                return finish(hit, name, depth)
        elif par.type == "function_expression":
            body = par.child_by_field_name("body")
            if body is not None and body.id == node.id:
                formals = par.child_by_field_name("formals")
                univ = par.child_by_field_name("universal")
                names = []
                if formals is not None:
                    names += [f.child_by_field_name("name").text.decode() for f in formals.named_children
                              if f.type == "formal" and f.child_by_field_name("name") is not None]
                if univ is not None:
                    names.append(univ.text.decode())
                if name in names:
                    return ("formal",)
        elif par.type == "with_expression":
            body = par.child_by_field_name("body")
            if body is not None and body.id == node.id:
                with_envs.append(par.child_by_field_name("environment"))
        elif par.type == "binding" and par.parent is not None and par.parent.parent is not None and \
                par.parent.parent.type == "rec_attrset_expression":
            pass
        node = par
    # no lexical binder: the innermost `with` whose environment is a literal set that has the name
    for env in with_envs:
        e = env
        while e is not None and e.type == "parenthesized_expression":
            e = e.child_by_field_name("expression")
        if e is not None and e.type in ("attrset_expression", "rec_attrset_expression"):
            hit = binding_named(bset(e), name)
            if hit:
                return finish(hit, name, depth)
        else:
            return ("skip", "with-environment-not-literal")
    return ("unbound",)


def finish(hit, name, depth):
    kind, b = hit
    if kind == "attrpath":
        return ("skip", "attrpath-binder")
    if kind in ("inherit", "inherit_from"):
        if kind == "inherit_from":
            # `inherit (e) x;`: e is evaluated where the clause stands (inside a let / rec set its own
            # bindings are in scope); x is then the attribute of the set e denotes
            src = b.child_by_field_name("expression")
            while src is not None and src.type == "parenthesized_expression":
                src = src.child_by_field_name("expression")
            if src is None or src.type != "variable_expression":
                return ("skip", "inherit-from-complex-source")
            r = resolve(b, src.text.decode(), depth + 1)
            if r[0] != "binding":
                return ("skip", "inherit-from-source-" + r[0])
            sval = r[1].child_by_field_name("expression")
            if sval is None or sval.type not in ("attrset_expression", "rec_attrset_expression"):
                return ("skip", "inherit-from-source-not-literal")
            hit2 = binding_named(bset(sval), name)
            if not hit2:
                return ("skip", "inherit-from-attribute-missing")
            return finish(hit2, name, depth + 1)
        # `inherit x;` takes x from the scope enclosing the construct that holds the clause
        holder = b.parent.parent  # binding_set -> let/attrset
        return resolve(holder, name, depth + 1)
    val = b.child_by_field_name("expression")
    if val.type == "variable_expression":
        nm = val.text.decode()
        if nm not in ("true", "false", "null"):
            # reference chain: follow to its end (bindings of a non-rec attrset are evaluated outside it)
            start = val
            r = resolve(start, nm, depth + 1)
            if r[0] == "binding":
                return r
            if r[0] == "unbound":
                return ("binding", b)
            return r
    return ("binding", b)


# ---------------------------------------------------------------- documents
def docs_stream(ctx):
    layer_opts = [
        "",
        "let\n  v = \"1\";\nin\n",
        "let\n  v = \"0\";\n  w = v;\nin\nlet\n  v = \"1\";\nin\n",
        "let\n  w = \"9\";\nin\nlet\n  v = w;\nin\n",
        "let\n  inherit v;\nin\n",
        # two-hop chain whose middle binding sits in an OUTER layer while the final name is also bound further in
        "let\n  w = v;\n  v = \"outer\";\nin\nlet\n  v = \"inner\";\nin\n",
        # shadowing that re-declares the same text: layers with equal contents are still two layers
        "let\n  v = \"1\";\nin\nlet\n  v = \"1\";\nin\n",
        "let\n  v = \"1\";\n  w = v;\nin\nlet\n  u = 2;\nin\nlet\n  v = \"1\";\n  w = v;\nin\n",
        # three and four layers, the name bound in several of them
        "let\n  v = \"1\";\nin\nlet\n  v = \"2\";\nin\nlet\n  v = \"3\";\nin\n",
        "let\n  v = \"1\";\nin\nlet\n  v = w;\n  w = \"2\";\nin\nlet\n  w = \"3\";\nin\nlet\n  u = v;\nin\n",
        # an outer definition of the set an inner `inherit (e) v;` reads from
        "let\n  e = {\n    v = \"0\";\n  };\nin\n",
    ]
    bodies = [
        ("{\n  version = v;\n  name = \"x\";\n}", ["version"]),
        ("rec {\n  version = v;\n  v = \"2\";\n}", ["version"]),
        ("{\n  version = v;\n  v = \"2\";\n}", ["version"]),
        ("rec {\n  a = b;\n  b = c;\n  c = \"3\";\n}", ["a", "b"]),
        ("{\n  src = {\n    rev = v;\n  };\n}", ["src.rev"]),
        ("rec {\n  v = \"5\";\n  src = {\n    rev = v;\n  };\n}", ["src.rev"]),
        ("{\n  a = w;\n  name = \"x\";\n}", ["a"]),
        ("rec {\n  a = w;\n  v = \"inner-rec\";\n}", ["a"]),
        # the name arrives through `inherit (e) v;` next to a definition of e
        ("rec {\n  e = {\n    v = \"1\";\n  };\n  inherit (e) v;\n  a = v;\n}", ["a"]),
        ("{\n  inherit (e) v;\n  a = v;\n}", ["a"]),
        # nested paths: the reference sits in an inner set, binders at both levels
        ("rec {\n  v = \"0\";\n  a = rec {\n    version = v;\n    v = \"1\";\n  };\n}", ["a.version"]),
        ("{\n  v = \"0\";\n  a = rec {\n    version = v;\n    v = \"1\";\n  };\n}", ["a.version"]),
        ("rec {\n  v = \"0\";\n  a = {\n    version = v;\n  };\n}", ["a.version"]),
        ("rec {\n  a = {\n    b = rec {\n      version = v;\n      v = \"2\";\n    };\n  };\n}", ["a.b.version"]),
    ]
    wrappers = [("bare", "{S}"), ("lambda", "{ pkgs }:\n{S}"), ("lambda-v", "{ v }:\n{S}"),
                ("with-lit", "with { v = \"7\"; };\n{S}"), ("call", "pkgs.mk {S}"),
                # nested `with`: the inner environment shadows the outer one, both are visible
                ("with-lit-nested", "with { v = \"7\"; };\nwith { w = \"8\"; };\n{S}"),
                ("with-lit-nested-rev", "with { w = \"8\"; };\nwith { v = \"7\"; };\n{S}"),
                ("with-lit-shadow", "with { v = \"7\"; w = \"6\"; };\nwith { v = \"8\"; };\n{S}"),
                ("with-lit-chain", "with { v = w; };\nwith { w = \"8\"; };\n{S}")]
    for (wn, wt), lay, (body, paths) in itertools.product(wrappers, layer_opts, bodies):
        if wn == "call":
            text = lay + wt.replace("{S}", body)
        else:
            text = wt.replace("{S}", lay + body)
        for p in paths:
            # `inherit (e) v;` is followed by the code but not by the edit model (scanChain stops there)
            yield text + "\n", p, ({"wrapper": wn, "nomodel": True} if "inherit (" in body else {"wrapper": wn})


def ref_of_path(text, names):
    """CST value node at the path (through explicit nested sets), if it is an identifier"""
    from .c04 import find_binding_node

    b = find_binding_node(text, names, 0)
    if b is None:
        return None, None
    val = b.child_by_field_name("expression")
    if val.type != "variable_expression" or val.text.decode() in ("true", "false", "null"):
        return b, None
    return b, val


def observe(ctx: fw.Ctx, hists):
    for h in hists:
        if h.parse_error:
            continue
        for r in h.recs:
            if r.op[0] != "set" or r.op[1].startswith("@") or r.result != "ok":
                continue
            before = r.before_text
            try:
                names = ep.split_path(r.op[1])
            except Exception:  # noqa: BLE001
                continue
            if cstread.ts_parse(before).has_error or cstread.find_target(cstread.ts_parse(before)) is None:
                continue
            b, ref = ref_of_path(before, names)
            if ref is None:
                continue
            name = ref.text.decode()
            res = resolve(ref, name)
            ctx.case({"doc": before, "path": r.op[1], "ref": name, "resolves": res[0]}, True)
            ctx.count("resolve:" + res[0])
            if res[0] in ("skip", "formal"):
                continue
            bb = before.encode()
            if res[0] == "binding":
                tgt = res[1].child_by_field_name("expression")
            else:
                tgt = b.child_by_field_name("expression")  # unbound: the binding at the path is overwritten
            want = (bb[:tgt.start_byte] + r.op[2].strip().encode() + bb[tgt.end_byte:]).decode()
            # compare token sequences (layout of the replaced value may differ)
            tw = [t for (k, t, _, _) in __import__("harness.layout", fromlist=["x"]).leaves_of(want)[0]]
            to = [t for (k, t, _, _) in __import__("harness.layout", fromlist=["x"]).leaves_of(r.out)[0]]
            if tw != to:
                key = {"clause": "defining-binding", "wrapper": h.info.get("wrapper"), "resolves": res[0],
                       "binder": binder_kind(res), "separated": separated(res, before),
                       "binder_value": binder_value(res), "nested": len(names) > 1}
                ctx.fail(key, {"doc": h.text, "ops": [list(x.op) for x in h.recs], "at": list(r.op), "before": before,
                               "output": r.out, "expected": want, "stream": h.info.get("stream")},
                         f"set {r.op[1]!r} through reference {name!r} on {before!r}: got {r.out!r}, expected {want!r}")


def separated(res, before) -> bool:
    """is the defining let layer separated from the edited set by another wrapper (lambda, call,
    with, assert, parenthesis)? Such layers are lifted onto the wrapper, not onto the set."""
    if res[0] != "binding":
        return False
    holder = res[1].parent.parent
    if holder.type != "let_expression":
        return False
    tgt = cstread.find_target(cstread.ts_parse(before))
    # walk down from the let's body through directly nested lets only
    node = holder.child_by_field_name("body")
    while node is not None and node.type == "let_expression":
        node = node.child_by_field_name("body")
    return not (node is not None and tgt is not None and node.start_byte == tgt.start_byte and node.end_byte == tgt.end_byte)


def binder_value(res):
    """`reference` when the defining binding's own value is a name (the end of a chain whose last
    name is bound nowhere), else `value`"""
    if res[0] != "binding":
        return res[0]
    val = res[1].child_by_field_name("expression")
    return "reference" if val is not None and val.type == "variable_expression" else "value"


def binder_kind(res):
    if res[0] != "binding":
        return res[0]
    b = res[1]
    holder = b.parent.parent
    return holder.type


def run(ctx: fw.Ctx):
    ctx.extra["rule"] = (
        "documents whose binding values are references (into let layers at several depths with shadowing, rec and "
        "plain sets, a literal `with` environment, inherit, chains) under 9 wrapper shapes (incl. nested literal `with`) x 8 let-layer shapes (incl. layers with equal contents) x 8 "
        "bodies, plus the random edit stream (15 % identifier values); oracle = Nix lexical scoping evaluated on the "
        "INPUT CST names the defining binding, whose value extent must be the only thing that changes"
    )
    ctx.trusted_base = [
        "Lean 4 kernel; axioms propext, Classical.choice, Quot.sound only",
        "edit model Model/Edit.lean (assignThrough / resolveIdent / let and sibling fallbacks) tied by object-graph correspondence",
        "the CST scope resolver of this file as the reading of Nix lexical scoping (let, rec, formals, inherit, with last)",
    ]
    ctx.assumptions = ["names bound by lambda formals, attrpath binders, `inherit (src)` and non-literal `with` environments are skipped by the oracle",
                       "reference cycles are C10's business"]
    hists = []
    for text, path, info in docs_stream(ctx):
        info = dict(info, stream="fixed")
        hists.append(ec.run_real(text, [("set", path, '"NEW"')], info))
        hists.append(ec.run_real(text, [("set", path, '"NEW"'), ("set", path, '"NEWER"')], info))
    # scoping that changes between edits of one document object (a stale scope chain would show)
    for text, ops in [
        ("let\n  v = \"0\";\nin\nrec {\n  a = v;\n}\n", [("set", "a", '"N1"'), ("set", "v", '"2"'), ("set", "a", '"N2"')]),
        ("rec {\n  a = v;\n  v = \"1\";\n}\n", [("set", "a", '"N1"'), ("rm", "v"), ("set", "a", '"N2"')]),
        ("let\n  v = \"0\";\nin\n{\n  a = v;\n}\n", [("set", "a", '"N1"'), ("set", "@v", '"9"'), ("rm", "@v"), ("set", "a", '"N2"')]),
        ("rec {\n  a = b;\n  b = c;\n  c = \"3\";\n}\n", [("set", "a", '"N1"'), ("set", "b", '"mid"'), ("set", "a", '"N2"')]),
        # a legitimate chain that meets the same NAME in two scopes (not a cycle)
        ("let\n  a = x;\n  x = b;\n  b = \"1\";\nin\nrec {\n  x = a;\n  y = x;\n}\n", [("set", "y", '"N1"'), ("set", "y", '"N2"')]),
        ("let\n  v = u;\n  u = \"1\";\nin\nlet\n  w = v;\nin\nlet\n  v = w;\nin\n{\n  y = v;\n}\n", [("set", "y", '"N1"')]),
        # positions inside a layer change between edits (a binding before the referenced one is removed / added)
        ("let\n  u = \"0\";\n  v = \"1\";\n  w = \"2\";\nin\n{\n  a = v;\n  b = w;\n}\n",
         [("set", "a", '"N1"'), ("rm", "@u"), ("set", "a", '"N2"'), ("set", "b", '"N3"')]),
        ("let\n  u = \"0\";\n  v = \"1\";\n  w = \"2\";\nin\n{\n  a = v;\n  b = w;\n}\n",
         [("set", "b", '"N1"'), ("rm", "@v"), ("set", "b", '"N2"'), ("set", "@t", '"9"'), ("rm", "@u"), ("set", "b", '"N3"')]),
        ("let\n  m.tag = \"0\";\n  v = \"1\";\n  w = \"2\";\nin\n{\n  a = w;\n}\n",
         [("set", "a", '"N1"'), ("rm", "@m.tag"), ("set", "a", '"N2"')]),
        ("let\n  u = \"0\";\nin\nlet\n  p = \"0\";\n  v = \"1\";\n  w = v;\nin\nrec {\n  a = w;\n}\n",
         [("set", "a", '"N1"'), ("rm", "@p"), ("set", "a", '"N2"')]),
    ]:
        hists.append(ec.run_real(text, ops, {"wrapper": "bare", "history": True}))
    stride, nrand = (11, 500) if ctx.quick else (1, 8000)
    hists += ep.build_stream(ctx, stride, nrand, 8, enum_offset=6)
    # The edit model's resolver sees the let layers and the `rec` self scope; scopes inherited from a
    # wrapper (a literal `with` environment) are C10's model: those documents go to the oracle only.
    ec.correspond(ctx, [h for h in hists if not str(h.info.get("wrapper")).startswith("with-lit")])
    observe(ctx, hists)
    call_inherit(ctx)
    mapping_assign(ctx)


def mapping_assign(ctx: fw.Ctx):
    """assignment through the identifier (`doc[key].value = v`, the mapping API's way of the same edit):
    the binding that defines the name under Nix scoping gets the value, nothing else changes"""
    from nix_manipulator import parse

    from ..layout import leaves_of

    cases = [
        ("let\n  v = \"1\";\nin\n{\n  y = v;\n}\n", "y"),
        ("let\n  v = \"1\";\nin\nlet\n  v = \"2\";\nin\n{\n  y = v;\n}\n", "y"),
        ("let\n  v = \"1\";\nin\nrec {\n  v = \"2\";\n  y = v;\n}\n", "y"),
        ("rec {\n  a = b;\n  b = c;\n  c = \"3\";\n}\n", "a"),
        # the document body is a name; the set it denotes was written where an OUTER v is in scope
        ("let\n  v = \"1\";\n  body = {\n    y = v;\n  };\nin\nlet\n  v = \"2\";\nin\nbody\n", "y"),
        ("let\n  v = \"1\";\n  body = rec {\n    y = v;\n  };\nin\nlet\n  v = \"2\";\nin\nlet\n  u = 0;\nin\nbody\n", "y"),
        ("let\n  v = \"1\";\n  args = {\n    y = v;\n  };\nin\nlet\n  v = \"2\";\nin\nf args\n", "y"),
        ("let\n  v = \"1\";\nin\nlet\n  body = {\n    y = v;\n  };\n  v = \"2\";\nin\nbody\n", "y"),
    ]
    for text, key in cases:
        b, ref = ref_of_path(text, [key])
        if ref is None:
            continue
        res = resolve(ref, ref.text.decode())
        ctx.case({"doc": text, "key": key, "mapping-assign": True, "resolves": res[0]}, True)
        if res[0] != "binding":
            continue
        tv = res[1].child_by_field_name("expression")
        bb = text.encode()
        want = (bb[:tv.start_byte] + b'"NEW"' + bb[tv.end_byte:]).decode()
        try:
            src = parse(text)
            src[key].value = parse('"NEW"').expr
            out = src.rebuild()
        except Exception as exc:  # noqa: BLE001
            out = f"<raises {type(exc).__name__}: {exc}>"
        tw = [t for (_k, t, _s, _e) in leaves_of(want)[0]]
        to = None if out.startswith("<raises") else [t for (_k, t, _s, _e) in leaves_of(out)[0]]
        if tw != to:
            ctx.fail({"clause": "mapping-assign", "binder": binder_kind(res), "body_is_name": "body\n" in text or "f args" in text},
                     {"doc": text, "ops": [["assign", key, '"NEW"']], "output": out, "expected": want, "stream": "fixed"},
                     f"doc[{key!r}].value = \"NEW\" on {text!r}: got {out!r}, expected {want!r}")


def call_inherit_docs():
    """`set src.version V` where `src = fetch { inherit version; … }`: the path ends in a call whose
    argument inherits the leaf; the tool writes to the definition the clause inherits from
    (cli/manipulations.py:_resolve_inherited_binding) — a reference through an inherit clause"""
    calls = ["fetch {\n    inherit version;\n    hash = \"h\";\n  }", "pkgs.fetch {\n    inherit version rev;\n  }",
             "f {\n    k = 1;\n    inherit (lib) x;\n    inherit version;\n  }"]
    shapes = [
        ("set-sibling", "{\n  version = \"1\";\n  rev = \"r\";\n  src = {C};\n}"),
        ("rec-sibling", "rec {\n  version = \"1\";\n  rev = \"r\";\n  src = {C};\n}"),
        ("let", "let\n  version = \"1\";\n  rev = \"r\";\nin\n{\n  src = {C};\n}"),
        ("let-shadow", "let\n  version = \"0\";\nin\nlet\n  version = \"1\";\n  rev = \"r\";\nin\n{\n  src = {C};\n}"),
        ("let-and-sibling", "let\n  version = \"0\";\nin\n{\n  version = \"1\";\n  src = {C};\n}"),
        ("lambda-let", "{ pkgs }:\nlet\n  version = \"1\";\n  rev = \"r\";\nin\n{\n  src = {C};\n}"),
        ("unbound", "{\n  other = 1;\n  src = {C};\n}"),
    ]
    for sname, shape in shapes:
        for ci, call in enumerate(calls):
            for leaf in ("version", "rev", "hash", "x", "zz"):
                yield sname, ci, shape.replace("{C}", call) + "\n", "src." + leaf, leaf


def call_inherit(ctx: fw.Ctx):
    from ..layout import leaves_of

    for sname, ci, text, path, leaf in call_inherit_docs():
        h = ec.run_real(text, [("set", path, '"NEW"')], {"wrapper": "call-inherit"})
        r = h.recs[0] if h.recs else None
        if r is None:
            continue
        root = cstread.ts_parse(text)
        tgt = cstread.find_target(root)
        if tgt is None or root.has_error:
            continue
        # the inherit clause that mentions the leaf inside the call argument of `src`
        clause = None
        for b in (bset(tgt).named_children if bset(tgt) is not None else []):
            if b.type == "binding" and b.child_by_field_name("attrpath").text.decode() == "src":
                val = b.child_by_field_name("expression")
                arg = val.child_by_field_name("argument") if val.type == "apply_expression" else None
                if arg is not None and arg.type in ("attrset_expression", "rec_attrset_expression"):
                    hit = binding_named(bset(arg), leaf)
                    if hit and hit[0] == "inherit":
                        clause = hit
        ctx.case({"doc": text, "path": path, "shape": sname, "inherits": clause is not None}, clause is not None)
        ctx.count("call-inherit:" + ("inherited" if clause else "not-inherited") + ":" + r.result)
        key = {"clause": "call-inherit", "shape": sname}
        inp = {"doc": text, "ops": [["set", path, '"NEW"']], "output": r.out, "stream": "fixed"}
        if clause is None:
            # the leaf is not inherited by the call argument: the path runs through a non-set, the edit
            # cannot be applied (C05/C08) and nothing may change
            if r.result == "ok":
                ctx.fail({**key, "outcome": "accepted-not-inherited"}, inp,
                         f"set {path!r} on {text!r} succeeded although the call argument does not inherit {leaf!r}: {r.out!r}")
            continue
        res = finish(clause, leaf, 0)
        if res[0] != "binding":
            ctx.count("call-inherit:oracle-" + res[0])
            if r.result == "ok" and res[0] == "unbound":
                ctx.fail({**key, "outcome": "accepted-unbound"}, inp,
                         f"set {path!r} succeeded although {leaf!r} is bound nowhere: {r.out!r}")
            continue
        if r.result != "ok":
            ctx.fail({**key, "outcome": "refused", "binder": binder_kind(res)}, inp,
                     f"set {path!r} on {text!r} was refused ({r.exc}) although the argument inherits {leaf!r} from a binding of the document")
            continue
        tgtv = res[1].child_by_field_name("expression")
        bb = text.encode()
        want = (bb[:tgtv.start_byte] + b'"NEW"' + bb[tgtv.end_byte:]).decode()
        tw = [t for (_k, t, _s, _e) in leaves_of(want)[0]]
        to = [t for (_k, t, _s, _e) in leaves_of(r.out)[0]]
        if tw != to:
            ctx.fail({**key, "outcome": "wrong-binding", "binder": binder_kind(res)}, {**inp, "expected": want},
                     f"set {path!r} through `inherit {leaf};` of the call argument on {text!r}: got {r.out!r}, expected {want!r}")


def search(ctx: fw.Ctx):
    observe(ctx, ep.build_stream(ctx, 1, 4000, 10, enum_offset=1))


def replay(payload: dict) -> int:
    inp = payload["input"]
    h = ec.run_real(inp["doc"], [tuple(o) for o in inp.get("ops", [])], {})
    ctx = fw.Ctx("C11", "quick", 0)
    observe(ctx, [h])
    for r in h.recs:
        print(r.op, "->", r.result, repr(r.out))
    for f in ctx.failures:
        print("FAIL", f["what"])
    return 1 if ctx.failures else 0
