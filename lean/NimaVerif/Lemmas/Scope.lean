import NimaVerif.Model.ScopeFragment
/-!
Lemmas for C10 (`Props/C10.lean`): inside the fragment of `InFragment` the code's traversal and
resolution (`implResolve`) and Nix's scoping (`specResolve`) agree, and the code's recursion is bounded.

* Lemma A (`scan_findLex`): the scan of `_resolve_identifier` over the chain is the spec's search
  for the innermost lexical binder.
* Lemma B (`lookup_agree`): lookup + chain following agree (induction on the code's fuel, the spec's
  two fuels are independent, so no monotonicity of fuel is needed).
* Lemma T (`resolveId_terminates`): every recursive call visits a new item of the chain.
* `nav_agree`: walking by keys keeps the store and the spec's environment related (`NavRel`).
* `sameName_of_bare`, `findBindKey_eq_findBind`, `getitemSet_bare`: `AttributeSet.__getitem__` compares
  what key and name token denote (`sameName`); on the bare keys and bare names of the fragment that
  is the comparison by spelling, so the traversal lemmas work with `getitemSetSpelled`.
-/
namespace Nima.Scope
open Nima

/-! ### names -/

theorem dropWhile_quote_of_bare (n : Text) (h : bareName n = true) :
    n.dropWhile (· == '"') = n := by
  cases n with
  | nil => rfl
  | cons c cs =>
    simp only [bareName, List.all_cons, Bool.and_eq_true, bne_iff_ne, ne_eq] at h
    have hc : (c == '"') = false := by simp [h.1]
    simp only [List.dropWhile, hc]

theorem stripQuotes_of_bare (n : Text) (h : bareName n = true) : stripQuotes n = n := by
  unfold stripQuotes
  rw [dropWhile_quote_of_bare n h]
  have h2 : bareName n.reverse = true := by
    unfold bareName at h ⊢
    rw [List.all_reverse]; exact h
  rw [dropWhile_quote_of_bare _ h2, List.reverse_reverse]

theorem specName_of_bare (n : Text) (h : bareName n = true) : specName n = n := by
  cases n with
  | nil => rfl
  | cons c cs =>
    simp only [bareName, List.all_cons, Bool.and_eq_true, bne_iff_ne, ne_eq] at h
    unfold specName
    split
    · rename_i rest heq
      injection heq with h1 _
      exact absurd h1 h.1
    · rfl

/-- a token without `"` is read by `_decode_attr_name` as itself when it is an identifier, and has
    no static name otherwise -/
theorem decodeAttrName_of_bare (n : Text) (h : bareName n = true) :
    decodeAttrName n = if nameIdent n then some n else none := by
  cases n with
  | nil => rfl
  | cons c cs =>
    simp only [bareName, List.all_cons, Bool.and_eq_true, bne_iff_ne, ne_eq] at h
    unfold decodeAttrName
    split
    · rename_i rest heq
      injection heq with h1 _
      exact absurd h1 h.1
    · rfl

/-- on tokens written without quotes `_same_attr_name` is the comparison by spelling -/
theorem sameName_of_bare (a b : Text) (ha : bareName a = true) (hb : bareName b = true) :
    sameName a b = (a == b) := by
  unfold sameName
  simp only [decodeAttrName_of_bare a ha, decodeAttrName_of_bare b hb]
  by_cases h : a = b
  · subst h; simp
  · have hab : (a == b) = false := by simpa using h
    rw [hab, Bool.false_or]
    by_cases h1 : nameIdent a = true <;> by_cases h2 : nameIdent b = true <;>
      simp [h1, h2, Ne.symm h]

/-! ### item lookup in the scopes of the fragment -/

/-- `set[key]` with a bare key on the bindings of a fragment set: the lookup by what the name tokens
    denote (`findBindKey`, the code) is the lookup by spelling (`findBind`) -/
theorem findBindKey_eq_findBind (key : Text) (s : List Item) (hk : bareName key = true)
    (h : fragItems s = true) : findBindKey key s = findBind key s := by
  induction s with
  | nil => rfl
  | cons it rest ih =>
    cases it with
    | bind id n v =>
      simp only [fragItems, Bool.and_eq_true] at h
      simp only [findBindKey, findBind, sameName_of_bare n key h.1.1 hk, beq_iff_eq, ih h.2]
    | inh id ns =>
      simp only [fragItems] at h
      simp only [findBindKey, findBind, ih h]
    | inhFrom id ns src => simp [fragItems] at h

theorem findQuoted_eq_findBind (name : Text) (s : List Item) (h : fragItems s = true) :
    findQuoted name s = findBind name s := by
  induction s with
  | nil => rfl
  | cons it rest ih =>
    cases it with
    | bind id n v =>
      simp only [fragItems, Bool.and_eq_true] at h
      simp only [findQuoted, findBind, stripQuotes_of_bare n h.1.1, ih h.2]
    | inh id ns =>
      simp only [fragItems] at h
      simp only [findQuoted, findBind, ih h]
    | inhFrom id ns src => simp [fragItems] at h

/-- the spec's and the code's search for a binding coincide on bare names -/
theorem findBindS_findBind (name : Text) (s : List Item) (h : fragItems s = true) :
    (findBind name s = none ∧ findBindS name s = none) ∨
    (∃ id n v, findBind name s = some (id, v) ∧ findBindS name s = some (.bind id n v) ∧
      fragE v = true) := by
  induction s with
  | nil => left; exact ⟨rfl, rfl⟩
  | cons it rest ih =>
    cases it with
    | bind id n v =>
      simp only [fragItems, Bool.and_eq_true] at h
      simp only [findBind, findBindS, specName_of_bare n h.1.1]
      by_cases hn : n = name
      · right; exact ⟨id, n, v, by simp [hn], by simp [hn], h.1.2⟩
      · simp only [hn, if_false]; exact ih h.2
    | inh id ns =>
      simp only [fragItems] at h
      simp only [findBind, findBindS]; exact ih h
    | inhFrom id ns src => simp [fragItems] at h

theorem findInherit_frag (name : Text) (s : List Item) (h : fragItems s = true) (it : Item)
    (hf : findInherit name s = some it) : ∃ id ns, it = .inh id ns := by
  induction s with
  | nil => cases hf
  | cons x rest ih =>
    cases x with
    | bind id n v =>
      simp only [fragItems, Bool.and_eq_true] at h
      simp only [findInherit] at hf
      exact ih h.2 hf
    | inh id ns =>
      simp only [fragItems] at h
      simp only [findInherit] at hf
      split at hf
      · injection hf with hf; exact ⟨id, ns, hf.symm⟩
      · exact ih h hf
    | inhFrom id ns src => simp [fragItems] at h


/-! ### chains and environments -/

def frameItems : Frame → List Item
  | .recF items => items
  | _ => []

/-- the scope chain (outermost first) of an environment (innermost first) of `recF` frames -/
def flat (E : Env) : Chain := (E.map frameItems).reverse

/-- environments of the fragment: let layers and rec sets whose items are in the fragment -/
def EnvOK (E : Env) : Prop := ∀ fr ∈ E, ∃ items, fr = .recF items ∧ fragItems items = true

theorem flat_cons (items : List Item) (E : Env) : flat (.recF items :: E) = flat E ++ [items] := by
  simp [flat, frameItems]

theorem flat_pushLets (E : Env) (ls : List (List Item)) : flat (pushLets E ls) = flat E ++ ls := by
  induction ls generalizing E with
  | nil => simp [pushLets]
  | cons l ls ih => simp [pushLets, ih, flat_cons]

theorem flat_eq_nil (E : Env) : flat E = [] ↔ E = [] := by
  simp [flat]

theorem envOK_nil : EnvOK [] := by intro fr h; cases h

theorem envOK_cons (items : List Item) (E : Env) (h1 : fragItems items = true) (h2 : EnvOK E) :
    EnvOK (.recF items :: E) := by
  intro fr hfr
  cases hfr with
  | head => exact ⟨items, rfl, h1⟩
  | tail _ h => exact h2 fr h

theorem envOK_tail (fr : Frame) (E : Env) (h : EnvOK (fr :: E)) : EnvOK E :=
  fun x hx => h x (List.mem_cons_of_mem _ hx)

theorem findWith_envOK (E : Env) (h : EnvOK E) : findWith E = none := by
  induction E with
  | nil => rfl
  | cons fr E ih =>
    obtain ⟨items, hfr, _⟩ := h fr (List.mem_cons_self ..)
    subst hfr
    simp only [findWith]
    exact ih (envOK_tail _ _ h)

/-- what the code's scan over the chain does, in terms of the spec's search for the innermost
    lexical binder (Lemma A) -/
inductive ScanCase (k : Resolver) (name : Text) (vis ivis : List Nat) (st : St) (E : Env) : Prop where
  | unbound (h1 : findLex name E = none)
      (h2 : scan k name vis ivis st (E.map frameItems) = (.err (.res .unbound), st))
  | bind (id : Nat) (n : Text) (v : Expr) (inner outer : Env)
      (h1 : findLex name E = some (.item (.bind id n v) inner outer))
      (h2 : scan k name vis ivis st (E.map frameItems) = resolveBinding k st id v (flat inner) vis ivis)
      (h3 : EnvOK inner) (h4 : fragE v = true)
      (h5 : ∃ pre items, E = pre ++ (.recF items :: outer) ∧ inner = .recF items :: outer ∧
        Item.bind id n v ∈ items)
  | inh (id : Nat) (ns : List Text) (inner outer : Env)
      (h1 : findLex name E = some (.item (.inh id ns) inner outer))
      (h2 : scan k name vis ivis st (E.map frameItems) =
        resolveInherited k st name (.inh id ns) (flat inner) (flat outer) vis ivis)
      (h3 : EnvOK outer)
      (h5 : ∃ pre items, E = pre ++ (.recF items :: outer) ∧ Item.inh id ns ∈ items)

theorem findBindS_mem (name : Text) (s : List Item) (it : Item) (h : findBindS name s = some it) :
    it ∈ s := by
  induction s with
  | nil => cases h
  | cons x rest ih =>
    cases x with
    | bind id n v =>
      simp only [findBindS] at h
      split at h
      · injection h with h; subst h; exact List.mem_cons_self ..
      · exact List.mem_cons_of_mem _ (ih h)
    | inh id ns => simp only [findBindS] at h; exact List.mem_cons_of_mem _ (ih h)
    | inhFrom id ns src => simp only [findBindS] at h; exact List.mem_cons_of_mem _ (ih h)

theorem findInherit_mem (name : Text) (s : List Item) (it : Item) (h : findInherit name s = some it) :
    it ∈ s := by
  induction s with
  | nil => cases h
  | cons x rest ih =>
    cases x with
    | bind id n v => simp only [findInherit] at h; exact List.mem_cons_of_mem _ (ih h)
    | inh id ns =>
      simp only [findInherit] at h
      split at h
      · injection h with h; subst h; exact List.mem_cons_self ..
      · exact List.mem_cons_of_mem _ (ih h)
    | inhFrom id ns src =>
      simp only [findInherit] at h
      split at h
      · injection h with h; subst h; exact List.mem_cons_self ..
      · exact List.mem_cons_of_mem _ (ih h)

theorem scan_findLex (k : Resolver) (name : Text) (vis ivis : List Nat) (st : St) (E : Env)
    (hE : EnvOK E) : ScanCase k name vis ivis st E := by
  induction E with
  | nil => exact .unbound rfl rfl
  | cons fr E ih =>
    obtain ⟨items, hfr, hit⟩ := hE fr (List.mem_cons_self ..)
    subst hfr
    have hE' := envOK_tail _ _ hE
    have hflat : ((items :: E.map frameItems).reverse) = flat (.recF items :: E) := by
      simp [flat, frameItems]
    have hflat' : (E.map frameItems).reverse = flat E := rfl
    rcases findBindS_findBind name items hit with ⟨hb, hbs⟩ | ⟨id, n, v, hb, hbs, hv⟩
    · -- no binding: an inherit clause, or further out
      cases hi : findInherit name items with
      | none =>
        have hfl : findLex name (.recF items :: E) = findLex name E := by
          simp [findLex, findItem, hbs, hi]
        have hsc : scan k name vis ivis st ((Frame.recF items :: E).map frameItems) =
            scan k name vis ivis st (E.map frameItems) := by
          simp [List.map, frameItems, scan, hb, findQuoted_eq_findBind name items hit, hi]
        rcases ih hE' with ⟨h1, h2⟩ | ⟨id, n, v, inner, outer, h1, h2, h3, h4, h5⟩ |
          ⟨id, ns, inner, outer, h1, h2, h3, h5⟩
        · exact .unbound (hfl ▸ h1) (hsc ▸ h2)
        · obtain ⟨pre, its, e1, e2, e3⟩ := h5
          exact .bind id n v inner outer (hfl ▸ h1) (hsc ▸ h2) h3 h4
            ⟨.recF items :: pre, its, by rw [e1]; rfl, e2, e3⟩
        · obtain ⟨pre, its, e1, e3⟩ := h5
          exact .inh id ns inner outer (hfl ▸ h1) (hsc ▸ h2) h3
            ⟨.recF items :: pre, its, by rw [e1]; rfl, e3⟩
      | some it =>
        obtain ⟨id, ns, hit'⟩ := findInherit_frag name items hit it hi
        subst hit'
        refine .inh id ns (.recF items :: E) E ?_ ?_ hE' ⟨[], items, rfl, findInherit_mem name items _ hi⟩
        · simp [findLex, findItem, hbs, hi]
        · simp only [List.map, frameItems, scan, hb, findQuoted_eq_findBind name items hit, hi, hflat, hflat']
    · refine .bind id n v (.recF items :: E) E ?_ ?_ hE hv
        ⟨[], items, rfl, rfl, findBindS_mem name items _ hbs⟩
      · simp [findLex, findItem, hbs]
      · simp only [List.map, frameItems, scan, hb, hflat]


/-! ### Lemma B: lookup and chain following agree -/

/-- spec side: find the designated binding (`lookupS`), then follow the chain (`resolveCloS`) -/
def followK (fR : Nat) : SR (Clo × List Nat × List Nat) → SR (Clo × List Nat × List Nat)
  | .fail k => .fail k
  | .ok (c2, v2, iv2) => resolveCloS fR c2 v2 iv2

def specFollow (fL fR : Nat) (E : Env) (name : Text) (vis ivis : List Nat) :
    SR (Clo × List Nat × List Nat) :=
  followK fR (lookupS fL E name vis ivis)

/-- the code's result and the spec's result name the same value, or both are failures -/
def RelR : RR → SR (Clo × List Nat × List Nat) → Prop
  | .ok v _, .ok (c, _, _) => c.e = v
  | .err (.res _), .fail _ => True
  | _, _ => False

theorem frag_ref_or_not (v : Expr) (h : fragE v = true) :
    (∃ j n, v = .ref j n) ∨ (isRefCore v = false) := by
  cases v with
  | ref j n => left; exact ⟨j, n, rfl⟩
  | letE items body =>
    right
    simp only [fragE, Bool.and_eq_true, Bool.not_eq_true'] at h
    simp only [isRefCore]; exact h.1.2
  | _ => right; rfl

theorem core_letE (items : List Item) (body : Expr) : (Expr.letE items body).core = body.core := rfl

theorem core_not_ref : (v : Expr) → isRefCore v = false → ∀ j n, v.core ≠ .ref j n
  | .letE items body, h, j, n => by
    simp only [isRefCore] at h
    rw [core_letE]
    exact core_not_ref body h j n
  | .ref .., h, _, _ => by simp [isRefCore] at h
  | .lit _, _, _, _ => by simp [Expr.core, peel]
  | .set .., _, _, _ => by simp [Expr.core, peel]
  | .withE .., _, _, _ => by simp [Expr.core, peel]
  | .paren .., _, _, _ => by simp [Expr.core, peel]
  | .app .., _, _, _ => by simp [Expr.core, peel]
  | .lam1 .., _, _, _ => by simp [Expr.core, peel]
  | .lamP .., _, _, _ => by simp [Expr.core, peel]

theorem resolveId_succ (f : Nat) (st : St) (name : Text) (chain : Chain) (vis ivis : List Nat) :
    resolveId (f + 1) st name chain vis ivis = scan (resolveId f) name vis ivis st chain.reverse := rfl

theorem flat_reverse (E : Env) : (flat E).reverse = E.map frameItems := by simp [flat]

theorem lookup_agree (fi : Nat) : ∀ (fL fR : Nat) (st : St) (E : Env) (name : Text) (vis ivis : List Nat),
    EnvOK E → (resolveId fi st name (flat E) vis ivis).1 ≠ .err .fuel →
    specFollow fL fR E name vis ivis ≠ .fail .fuel →
    RelR (resolveId fi st name (flat E) vis ivis).1 (specFollow fL fR E name vis ivis) := by
  induction fi with
  | zero => intro fL fR st E name vis ivis _ h; exact absurd rfl h
  | succ fi ih =>
    intro fL fR st E name vis ivis hE hi hs
    cases fL with
    | zero => exact absurd rfl hs
    | succ fL =>
      rw [resolveId_succ, flat_reverse] at hi ⊢
      rcases scan_findLex (resolveId fi) name vis ivis st E hE with
        ⟨h1, h2⟩ | ⟨id, n, v, inner, outer, h1, h2, h3, h4, _⟩ | ⟨id, ns, inner, outer, h1, h2, h3, _⟩
      · -- unbound
        rw [h2]
        have hsp : specFollow (fL + 1) fR E name vis ivis = followK fR (withPassS fL E name vis ivis) := by
          simp only [specFollow, lookupS, h1]
        rw [hsp] at hs ⊢
        cases fL with
        | zero => exact absurd rfl hs
        | succ fL => simp only [withPassS, findWith_envOK E hE, followK]; trivial
      · -- a binding
        rw [h2] at hi ⊢
        have hsp : specFollow (fL + 1) fR E name vis ivis =
            followK fR (itemValueS fL (.bind id n v) inner outer name vis ivis) := by
          simp only [specFollow, lookupS, h1]
        rw [hsp] at hs ⊢
        cases fL with
        | zero => exact absurd rfl hs
        | succ fL =>
          simp only [itemValueS] at hs ⊢
          unfold resolveBinding at hi ⊢
          by_cases hv : vis.contains id = true
          · simp only [hv, if_true, followK, RelR]
          · simp only [hv, if_false, followK, Bool.false_eq_true] at hi hs ⊢
            rcases frag_ref_or_not v h4 with ⟨j, n2, rfl⟩ | hnr
            · -- the value is an identifier: follow it
              cases fR with
              | zero => exact absurd rfl hs
              | succ fR =>
                have hc : (Expr.ref j n2).core = .ref j n2 := rfl
                have hsp2 : resolveCloS (fR + 1) ⟨.ref j n2, inner⟩ (id :: vis) ivis =
                    specFollow (fR + 1) fR inner n2 (id :: vis) ivis := by
                  simp only [resolveCloS, hc, specFollow, Clo.inner, Expr.layers, peel, pushLets]
                  cases lookupS (fR + 1) inner n2 (id :: vis) ivis with
                  | fail k => rfl
                  | ok p => obtain ⟨c2, v2, iv2⟩ := p; rfl
                rw [hsp2] at hs ⊢
                simp only [hc] at hi ⊢
                exact ih _ _ _ inner n2 (id :: vis) ivis h3 hi hs
            · have hcore := core_not_ref v hnr
              cases fR with
              | zero => exact absurd rfl hs
              | succ fR =>
                have hspec : resolveCloS (fR + 1) ⟨v, inner⟩ (id :: vis) ivis =
                    .ok (⟨v, inner⟩, id :: vis, ivis) := by
                  unfold resolveCloS
                  split
                  · rename_i j n2 heq; exact absurd heq (hcore j n2)
                  · rfl
                rw [hspec]
                split
                · rename_i j n2 heq; exact absurd heq (hcore j n2)
                · exact rfl
      · -- an inherit clause: the enclosing scope
        rw [h2] at hi ⊢
        have hsp : specFollow (fL + 1) fR E name vis ivis =
            followK fR (itemValueS fL (.inh id ns) inner outer name vis ivis) := by
          simp only [specFollow, lookupS, h1]
        rw [hsp] at hs ⊢
        cases fL with
        | zero => exact absurd rfl hs
        | succ fL =>
          simp only [itemValueS] at hs ⊢
          unfold resolveInherited at hi ⊢
          by_cases hv : ivis.contains id = true
          · simp only [hv, if_true, followK, RelR]
          · simp only [hv, if_false, Bool.false_eq_true] at hi hs ⊢
            have hsf : followK fR (lookupS fL outer name vis (id :: ivis)) =
                specFollow fL fR outer name vis (id :: ivis) := rfl
            rw [hsf] at hs ⊢
            by_cases ho : (flat outer).isEmpty = true
            · simp only [ho, if_true]
              have : outer = [] := by
                rw [List.isEmpty_iff] at ho
                exact (flat_eq_nil outer).1 ho
              subst this
              cases fL with
              | zero => exact absurd rfl hs
              | succ fL =>
                have : lookupS (fL + 1) [] name vis (id :: ivis) = withPassS fL [] name vis (id :: ivis) := by
                  simp only [lookupS, findLex]
                unfold specFollow at hs ⊢
                rw [this] at hs ⊢
                cases fL with
                | zero => exact absurd rfl hs
                | succ fL => simp only [withPassS, findWith, followK, RelR]
            · simp only [ho, if_false, Bool.false_eq_true] at hi ⊢
              exact ih _ _ _ outer name vis (id :: ivis) h3 hi hs


/-! ### Lemma T: in the fragment the code's recursion is bounded

Every recursive call of `_resolve_identifier` adds a binding to `visited` or an inherit clause to
`inherit_visited` that was not there and that belongs to the chain; the number of items of the
chain not yet visited decreases. -/

def cntB (vis : List Nat) : List Item → Nat
  | [] => 0
  | .bind id _ _ :: r => (if vis.contains id then 0 else 1) + cntB vis r
  | _ :: r => cntB vis r

def cntI (ivis : List Nat) : List Item → Nat
  | [] => 0
  | .inh id _ :: r => (if ivis.contains id then 0 else 1) + cntI ivis r
  | _ :: r => cntI ivis r

/-- items of the environment not yet visited -/
def remE (vis ivis : List Nat) : Env → Nat
  | [] => 0
  | fr :: E => cntB vis (frameItems fr) + cntI ivis (frameItems fr) + remE vis ivis E

theorem cntB_mono (id : Nat) (vis : List Nat) (s : List Item) : cntB (id :: vis) s ≤ cntB vis s := by
  induction s with
  | nil => exact Nat.le_refl _
  | cons x r ih =>
    cases x with
    | bind i n v =>
      simp only [cntB, List.contains_cons]
      by_cases h : vis.contains i = true <;> by_cases h2 : (i == id) = true <;>
        simp only [h, h2, Bool.or_true, Bool.true_or, Bool.or_false, Bool.or_self, if_true, if_false,
          Bool.false_eq_true] <;> omega
    | inh i ns => simpa only [cntB] using ih
    | inhFrom i ns src => simpa only [cntB] using ih

theorem cntB_strict (id : Nat) (n : Text) (v : Expr) (vis : List Nat) (s : List Item)
    (hm : Item.bind id n v ∈ s) (hv : ¬ vis.contains id = true) : cntB (id :: vis) s < cntB vis s := by
  induction s with
  | nil => cases hm
  | cons x r ih =>
    have hmono := cntB_mono id vis r
    cases hm with
    | head =>
      simp only [cntB, List.contains_cons, beq_self_eq_true, Bool.true_or, if_true, hv, if_false,
        Bool.false_eq_true]
      omega
    | tail _ hm =>
      have := ih hm
      cases x with
      | bind i n' v' =>
        simp only [cntB, List.contains_cons]
        by_cases h : vis.contains i = true <;> by_cases h2 : (i == id) = true <;>
          simp only [h, h2, Bool.or_true, Bool.true_or, Bool.or_false, Bool.or_self, if_true, if_false,
            Bool.false_eq_true] <;> omega
      | inh i ns => simpa only [cntB] using this
      | inhFrom i ns src => simpa only [cntB] using this

theorem cntI_mono (id : Nat) (ivis : List Nat) (s : List Item) : cntI (id :: ivis) s ≤ cntI ivis s := by
  induction s with
  | nil => exact Nat.le_refl _
  | cons x r ih =>
    cases x with
    | inh i ns =>
      simp only [cntI, List.contains_cons]
      by_cases h : ivis.contains i = true <;> by_cases h2 : (i == id) = true <;>
        simp only [h, h2, Bool.or_true, Bool.true_or, Bool.or_false, Bool.or_self, if_true, if_false,
          Bool.false_eq_true] <;> omega
    | bind i n v => simpa only [cntI] using ih
    | inhFrom i ns src => simpa only [cntI] using ih

theorem cntI_strict (id : Nat) (ns : List Text) (ivis : List Nat) (s : List Item)
    (hm : Item.inh id ns ∈ s) (hv : ¬ ivis.contains id = true) : cntI (id :: ivis) s < cntI ivis s := by
  induction s with
  | nil => cases hm
  | cons x r ih =>
    have hmono := cntI_mono id ivis r
    cases hm with
    | head =>
      simp only [cntI, List.contains_cons, beq_self_eq_true, Bool.true_or, if_true, hv, if_false,
        Bool.false_eq_true]
      omega
    | tail _ hm =>
      have := ih hm
      cases x with
      | inh i ns' =>
        simp only [cntI, List.contains_cons]
        by_cases h : ivis.contains i = true <;> by_cases h2 : (i == id) = true <;>
          simp only [h, h2, Bool.or_true, Bool.true_or, Bool.or_false, Bool.or_self, if_true, if_false,
            Bool.false_eq_true] <;> omega
      | bind i n v => simpa only [cntI] using this
      | inhFrom i ns' src => simpa only [cntI] using this

theorem remE_mono_vis (id : Nat) (vis ivis : List Nat) (E : Env) : remE (id :: vis) ivis E ≤ remE vis ivis E := by
  induction E with
  | nil => exact Nat.le_refl _
  | cons fr E ih =>
    have := cntB_mono id vis (frameItems fr)
    simp only [remE]; omega

theorem remE_mono_ivis (id : Nat) (vis ivis : List Nat) (E : Env) : remE vis (id :: ivis) E ≤ remE vis ivis E := by
  induction E with
  | nil => exact Nat.le_refl _
  | cons fr E ih =>
    have := cntI_mono id ivis (frameItems fr)
    simp only [remE]; omega

theorem remE_suffix (vis ivis : List Nat) (pre E : Env) : remE vis ivis E ≤ remE vis ivis (pre ++ E) := by
  induction pre with
  | nil => exact Nat.le_refl _
  | cons fr pre ih => simp only [List.cons_append, remE]; omega

theorem resolveId_terminates (f : Nat) : ∀ (st : St) (E : Env) (name : Text) (vis ivis : List Nat),
    EnvOK E → remE vis ivis E < f → (resolveId f st name (flat E) vis ivis).1 ≠ .err .fuel := by
  induction f with
  | zero => intro _ _ _ _ _ _ h; omega
  | succ f ih =>
    intro st E name vis ivis hE hr
    rw [resolveId_succ, flat_reverse]
    rcases scan_findLex (resolveId f) name vis ivis st E hE with
      ⟨h1, h2⟩ | ⟨id, n, v, inner, outer, h1, h2, h3, h4, h5⟩ | ⟨id, ns, inner, outer, h1, h2, h3, h5⟩
    · rw [h2]; intro h; cases h
    · rw [h2]
      unfold resolveBinding
      by_cases hv : vis.contains id = true
      · simp only [hv, if_true]; intro h; cases h
      · simp only [hv, if_false, Bool.false_eq_true]
        obtain ⟨pre, items, e1, e2, e3⟩ := h5
        have hlt : remE (id :: vis) ivis inner < f := by
          have a1 := cntB_strict id n v vis items e3 hv
          have a2 := remE_mono_vis id vis ivis outer
          have a3 := remE_suffix vis ivis pre (.recF items :: outer)
          rw [← e1] at a3
          rw [e2]
          simp only [remE, frameItems] at a3 ⊢
          omega
        split
        · exact ih _ inner _ _ _ h3 hlt
        · intro h; cases h
    · rw [h2]
      unfold resolveInherited
      by_cases hv : ivis.contains id = true
      · simp only [hv, if_true]; intro h; cases h
      · simp only [hv, if_false, Bool.false_eq_true]
        split
        · intro h; cases h
        · obtain ⟨pre, items, e1, e3⟩ := h5
          have hlt : remE vis (id :: ivis) outer < f := by
            have a1 := cntI_strict id ns ivis items e3 hv
            have a2 := remE_mono_ivis id vis ivis outer
            have a3 := remE_suffix vis ivis pre (.recF items :: outer)
            rw [← e1] at a3
            simp only [remE, frameItems] at a3
            omega
          exact ih _ outer _ _ _ h3 hlt


/-! ### the shape of fragment expressions -/

theorem layers_letE (items : List Item) (body : Expr) : (Expr.letE items body).layers = items :: body.layers := rfl
theorem nodeId_letE (items : List Item) (body : Expr) : nodeId (.letE items body) = nodeId body := rfl

/-- let layers of a fragment expression: non-empty, in the fragment; its core is in the fragment -/
theorem frag_layers : (e : Expr) → fragE e = true →
    (∀ l ∈ e.layers, fragItems l = true ∧ l.isEmpty = false) ∧ fragE e.core = true ∧
    nodeId e.core = nodeId e ∧ e.core.layers = []
  | .letE items body, h => by
    simp only [fragE, Bool.and_eq_true, Bool.not_eq_true'] at h
    obtain ⟨⟨⟨h1, h2⟩, _⟩, h4⟩ := h
    obtain ⟨a, b, c, d⟩ := frag_layers body h4
    refine ⟨?_, ?_, ?_, ?_⟩
    · intro l hl
      rw [layers_letE] at hl
      cases hl with
      | head => exact ⟨h2, h1⟩
      | tail _ hl => exact a l hl
    · rw [core_letE]; exact b
    · rw [core_letE, nodeId_letE]; exact c
    · rw [core_letE]; exact d
  | .lit _, h => ⟨(fun l hl => nomatch hl), h, rfl, rfl⟩
  | .ref .., h => ⟨(fun l hl => nomatch hl), h, rfl, rfl⟩
  | .set .., h => ⟨(fun l hl => nomatch hl), h, rfl, rfl⟩
  | .withE .., h => by simp [fragE] at h
  | .paren .., h => by simp [fragE] at h
  | .app .., h => by simp [fragE] at h
  | .lam1 .., h => by simp [fragE] at h
  | .lamP .., h => by simp [fragE] at h

theorem ownLayers_frag (e : Expr) (h : fragE e = true) : ownLayers e = e.layers := by
  unfold ownLayers
  apply List.filter_eq_self.2
  intro l hl
  simp [((frag_layers e h).1 l hl).2]

theorem envOK_pushLets (E : Env) (ls : List (List Item)) (hE : EnvOK E)
    (hl : ∀ l ∈ ls, fragItems l = true ∧ l.isEmpty = false) : EnvOK (pushLets E ls) := by
  induction ls generalizing E with
  | nil => exact hE
  | cons l ls ih =>
    simp only [pushLets]
    apply ih
    · exact envOK_cons l E (hl l (List.mem_cons_self ..)).1 hE
    · intro l' hl'; exact hl l' (List.mem_cons_of_mem _ hl')

/-! ### navigation in the fragment -/

/-- what links the code's store to the spec's environment at the object the traversal stands on -/
structure NavRel (st : St) (e : Expr) (E : Env) : Prop where
  envOK : EnvOK E
  frag : fragE e = true
  ctx : (st.get (nodeId e)).getD [] = flat E
  empty : E = [] → st.ctx = []

theorem get_set_cons (st : St) (id : Nat) (s : Scope) (ch : Chain) :
    (st.set id (s :: ch)).get id = some (s :: ch) := by
  simp [St.set, St.get]

theorem get_set_ne (st : St) (id : Nat) (ch : Chain) (h : ch ≠ []) : (st.set id ch).get id = some ch := by
  cases ch with
  | nil => exact absurd rfl h
  | cons s ch => exact get_set_cons st id s ch

theorem set_nil (st : St) (id : Nat) : st.set id [] = st := rfl

theorem get_of_ctx_nil (st : St) (id : Nat) (h : st.ctx = []) : st.get id = none := by
  simp [St.get, h]

/-- environment of the values of a set's bindings -/
def childEnv (r : Bool) (items : List Item) (E : Env) (ls : List (List Item)) : Env :=
  if r then .recF items :: pushLets E ls else pushLets E ls

theorem flat_childEnv (r : Bool) (items : List Item) (E : Env) (ls : List (List Item)) :
    flat (childEnv r items E ls) = flat E ++ ls ++ (if r then [items] else []) := by
  unfold childEnv
  cases r <;> simp [flat_cons, flat_pushLets]

/-- Lemma S: `scopes_for_owner` of a set of the fragment -/
theorem scopesForOwner_set (k : Resolver) (st : St) (e : Expr) (E : Env) (sid : Nat) (r : Bool)
    (items : List Item) (h : NavRel st e E) (hc : e.core = .set sid r items) :
    scopesForOwner k st e =
      (.ok (flat (childEnv r items E e.layers)),
        if r then st.set sid (flat E ++ e.layers) else st) := by
  unfold scopesForOwner
  rw [h.ctx, ownLayers_frag e h.frag, flat_childEnv]
  simp only [hc]
  cases r <;> simp


theorem core_set_frag (e : Expr) (h : fragE e = true) (sid : Nat) (r : Bool) (items : List Item)
    (hc : e.core = .set sid r items) : fragItems items = true := by
  have := (frag_layers e h).2.1
  rw [hc] at this
  simpa only [fragE] using this

theorem envOK_childEnv (e : Expr) (E : Env) (r : Bool) (items : List Item) (hE : EnvOK E)
    (hf : fragE e = true) (hi : fragItems items = true) : EnvOK (childEnv r items E e.layers) := by
  have h1 := envOK_pushLets E e.layers hE (frag_layers e hf).1
  unfold childEnv
  cases r
  · exact h1
  · exact envOK_cons items _ hi h1

theorem childEnv_eq_nil (r : Bool) (items : List Item) (E : Env) (ls : List (List Item))
    (h : childEnv r items E ls = []) : r = false ∧ E = [] ∧ ls = [] := by
  have hf : flat (childEnv r items E ls) = [] := by rw [h]; rfl
  rw [flat_childEnv] at hf
  cases r with
  | true => simp at hf
  | false =>
    simp only [Bool.false_eq_true, if_false, List.append_nil, List.append_eq_nil_iff] at hf
    exact ⟨rfl, (flat_eq_nil E).1 hf.1, hf.2⟩

/-- the store after attaching `chain = flat child` to `v` -/
theorem navRel_child (st : St) (e : Expr) (E : Env) (sid : Nat) (r : Bool) (items : List Item) (v : Expr)
    (h : NavRel st e E) (hc : e.core = .set sid r items) (hv : fragE v = true) :
    NavRel ((if r then st.set sid (flat E ++ e.layers) else st).set (nodeId v)
      (flat (childEnv r items E e.layers))) v (childEnv r items E e.layers) := by
  have hi := core_set_frag e h.frag sid r items hc
  have hok := envOK_childEnv e E r items h.envOK h.frag hi
  by_cases hnil : childEnv r items E e.layers = []
  · obtain ⟨hr, hE, hl⟩ := childEnv_eq_nil r items E e.layers hnil
    subst hr
    have hst := h.empty hE
    rw [hnil]
    simp only [Bool.false_eq_true, if_false]
    have : flat ([] : Env) = [] := rfl
    rw [this, set_nil]
    exact ⟨envOK_nil, hv, by rw [get_of_ctx_nil st _ hst]; rfl, fun _ => hst⟩
  · have hne : flat (childEnv r items E e.layers) ≠ [] := fun hf => hnil ((flat_eq_nil _).1 hf)
    exact ⟨hok, hv, by rw [get_set_ne _ _ _ hne]; rfl, fun hE => absurd hE hnil⟩

/-- `getitemSet` with the binding looked up by spelling: what `AttributeSet.__getitem__` does when
    neither the key nor a binding name of the set is quoted (`getitemSet_bare`) -/
def getitemSetSpelled (k : Resolver) (st : St) (self : Expr) (key : Text) : Except Fail Expr × St :=
  match self.core with
  | .set _ _ items =>
    match findBind key items with
    | some (_, v) =>
      match scopesForOwner k st self with
      | (.error f, st1) => (.error f, st1)
      | (.ok ch, st1) => (.ok v, st1.set (nodeId v) ch)
    | none =>
      match findInherit key items with
      | some it =>
        match scopesForOwner k st self with
        | (.error f, st1) => (.error f, st1)
        | (.ok ch, st1) =>
          let tid := inhCopyId (itemId it)
          (.ok (.ref tid key), st1.set tid (ch ++ [items]))
      | none => (.error .key, st)
  | _ => (.error .type, st)

theorem getitemSet_bare (k : Resolver) (st : St) (e : Expr) (key : Text) (sid : Nat) (r : Bool)
    (items : List Item) (hc : e.core = .set sid r items) (hi : fragItems items = true)
    (hk : bareName key = true) : getitemSet k st e key = getitemSetSpelled k st e key := by
  unfold getitemSet getitemSetSpelled
  simp only [hc, findBindKey_eq_findBind key items hk hi]
  rfl

/-- the store after `set[key]` handed out the value `v` -/
def childSt (st : St) (e : Expr) (E : Env) (sid : Nat) (r : Bool) (items : List Item) (v : Expr) : St :=
  (if r then st.set sid (flat E ++ e.layers) else st).set (nodeId v) (flat (childEnv r items E e.layers))

/-- Lemma G (binding): `set[key]` on a binding of the set -/
theorem getitemSet_bind (k : Resolver) (st : St) (e : Expr) (E : Env) (sid : Nat) (r : Bool)
    (items : List Item) (key : Text) (bid : Nat) (v : Expr) (h : NavRel st e E)
    (hc : e.core = .set sid r items) (hkb : bareName key = true)
    (hb : findBind key items = some (bid, v)) :
    getitemSet k st e key = (.ok v, childSt st e E sid r items v) ∧
      NavRel (childSt st e E sid r items v) v (childEnv r items E e.layers) := by
  have hi := core_set_frag e h.frag sid r items hc
  have hv : fragE v = true := by
    rcases findBindS_findBind key items hi with ⟨h1, _⟩ | ⟨id, n, v', h1, _, h3⟩
    · rw [h1] at hb; cases hb
    · rw [h1] at hb; injection hb with hb; injection hb with _ hb; subst hb; exact h3
  refine ⟨?_, navRel_child st e E sid r items v h hc hv⟩
  rw [getitemSet_bare k st e key sid r items hc hi hkb]
  unfold getitemSetSpelled childSt
  simp only [hc, hb, scopesForOwner_set k st e E sid r items h hc]


/-! ### traversals from an arbitrary position -/

/-- `implTraverse` from an arbitrary position (outcome only) -/
def implFrom (fuel : Nat) (prog : Expr) (st : St) (cur : Cur) (path : List Step) : Outcome :=
  match runSteps fuel prog st cur path with
  | (.error e, _) => .nav e
  | (.ok .root, _) => .nav .notIdent
  | (.ok (.at e), st1) =>
    match valueOfWith (resolveId fuel) st1 e with
    | (.err .notIdent, _) => .nav .notIdent
    | (.err f, _) => .fail f
    | (.ok v _, _) => .bound (nodeId v)

theorem implResolve_eq (fuel : Nat) (prog : Expr) (path : List Step) :
    implResolve fuel prog path = implFrom fuel prog {} .root path := by
  unfold implResolve implTraverse implFrom
  cases runSteps fuel prog {} .root path with
  | mk r st1 =>
    cases r with
    | error e => rfl
    | ok cur =>
      cases cur with
      | root => rfl
      | «at» e =>
        dsimp only
        cases valueOfWith (resolveId fuel) st1 e with
        | mk rr st2 =>
          cases rr with
          | ok v b => rfl
          | err f => cases f <;> rfl

/-- `specResolve` from an arbitrary position -/
def specFrom (fuel : Nat) (prog : Expr) (cur : SCur) (path : List Step) : SpecOutcome :=
  match specSteps fuel prog cur path with
  | .error k => .navError k
  | .nav f => .nav f
  | .ok cur =>
    match derefS fuel cur with
    | .ok c => .bound (nodeId c.e)
    | .error k => .error k
    | .nav f => .nav f

theorem specResolve_eq (fuel : Nat) (prog : Expr) (path : List Step) :
    specResolve fuel prog path = specFrom fuel prog .root path := rfl

/-- the spec gave a definite answer (did not run out of its fuel) -/
def Settled (o : SpecOutcome) : Prop := o ≠ .error .fuel ∧ o ≠ .navError .fuel

theorem resolveCloS_ref (f : Nat) (j : Nat) (n : Text) (E : Env) (vis ivis : List Nat) :
    resolveCloS (f + 1) ⟨.ref j n, E⟩ vis ivis = specFollow (f + 1) f E n vis ivis := by
  have hc : (Expr.ref j n).core = .ref j n := rfl
  simp only [resolveCloS, hc, specFollow, Clo.inner, Expr.layers, peel, pushLets]
  cases lookupS (f + 1) E n vis ivis with
  | fail k => rfl
  | ok p => obtain ⟨c2, v2, iv2⟩ := p; rfl

def implOut : RR → Outcome
  | .err .notIdent => .nav .notIdent
  | .err f => .fail f
  | .ok v _ => .bound (nodeId v)

def specOut : SR (Clo × List Nat × List Nat) → SpecOutcome
  | .ok (c, _, _) => .bound (nodeId c.e)
  | .fail k => .error k

/-- outcome of the last `.value`, both sides, from the results of Lemma B -/
theorem agrees_of_relR (r : RR) (s : SR (Clo × List Nat × List Nat))
    (hr : r ≠ .err .fuel) (hs : s ≠ .fail .fuel) (h : RelR r s) :
    agrees (implOut r) (specOut s) = true := by
  cases r with
  | ok v b =>
    cases s with
    | ok p => obtain ⟨c, v2, iv2⟩ := p; simp only [RelR] at h; subst h; simp [agrees, implOut, specOut]
    | fail k => exact absurd h (by simp [RelR])
  | err f =>
    cases f with
    | res kd =>
      cases s with
      | ok p => obtain ⟨c, v2, iv2⟩ := p; exact absurd h (by simp [RelR])
      | fail k =>
        have : k ≠ .fuel := fun hk => hs (by rw [hk])
        cases k <;> simp_all [agrees, implOut, specOut]
    | fuel => exact absurd rfl hr
    | key => exact absurd h (by simp [RelR])
    | type => exact absurd h (by simp [RelR])
    | value => exact absurd h (by simp [RelR])
    | notIdent => exact absurd h (by simp [RelR])

theorem runSteps_nil (fuel : Nat) (prog : Expr) (st : St) (cur : Cur) :
    runSteps fuel prog st cur [] = (.ok cur, st) := rfl

theorem implFrom_nil (F : Nat) (prog : Expr) (st : St) (e : Expr) :
    implFrom F prog st (.at e) [] = implOut (valueOfWith (resolveId F) st e).1 := by
  simp only [implFrom, runSteps_nil]
  cases valueOfWith (resolveId F) st e with
  | mk r st2 =>
    cases r with
    | ok v b => rfl
    | err f => cases f <;> rfl

theorem specFrom_nil_ref (fs : Nat) (prog : Expr) (j : Nat) (n : Text) (E : Env) :
    specFrom fs prog (.at ⟨.ref j n, E⟩) [] = specOut (resolveCloS fs ⟨.ref j n, E⟩ [] []) := by
  have hc : (Expr.ref j n).core = .ref j n := rfl
  simp only [specFrom, specSteps, derefS, hc]
  cases resolveCloS fs ⟨.ref j n, E⟩ [] [] with
  | fail k => rfl
  | ok p => obtain ⟨c2, v2, iv2⟩ := p; rfl

/-- F1: the path ends on a reference -/
theorem final_ref (prog : Expr) (st : St) (j : Nat) (n : Text) (E : Env) (h : NavRel st (.ref j n) E)
    (F fs : Nat) (hF : remE [] [] E < F)
    (hs : Settled (specFrom fs prog (.at ⟨.ref j n, E⟩) [])) :
    agrees (implFrom F prog st (.at (.ref j n)) []) (specFrom fs prog (.at ⟨.ref j n, E⟩) []) = true := by
  have hc : (Expr.ref j n).core = .ref j n := rfl
  rw [implFrom_nil]
  rw [specFrom_nil_ref] at hs ⊢
  have hnid : nodeId (.ref j n) = j := rfl
  by_cases hE : E = []
  · -- no scope at all: the code has no context, Nix has no binder
    subst hE
    have hget : st.get j = none := get_of_ctx_nil st j (h.empty rfl)
    have : valueOfWith (resolveId F) st (.ref j n) = (.err (.res .noContext), st) := by
      simp only [valueOfWith, hc, hget]
    rw [this]
    cases fs with
    | zero => exact absurd rfl hs.1
    | succ fs =>
      rw [resolveCloS_ref] at hs ⊢
      have hl : lookupS (fs + 1) [] n [] [] = withPassS fs [] n [] [] := by simp only [lookupS, findLex]
      simp only [specFollow, hl] at hs ⊢
      cases fs with
      | zero => exact absurd rfl hs.1
      | succ fs => simp [withPassS, findWith, followK, agrees, implOut, specOut]
  · have hne : flat E ≠ [] := fun hf => hE ((flat_eq_nil E).1 hf)
    have hget : st.get j = some (flat E) := by
      have := h.ctx
      rw [hnid] at this
      cases hg : st.get j with
      | none => rw [hg] at this; exact absurd this.symm hne
      | some ch => rw [hg] at this; simp only [Option.getD_some] at this; rw [this]
    have hv : valueOfWith (resolveId F) st (.ref j n) = resolveId F st n (flat E) [] [] := by
      simp only [valueOfWith, hc, hget]
    rw [hv]
    cases fs with
    | zero => exact absurd rfl hs.1
    | succ fs =>
      rw [resolveCloS_ref] at hs ⊢
      have ht := resolveId_terminates F st E n [] [] h.envOK hF
      have hsf : specFollow (fs + 1) fs E n [] [] ≠ .fail .fuel := by
        intro hk; rw [hk] at hs; exact hs.1 rfl
      exact agrees_of_relR _ _ ht hsf (lookup_agree F (fs + 1) fs st E n [] [] h.envOK ht hsf)


/-- F2: the path ends on something that is not a reference -/
theorem final_nonref (prog : Expr) (st : St) (v : Expr) (E : Env) (hv : isRefCore v = false) (F fs : Nat) :
    agrees (implFrom F prog st (.at v) []) (specFrom fs prog (.at ⟨v, E⟩) []) = true := by
  have hcore := core_not_ref v hv
  rw [implFrom_nil]
  have h1 : valueOfWith (resolveId F) st v = (.err .notIdent, st) := by
    unfold valueOfWith
    split
    · rename_i j n heq; exact absurd heq (hcore j n)
    · rfl
  have h2 : specFrom fs prog (.at ⟨v, E⟩) [] = .nav .notIdent := by
    simp only [specFrom, specSteps, derefS]
  rw [h1, h2]
  rfl

theorem implFrom_cons (F : Nat) (prog : Expr) (st : St) (cur : Cur) (s : Step) (rest : List Step) :
    implFrom F prog st cur (s :: rest) =
      (match stepNav F prog st cur s with
        | (.error e, _) => Outcome.nav e
        | (.ok cur1, st1) => implFrom F prog st1 cur1 rest) := by
  simp only [implFrom, runSteps]
  cases stepNav F prog st cur s with
  | mk r st1 =>
    cases r with
    | error e => rfl
    | ok cur1 => rfl

theorem specFrom_cons (fs : Nat) (prog : Expr) (cur : SCur) (s : Step) (rest : List Step) :
    specFrom fs prog cur (s :: rest) =
      (match specStep fs prog cur s with
        | .ok cur1 => specFrom fs prog cur1 rest
        | .error k => SpecOutcome.navError k
        | .nav f => .nav f) := by
  simp only [specFrom, specSteps]
  cases specStep fs prog cur s with
  | ok cur1 => rfl
  | error k => rfl
  | nav f => rfl

/-- one key step of the code from an object -/
theorem stepNav_at_key (F : Nat) (prog : Expr) (st : St) (e : Expr) (key : Text) :
    stepNav (F + 1) prog st (.at e) (.key key) =
      (match getitem (resolveId (F + 1)) (F + 1) st e key with
        | (.error x, st1) => (.error x, st1)
        | (.ok v, st1) => (.ok (.at v), st1)) := rfl

theorem bindValue_of_findBind (key : Text) (items : List Item) (bid : Nat) (v : Expr)
    (h : findBind key items = some (bid, v)) : bindValue key items = some v := by
  induction items with
  | nil => cases h
  | cons x rest ih =>
    cases x with
    | bind id n v' =>
      simp only [findBind, bindValue] at h ⊢
      split at h
      · rename_i hn; injection h with h; injection h with _ h; simp [hn, h]
      · rename_i hn; simp only [hn, if_false]; exact ih h
    | inh id ns => simp only [findBind, bindValue] at h ⊢; exact ih h
    | inhFrom id ns src => simp only [findBind, bindValue] at h ⊢; exact ih h

theorem bindValue_none_of_findBind (key : Text) (items : List Item)
    (h : findBind key items = none) : bindValue key items = none := by
  induction items with
  | nil => rfl
  | cons x rest ih =>
    cases x with
    | bind id n v' =>
      simp only [findBind, bindValue] at h ⊢
      split at h
      · cases h
      · rename_i hn; simp only [hn, if_false]; exact ih h
    | inh id ns => simp only [findBind, bindValue] at h ⊢; exact ih h
    | inhFrom id ns src => simp only [findBind, bindValue] at h ⊢; exact ih h

theorem synTarget_of_core : (e : Expr) → fragE e = true → (sid : Nat) → (r : Bool) → (items : List Item) →
    e.core = .set sid r items → synTarget e = some (r, items)
  | .letE its body, h, sid, r, items, hc => by
    simp only [fragE, Bool.and_eq_true] at h
    rw [core_letE] at hc
    simp only [synTarget]
    exact synTarget_of_core body h.2 sid r items hc
  | .set .., _, sid, r, items, hc => by
    simp only [Expr.core, peel] at hc
    injection hc with _ h2 h3
    subst h2; subst h3; rfl
  | .lit _, _, _, _, _, hc => by simp [Expr.core, peel] at hc
  | .ref .., _, _, _, _, hc => by simp [Expr.core, peel] at hc
  | .withE .., h, _, _, _, _ => by simp [fragE] at h
  | .paren .., h, _, _, _, _ => by simp [fragE] at h
  | .app .., h, _, _, _, _ => by simp [fragE] at h
  | .lam1 .., h, _, _, _, _ => by simp [fragE] at h
  | .lamP .., h, _, _, _, _ => by simp [fragE] at h


theorem specFrom_nil_inh (fs : Nat) (prog : Expr) (it : Item) (inner outer : Env) (name : Text) (b : Bool) :
    specFrom fs prog (.atInh it inner outer name b) [] =
      specOut (followK fs (itemValueS fs it inner outer name [] [])) := by
  simp only [specFrom, specSteps, derefS]
  cases itemValueS fs it inner outer name [] [] with
  | fail k => rfl
  | ok p =>
    obtain ⟨c, vis, ivis⟩ := p
    simp only [followK]
    cases resolveCloS fs c vis ivis with
    | fail k => rfl
    | ok q => obtain ⟨c2, v2, iv2⟩ := q; rfl

theorem itemValueS_inh_inner (fs : Nat) (iid : Nat) (ns : List Text) (inner inner' outer : Env) (name : Text)
    (vis ivis : List Nat) :
    itemValueS fs (.inh iid ns) inner outer name vis ivis = itemValueS fs (.inh iid ns) inner' outer name vis ivis := by
  cases fs <;> rfl

theorem getitem_set (k : Resolver) (F : Nat) (st : St) (e : Expr) (key : Text) (sid : Nat) (r : Bool)
    (items : List Item) (hc : e.core = .set sid r items) :
    getitem k (F + 1) st e key = getitemSet k st e key := by
  simp only [getitem, hc]

/-- F3: the path ends on a name a plain set inherits -/
theorem final_inherit (prog : Expr) (st : St) (e : Expr) (E : Env) (sid : Nat) (items : List Item)
    (key : Text) (it : Item) (h : NavRel st e E) (hc : e.core = .set sid false items)
    (hkb : bareName key = true) (hb : findBind key items = none) (hi : findInherit key items = some it) (F fs : Nat)
    (hF : remE [] [] (.recF items :: pushLets E e.layers) < F)
    (hs : Settled (specFrom fs prog (.at ⟨e, E⟩) [.key key])) :
    agrees (implFrom F prog st (.at e) [.key key]) (specFrom fs prog (.at ⟨e, E⟩) [.key key]) = true := by
  have hfi := core_set_frag e h.frag sid false items hc
  obtain ⟨iid, ns, hit⟩ := findInherit_frag key items hfi it hi
  subst hit
  have hbs : findBindS key items = none := by
    rcases findBindS_findBind key items hfi with ⟨_, h2⟩ | ⟨id, n, v, h1, _, _⟩
    · exact h2
    · rw [h1] at hb; cases hb
  let E' := pushLets E e.layers
  have hE' : EnvOK (.recF items :: E') :=
    envOK_cons items _ hfi (envOK_pushLets E e.layers h.envOK (frag_layers e h.frag).1)
  -- the code
  cases F with
  | zero => omega
  | succ F =>
    have hchild : childEnv false items E e.layers = E' := rfl
    have hst : getitemSet (resolveId (F + 1)) st e key =
        (.ok (.ref (inhCopyId iid) key), st.set (inhCopyId iid) (flat (.recF items :: E'))) := by
      rw [getitemSet_bare _ st e key sid false items hc hfi hkb]
      unfold getitemSetSpelled
      simp only [hc, hb, hi, scopesForOwner_set _ st e E sid false items h hc, hchild, itemId,
        Bool.false_eq_true, if_false, flat_cons]
    have himpl : implFrom (F + 1) prog st (.at e) [.key key] =
        implOut (resolveId (F + 1) (st.set (inhCopyId iid) (flat (.recF items :: E'))) key
          (flat (.recF items :: E')) [] []).1 := by
      rw [implFrom_cons, stepNav_at_key, getitem_set _ _ _ _ _ sid false items hc, hst]
      simp only
      rw [implFrom_nil]
      have hne : flat (.recF items :: E') ≠ [] := by rw [flat_cons]; simp
      have hc2 : (Expr.ref (inhCopyId iid) key).core = .ref (inhCopyId iid) key := rfl
      simp only [valueOfWith, hc2, get_set_ne _ _ _ hne]
    -- the spec
    have hspec : ∀ fs', specFrom (fs' + 1) prog (.at ⟨e, E⟩) [.key key] =
        specOut (specFollow (fs' + 1 + 1) (fs' + 1) (.recF items :: E') key [] []) := by
      intro fs'
      have hk : specStep (fs' + 1) prog (.at ⟨e, E⟩) (.key key) =
          .ok (.atInh (.inh iid ns) E' E' key false) := by
        simp only [specStep, keyStepS, hc, keyInSet, hb, hi, Clo.inner, SetClo.inner, Bool.false_eq_true,
          if_false, E']
      rw [specFrom_cons, hk]
      simp only
      rw [specFrom_nil_inh]
      have hl : lookupS (fs' + 1 + 1) (.recF items :: E') key [] [] =
          itemValueS (fs' + 1) (.inh iid ns) (.recF items :: E') E' key [] [] := by
        simp only [lookupS, findLex, findItem, hbs, hi]
      simp only [specFollow, hl]
      rw [itemValueS_inh_inner (fs' + 1) iid ns E' (.recF items :: E') E']
    cases fs with
    | zero =>
      have : specFrom 0 prog (.at ⟨e, E⟩) [.key key] = .navError .fuel := by
        rw [specFrom_cons]; rfl
      rw [this] at hs
      exact absurd rfl hs.2
    | succ fs =>
      rw [himpl]
      rw [hspec fs] at hs ⊢
      have ht := resolveId_terminates (F + 1) (st.set (inhCopyId iid) (flat (.recF items :: E')))
        (.recF items :: E') key [] [] hE' hF
      have hsf : specFollow (fs + 1 + 1) (fs + 1) (.recF items :: E') key [] [] ≠ .fail .fuel := by
        intro hk; rw [hk] at hs; exact hs.1 rfl
      exact agrees_of_relR _ _ ht hsf (lookup_agree (F + 1) _ _ _ _ key [] [] hE' ht hsf)


/-- the core of a fragment expression is a literal, a reference or a set -/
theorem frag_core_cases (e : Expr) (h : fragE e = true) :
    (∃ sid r items, e.core = .set sid r items) ∨
    ((∀ sid r items, e.core ≠ .set sid r items) ∧ (∀ i a b, e.core ≠ .withE i a b)) := by
  have hc := (frag_layers e h).2.1
  cases hcore : e.core with
  | set sid r items => left; exact ⟨sid, r, items, rfl⟩
  | lit i => right; exact ⟨(fun _ _ _ h => nomatch h), (fun _ _ _ h => nomatch h)⟩
  | ref i n => right; exact ⟨(fun _ _ _ h => nomatch h), (fun _ _ _ h => nomatch h)⟩
  | letE its b => right; exact ⟨(fun _ _ _ h => nomatch h), (fun _ _ _ h => nomatch h)⟩
  | withE i a b => rw [hcore] at hc; simp [fragE] at hc
  | paren i a => rw [hcore] at hc; simp [fragE] at hc
  | app i a b => rw [hcore] at hc; simp [fragE] at hc
  | lam1 i a b => rw [hcore] at hc; simp [fragE] at hc
  | lamP i a b => rw [hcore] at hc; simp [fragE] at hc

theorem keysOnly_cons (s : Step) (rest : List Step) (h : keysOnly (s :: rest) = true) :
    (∃ key, s = .key key) ∧ keysOnly rest = true := by
  simp only [keysOnly, List.all_cons, Bool.and_eq_true, bne_iff_ne, ne_eq] at h
  cases s with
  | key k => exact ⟨⟨k, rfl⟩, h.2⟩
  | deref => exact absurd rfl h.1

theorem keysBare_cons (key : Text) (rest : List Step) (h : keysBare (.key key :: rest) = true) :
    bareName key = true ∧ keysBare rest = true := by
  simpa only [keysBare, List.all_cons, Bool.and_eq_true] using h

/-- Navigation by keys inside the fragment: from related positions the two traversals agree. -/
theorem nav_agree (prog : Expr) : ∀ (path : List Step) (st : St) (e : Expr) (E : Env),
    NavRel st e E → keysOnly path = true → keysBare path = true → endsOnRecInherit (path.length + 1) e path = false →
    ∃ N, ∀ F fs, N ≤ F → Settled (specFrom fs prog (.at ⟨e, E⟩) path) →
      agrees (implFrom F prog st (.at e) path) (specFrom fs prog (.at ⟨e, E⟩) path) = true := by
  intro path
  induction path with
  | nil =>
    intro st e E h _ _ _
    rcases frag_ref_or_not e h.frag with ⟨j, n, rfl⟩ | hnr
    · exact ⟨remE [] [] E + 1, fun F fs hF hs => final_ref prog st j n E h F fs (by omega) hs⟩
    · exact ⟨0, fun F fs _ _ => final_nonref prog st e E hnr F fs⟩
  | cons s rest ih =>
    intro st e E h hk hq hr
    obtain ⟨⟨key, rfl⟩, hk'⟩ := keysOnly_cons s rest hk
    obtain ⟨hkb, hq'⟩ := keysBare_cons key rest hq
    rcases frag_core_cases e h.frag with ⟨sid, r, items, hc⟩ | ⟨hns, hnw⟩
    · -- standing on a set
      have hsyn := synTarget_of_core e h.frag sid r items hc
      have hfi := core_set_frag e h.frag sid r items hc
      cases hb : findBind key items with
      | some p =>
        obtain ⟨bid, v⟩ := p
        -- a binding: both sides step to its value
        have hbv := bindValue_of_findBind key items bid v hb
        have hr' : endsOnRecInherit (rest.length + 1) v rest = false := by
          simpa only [List.length_cons, endsOnRecInherit, hsyn, hbv] using hr
        obtain ⟨hg, hnav⟩ := getitemSet_bind (resolveId 0) st e E sid r items key bid v h hc hkb hb
        obtain ⟨N, hN⟩ := ih _ v (childEnv r items E e.layers) hnav hk' hq' hr'
        refine ⟨N + 1, fun F fs hF hs => ?_⟩
        cases F with
        | zero => omega
        | succ F =>
          have hi : implFrom (F + 1) prog st (.at e) (.key key :: rest) =
              implFrom (F + 1) prog (childSt st e E sid r items v) (.at v) rest := by
            rw [implFrom_cons, stepNav_at_key, getitem_set _ _ _ _ _ sid r items hc,
              (getitemSet_bind (resolveId (F + 1)) st e E sid r items key bid v h hc hkb hb).1]
          cases fs with
          | zero =>
            have : specFrom 0 prog (.at ⟨e, E⟩) (.key key :: rest) = .navError .fuel := by
              rw [specFrom_cons]; rfl
            rw [this] at hs; exact absurd rfl hs.2
          | succ fs =>
            have hsp : specFrom (fs + 1) prog (.at ⟨e, E⟩) (.key key :: rest) =
                specFrom (fs + 1) prog (.at ⟨v, childEnv r items E e.layers⟩) rest := by
              have hk2 : specStep (fs + 1) prog (.at ⟨e, E⟩) (.key key) =
                  .ok (.at ⟨v, childEnv r items E e.layers⟩) := by
                simp only [specStep, keyStepS, hc, keyInSet, hb, Clo.inner, SetClo.inner, childEnv]
              rw [specFrom_cons, hk2]
            rw [hi]
            rw [hsp] at hs ⊢
            exact hN (F + 1) (fs + 1) (by omega) hs
      | none =>
        have hbv := bindValue_none_of_findBind key items hb
        cases hi : findInherit key items with
        | none =>
          -- no such attribute: KeyError on both sides
          refine ⟨1, fun F fs hF hs => ?_⟩
          cases F with
          | zero => omega
          | succ F =>
            have himpl : implFrom (F + 1) prog st (.at e) (.key key :: rest) = .nav .key := by
              rw [implFrom_cons, stepNav_at_key, getitem_set _ _ _ _ _ sid r items hc,
                getitemSet_bare _ st e key sid r items hc hfi hkb]
              simp only [getitemSetSpelled, hc, hb, hi]
            cases fs with
            | zero =>
              have : specFrom 0 prog (.at ⟨e, E⟩) (.key key :: rest) = .navError .fuel := by
                rw [specFrom_cons]; rfl
              rw [this] at hs; exact absurd rfl hs.2
            | succ fs =>
              have hsp : specFrom (fs + 1) prog (.at ⟨e, E⟩) (.key key :: rest) = .nav .key := by
                rw [specFrom_cons]
                simp only [specStep, keyStepS, hc, keyInSet, hb, hi]
              rw [himpl, hsp]; rfl
        | some it =>
          cases rest with
          | nil =>
            -- the path ends on an inherited name: the set is not recursive (side condition)
            have hrf : r = false := by
              simp only [List.length_cons, List.length_nil, endsOnRecInherit, hsyn, hbv, hi,
                List.isEmpty_nil, Bool.true_and, Option.isSome_some, Bool.and_true] at hr
              exact hr
            subst hrf
            exact ⟨remE [] [] (.recF items :: pushLets E e.layers) + 1, fun F fs hF hs =>
              final_inherit prog st e E sid items key it h hc hkb hb hi F fs (by omega) hs⟩
          | cons s2 rest2 =>
            -- a further key on an identifier: TypeError on both sides
            obtain ⟨⟨key2, rfl⟩, _⟩ := keysOnly_cons s2 rest2 hk'
            refine ⟨1, fun F fs hF hs => ?_⟩
            cases F with
            | zero => omega
            | succ F =>
              have himpl : implFrom (F + 1) prog st (.at e) (.key key :: .key key2 :: rest2) = .nav .type := by
                rw [implFrom_cons, stepNav_at_key, getitem_set _ _ _ _ _ sid r items hc,
                  getitemSet_bare _ st e key sid r items hc hfi hkb]
                simp only [getitemSetSpelled, hc, hb, hi, scopesForOwner_set _ st e E sid r items h hc]
                rw [implFrom_cons, stepNav_at_key]
                simp only [getitem, Expr.core, peel]
              cases fs with
              | zero =>
                have : specFrom 0 prog (.at ⟨e, E⟩) (.key key :: .key key2 :: rest2) = .navError .fuel := by
                  rw [specFrom_cons]; rfl
                rw [this] at hs; exact absurd rfl hs.2
              | succ fs =>
                have hsp : specFrom (fs + 1) prog (.at ⟨e, E⟩) (.key key :: .key key2 :: rest2) = .nav .type := by
                  rw [specFrom_cons]
                  simp only [specStep, keyStepS, hc, keyInSet, hb, hi]
                  rw [specFrom_cons]
                  rfl
                rw [himpl, hsp]; rfl
    · -- standing on a literal or a reference: not subscriptable on both sides
      refine ⟨1, fun F fs hF hs => ?_⟩
      cases F with
      | zero => omega
      | succ F =>
        have himpl : implFrom (F + 1) prog st (.at e) (.key key :: rest) = .nav .type := by
          rw [implFrom_cons, stepNav_at_key]
          have : getitem (resolveId (F + 1)) (F + 1) st e key = (.error .type, st) := by
            simp only [getitem]
          rw [this]
        cases fs with
        | zero =>
          have : specFrom 0 prog (.at ⟨e, E⟩) (.key key :: rest) = .navError .fuel := by
            rw [specFrom_cons]; rfl
          rw [this] at hs; exact absurd rfl hs.2
        | succ fs =>
          have hsp : specFrom (fs + 1) prog (.at ⟨e, E⟩) (.key key :: rest) = .nav .type := by
            rw [specFrom_cons]
            have : specStep (fs + 1) prog (.at ⟨e, E⟩) (.key key) = .nav .type := by
              simp only [specStep, keyStepS]
            rw [this]
          rw [himpl, hsp]; rfl


/-- a fragment expression is a reference, or its core is a literal or a set -/
theorem frag_core3 : (e : Expr) → fragE e = true →
    (∃ j n, e = .ref j n) ∨ (∃ i, e.core = .lit i) ∨ (∃ sid r items, e.core = .set sid r items)
  | .ref j n, _ => .inl ⟨j, n, rfl⟩
  | .lit i, _ => .inr (.inl ⟨i, rfl⟩)
  | .set sid r items, _ => .inr (.inr ⟨sid, r, items, rfl⟩)
  | .letE items body, h => by
    simp only [fragE, Bool.and_eq_true, Bool.not_eq_true'] at h
    rcases frag_core3 body h.2 with ⟨j, n, rfl⟩ | ⟨i, hi⟩ | ⟨sid, r, its, hs⟩
    · simp [isRefCore] at h
    · right; left; exact ⟨i, by rw [core_letE]; exact hi⟩
    · right; right; exact ⟨sid, r, its, by rw [core_letE]; exact hs⟩
  | .withE .., h => by simp [fragE] at h
  | .paren .., h => by simp [fragE] at h
  | .app .., h => by simp [fragE] at h
  | .lam1 .., h => by simp [fragE] at h
  | .lamP .., h => by simp [fragE] at h

theorem navRel_root (prog : Expr) (h : fragE prog = true) : NavRel {} prog [] :=
  ⟨envOK_nil, h, rfl, fun _ => rfl⟩

theorem implFrom_root_nil (F : Nat) (prog : Expr) : implFrom F prog {} .root [] = .nav .notIdent := rfl
theorem specFrom_root_nil (fs : Nat) (prog : Expr) : specFrom fs prog .root [] = .nav .notIdent := rfl

/-- the first step on a document whose body is a set is the step from that set -/
theorem root_step_set (F : Nat) (prog : Expr) (key : Text) (rest : List Step) (sid : Nat) (r : Bool)
    (items : List Item) (hf : fragE prog = true) (hc : prog.core = .set sid r items)
    (htop : letOnRecTop prog = false) :
    implFrom (F + 1) prog {} .root (.key key :: rest) = implFrom (F + 1) prog {} (.at prog) (.key key :: rest) := by
  have hnav := navRel_root prog hf
  have hso := scopesForOwner_set (resolveId (F + 1)) {} prog [] sid r items hnav hc
  have hst : (if r then ({} : St).set sid (flat [] ++ prog.layers) else {}) = ({} : St) := by
    cases r with
    | false => rfl
    | true =>
      have : prog.layers = [] := by
        simp only [letOnRecTop, hc, Bool.and_true, Bool.not_eq_eq_eq_not, Bool.not_false,
          List.isEmpty_iff] at htop
        exact htop
      simp only [if_true, this]
      rfl
  rw [hst] at hso
  have h1 : resolveFromExpr (resolveId (F + 1)) (F + 1) {} prog none [] = (.ok prog, {}) := by
    simp only [resolveFromExpr, List.contains_nil, Bool.false_eq_true, if_false, hso, hc]
  rw [implFrom_cons, implFrom_cons]
  have h2 : stepNav (F + 1) prog {} .root (.key key) =
      (match getitemSet (resolveId (F + 1)) {} prog key with
        | (.error x, st2) => (.error x, st2)
        | (.ok v, st2) => (.ok (.at v), st2)) := by
    simp only [stepNav, h1]
    cases getitemSet (resolveId (F + 1)) {} prog key with
    | mk a b => cases a <;> rfl
  rw [h2, stepNav_at_key, getitem_set _ _ _ _ _ sid r items hc]

theorem root_step_set_spec (fs : Nat) (prog : Expr) (key : Text) (rest : List Step) (sid : Nat) (r : Bool)
    (items : List Item) (hc : prog.core = .set sid r items) :
    specFrom (fs + 1) prog .root (.key key :: rest) =
      specFrom (fs + 1) prog (.at ⟨prog, []⟩) (.key key :: rest) := by
  rw [specFrom_cons, specFrom_cons]
  have : specStep (fs + 1) prog .root (.key key) = specStep (fs + 1) prog (.at ⟨prog, []⟩) (.key key) := by
    simp only [specStep, specTarget, keyStepS, hc]
  rw [this]


theorem scopesForOwner_lit (k : Resolver) (e : Expr) (i : Nat) (hf : fragE e = true) (hc : e.core = .lit i) :
    scopesForOwner k {} e = (.ok e.layers, {}) := by
  unfold scopesForOwner
  rw [ownLayers_frag e hf]
  simp only [hc]
  rfl

/-- C10, partial: inside the fragment the code agrees with Nix's scoping, in bounded time. -/
theorem resolve_partial_settled (prog : Expr) (path : List Step) (h : InFragment prog path = true) :
    ∃ N, ∀ F fs, N ≤ F → Settled (specResolve fs prog path) →
      agrees (implResolve F prog path) (specResolve fs prog path) = true := by
  simp only [InFragment, Bool.and_eq_true, Bool.not_eq_true'] at h
  obtain ⟨⟨⟨⟨hf, hk⟩, hq⟩, hri⟩, htop⟩ := h
  cases path with
  | nil => exact ⟨0, fun F fs _ _ => by rw [implResolve_eq, specResolve_eq]; rfl⟩
  | cons s rest =>
    obtain ⟨⟨key, rfl⟩, _⟩ := keysOnly_cons s rest hk
    rcases frag_core3 prog hf with ⟨j, n, rfl⟩ | ⟨i, hi⟩ | ⟨sid, r, items, hc⟩
    · -- the document is a bare reference: no context / unbound
      refine ⟨1, fun F fs hF hs => ?_⟩
      rw [implResolve_eq, specResolve_eq] at *
      cases F with
      | zero => omega
      | succ F =>
        have himpl : implFrom (F + 1) (.ref j n) {} .root (.key key :: rest) = .nav (.res .noContext) := by
          rw [implFrom_cons]; rfl
        rw [himpl]
        cases fs with
        | zero =>
          have : specFrom 0 (.ref j n) .root (.key key :: rest) = .navError .fuel := by
            rw [specFrom_cons]; rfl
          rw [this] at hs; exact absurd rfl hs.2
        | succ fs =>
          have hsp : specFrom (fs + 1) (.ref j n) .root (.key key :: rest) =
              (match specFollow (fs + 1) fs [] n [] [] with
                | .fail k => SpecOutcome.navError k
                | .ok (c2, _, _) =>
                  match c2.e.core with
                  | .ref .. => SpecOutcome.navError .fuel
                  | _ => specFrom (fs + 1) (.ref j n) .root (.key key :: rest)) := by
            rw [specFrom_cons]
            have hc : (Expr.ref j n).core = .ref j n := rfl
            simp only [specStep, specTarget, hc, resolveCloS_ref]
            have hl : lookupS (fs + 1) [] n [] [] = withPassS fs [] n [] [] := by simp only [lookupS, findLex]
            simp only [specFollow, hl]
            cases fs with
            | zero => rfl
            | succ fs => simp only [withPassS, findWith, followK]
          have hl : lookupS (fs + 1) [] n [] [] = withPassS fs [] n [] [] := by simp only [lookupS, findLex]
          rw [hsp] at hs ⊢
          simp only [specFollow, hl] at hs ⊢
          cases fs with
          | zero => exact absurd rfl hs.2
          | succ fs => simp [withPassS, findWith, followK, agrees, Fail.explicit]
    · -- the document is a literal: no target set on either side
      refine ⟨1, fun F fs hF hs => ?_⟩
      rw [implResolve_eq, specResolve_eq] at *
      cases F with
      | zero => omega
      | succ F =>
        have himpl : implFrom (F + 1) prog {} .root (.key key :: rest) = .nav .value := by
          rw [implFrom_cons]
          simp only [stepNav, resolveFromExpr, List.contains_nil, Bool.false_eq_true, if_false,
            scopesForOwner_lit _ prog i hf hi, hi]
        rw [himpl]
        cases fs with
        | zero =>
          have : specFrom 0 prog .root (.key key :: rest) = .navError .fuel := by
            rw [specFrom_cons]; rfl
          rw [this] at hs; exact absurd rfl hs.2
        | succ fs =>
          have hsp : specFrom (fs + 1) prog .root (.key key :: rest) = .nav .value := by
            rw [specFrom_cons]
            simp only [specStep, specTarget, hi]
          rw [hsp]; rfl
    · -- the document is a set: walk from it
      have hnav := navRel_root prog hf
      have hri' : endsOnRecInherit ((Step.key key :: rest).length + 1) prog (.key key :: rest) = false := hri
      obtain ⟨N, hN⟩ := nav_agree prog (.key key :: rest) {} prog [] hnav hk hq hri'
      refine ⟨N + 1, fun F fs hF hs => ?_⟩
      rw [implResolve_eq, specResolve_eq] at *
      cases F with
      | zero => omega
      | succ F =>
        cases fs with
        | zero =>
          have : specFrom 0 prog .root (.key key :: rest) = .navError .fuel := by
            rw [specFrom_cons]; rfl
          rw [this] at hs; exact absurd rfl hs.2
        | succ fs =>
          rw [root_step_set F prog key rest sid r items hf hc htop]
          rw [root_step_set_spec fs prog key rest sid r items hc] at hs ⊢
          exact hN (F + 1) (fs + 1) (by omega) hs


/-- Lemma TS: in the fragment the spec settles: `2·(items not yet visited)+2` fuel on each side is enough -/
theorem specFollow_terminates (m : Nat) : ∀ (fL fR : Nat) (E : Env) (name : Text) (vis ivis : List Nat),
    EnvOK E → remE vis ivis E ≤ m → 2 * m + 2 ≤ fL → 2 * m + 2 ≤ fR →
    specFollow fL fR E name vis ivis ≠ .fail .fuel := by
  induction m with
  | zero =>
    intro fL fR E name vis ivis hE hr hL hR
    obtain ⟨x, rfl⟩ : ∃ x, fL = x + 2 := ⟨fL - 2, by omega⟩
    obtain ⟨y, rfl⟩ : ∃ y, fR = y + 1 := ⟨fR - 1, by omega⟩
    rcases scan_findLex (resolveId 0) name vis ivis {} E hE with
      ⟨h1, _⟩ | ⟨id, n, v, inner, outer, h1, _, h3, h4, h5⟩ | ⟨id, ns, inner, outer, h1, _, h3, h5⟩
    · simp only [specFollow, lookupS, h1, withPassS, findWith_envOK E hE, followK]
      intro h; cases h
    · simp only [specFollow, lookupS, h1, itemValueS]
      by_cases hv : vis.contains id = true
      · simp only [hv, if_true, followK]; intro h; cases h
      · exfalso
        obtain ⟨pre, items, e1, e2, e3⟩ := h5
        have a1 := cntB_strict id n v vis items e3 hv
        have a3 := remE_suffix vis ivis pre (.recF items :: outer)
        rw [← e1] at a3
        simp only [remE, frameItems] at a3
        omega
    · simp only [specFollow, lookupS, h1, itemValueS]
      by_cases hv : ivis.contains id = true
      · simp only [hv, if_true, followK]; intro h; cases h
      · exfalso
        obtain ⟨pre, items, e1, e3⟩ := h5
        have a1 := cntI_strict id ns ivis items e3 hv
        have a3 := remE_suffix vis ivis pre (.recF items :: outer)
        rw [← e1] at a3
        simp only [remE, frameItems] at a3
        omega
  | succ m ih =>
    intro fL fR E name vis ivis hE hr hL hR
    obtain ⟨x, rfl⟩ : ∃ x, fL = x + 2 := ⟨fL - 2, by omega⟩
    obtain ⟨y, rfl⟩ : ∃ y, fR = y + 1 := ⟨fR - 1, by omega⟩
    rcases scan_findLex (resolveId 0) name vis ivis {} E hE with
      ⟨h1, _⟩ | ⟨id, n, v, inner, outer, h1, _, h3, h4, h5⟩ | ⟨id, ns, inner, outer, h1, _, h3, h5⟩
    · simp only [specFollow, lookupS, h1, withPassS, findWith_envOK E hE, followK]
      intro h; cases h
    · simp only [specFollow, lookupS, h1, itemValueS]
      by_cases hv : vis.contains id = true
      · simp only [hv, if_true, followK]; intro h; cases h
      · simp only [hv, if_false, Bool.false_eq_true, followK]
        obtain ⟨pre, items, e1, e2, e3⟩ := h5
        have hlt : remE (id :: vis) ivis inner ≤ m := by
          have a1 := cntB_strict id n v vis items e3 hv
          have a2 := remE_mono_vis id vis ivis outer
          have a3 := remE_suffix vis ivis pre (.recF items :: outer)
          rw [← e1] at a3
          rw [e2]
          simp only [remE, frameItems] at a3 ⊢
          omega
        rcases frag_ref_or_not v h4 with ⟨j, n2, rfl⟩ | hnr
        · rw [resolveCloS_ref]
          exact ih _ _ inner n2 (id :: vis) ivis h3 hlt (by omega) (by omega)
        · have hcore := core_not_ref v hnr
          simp only [resolveCloS]
          intro h; cases h
    · simp only [specFollow, lookupS, h1, itemValueS]
      by_cases hv : ivis.contains id = true
      · simp only [hv, if_true, followK]; intro h; cases h
      · simp only [hv, if_false, Bool.false_eq_true]
        obtain ⟨pre, items, e1, e3⟩ := h5
        have hlt : remE vis (id :: ivis) outer ≤ m := by
          have a1 := cntI_strict id ns ivis items e3 hv
          have a2 := remE_mono_ivis id vis ivis outer
          have a3 := remE_suffix vis ivis pre (.recF items :: outer)
          rw [← e1] at a3
          simp only [remE, frameItems] at a3
          omega
        exact ih x (y + 1) outer name vis (id :: ivis) h3 hlt (by omega) (by omega)


theorem settled_specOut (s : SR (Clo × List Nat × List Nat)) (h : s ≠ .fail .fuel) : Settled (specOut s) := by
  cases s with
  | ok p => obtain ⟨c, a, b⟩ := p; exact ⟨(fun h => nomatch h), (fun h => nomatch h)⟩
  | fail k =>
    refine ⟨(fun hk => ?_), (fun h => nomatch h)⟩
    simp only [specOut] at hk
    injection hk with hk
    exact h (by rw [hk])

/-- the spec's traversal settles with enough fuel (same case analysis as `nav_agree`) -/
theorem nav_settled (prog : Expr) : ∀ (path : List Step) (e : Expr) (E : Env),
    EnvOK E → fragE e = true → keysOnly path = true → endsOnRecInherit (path.length + 1) e path = false →
    ∃ M, ∀ fs, M ≤ fs → Settled (specFrom fs prog (.at ⟨e, E⟩) path) := by
  intro path
  induction path with
  | nil =>
    intro e E hE hf _ _
    rcases frag_ref_or_not e hf with ⟨j, n, rfl⟩ | hnr
    · refine ⟨2 * remE [] [] E + 3, fun fs hfs => ?_⟩
      obtain ⟨y, rfl⟩ : ∃ y, fs = y + 1 := ⟨fs - 1, by omega⟩
      rw [specFrom_nil_ref, resolveCloS_ref]
      exact settled_specOut _ (specFollow_terminates _ _ _ E n [] [] hE (Nat.le_refl _) (by omega) (by omega))
    · refine ⟨0, fun fs _ => ?_⟩
      have hcore := core_not_ref e hnr
      have : specFrom fs prog (.at ⟨e, E⟩) [] = .nav .notIdent := by
        simp only [specFrom, specSteps, derefS]
      rw [this]
      exact ⟨(fun h => nomatch h), (fun h => nomatch h)⟩
  | cons s rest ih =>
    intro e E hE hf hk hr
    obtain ⟨⟨key, rfl⟩, hk'⟩ := keysOnly_cons s rest hk
    rcases frag_core_cases e hf with ⟨sid, r, items, hc⟩ | ⟨hns, hnw⟩
    · have hsyn := synTarget_of_core e hf sid r items hc
      have hfi := core_set_frag e hf sid r items hc
      cases hb : findBind key items with
      | some p =>
        obtain ⟨bid, v⟩ := p
        have hbv := bindValue_of_findBind key items bid v hb
        have hr' : endsOnRecInherit (rest.length + 1) v rest = false := by
          simpa only [List.length_cons, endsOnRecInherit, hsyn, hbv] using hr
        have hv : fragE v = true := by
          rcases findBindS_findBind key items hfi with ⟨h1, _⟩ | ⟨id, n, v', h1, _, h3⟩
          · rw [h1] at hb; cases hb
          · rw [h1] at hb; injection hb with hb; injection hb with _ hb; subst hb; exact h3
        obtain ⟨M, hM⟩ := ih v (childEnv r items E e.layers) (envOK_childEnv e E r items hE hf hfi) hv hk' hr'
        refine ⟨M + 1, fun fs hfs => ?_⟩
        obtain ⟨y, rfl⟩ : ∃ y, fs = y + 1 := ⟨fs - 1, by omega⟩
        have hk2 : specStep (y + 1) prog (.at ⟨e, E⟩) (.key key) =
            .ok (.at ⟨v, childEnv r items E e.layers⟩) := by
          simp only [specStep, keyStepS, hc, keyInSet, hb, Clo.inner, SetClo.inner, childEnv]
        rw [specFrom_cons, hk2]
        exact hM (y + 1) (by omega)
      | none =>
        have hbv := bindValue_none_of_findBind key items hb
        cases hi : findInherit key items with
        | none =>
          refine ⟨1, fun fs hfs => ?_⟩
          obtain ⟨y, rfl⟩ : ∃ y, fs = y + 1 := ⟨fs - 1, by omega⟩
          have : specFrom (y + 1) prog (.at ⟨e, E⟩) (.key key :: rest) = .nav .key := by
            rw [specFrom_cons]
            simp only [specStep, keyStepS, hc, keyInSet, hb, hi]
          rw [this]
          exact ⟨(fun h => nomatch h), (fun h => nomatch h)⟩
        | some it =>
          cases rest with
          | nil =>
            have hrf : r = false := by
              simp only [List.length_cons, List.length_nil, endsOnRecInherit, hsyn, hbv, hi,
                List.isEmpty_nil, Bool.true_and, Option.isSome_some, Bool.and_true] at hr
              exact hr
            subst hrf
            obtain ⟨iid, ns, hit⟩ := findInherit_frag key items hfi it hi
            subst hit
            have hbs : findBindS key items = none := by
              rcases findBindS_findBind key items hfi with ⟨_, h2⟩ | ⟨id, n, v, h1, _, _⟩
              · exact h2
              · rw [h1] at hb; cases hb
            have hE' : EnvOK (.recF items :: pushLets E e.layers) :=
              envOK_cons items _ hfi (envOK_pushLets E e.layers hE (frag_layers e hf).1)
            refine ⟨2 * remE [] [] (.recF items :: pushLets E e.layers) + 3, fun fs hfs => ?_⟩
            obtain ⟨y, rfl⟩ : ∃ y, fs = y + 1 := ⟨fs - 1, by omega⟩
            have hk2 : specStep (y + 1) prog (.at ⟨e, E⟩) (.key key) =
                .ok (.atInh (.inh iid ns) (pushLets E e.layers) (pushLets E e.layers) key false) := by
              simp only [specStep, keyStepS, hc, keyInSet, hb, hi, Clo.inner, SetClo.inner, Bool.false_eq_true,
                if_false]
            rw [specFrom_cons, hk2]
            simp only
            rw [specFrom_nil_inh]
            have hl : lookupS (y + 1 + 1) (.recF items :: pushLets E e.layers) key [] [] =
                itemValueS (y + 1) (.inh iid ns) (.recF items :: pushLets E e.layers) (pushLets E e.layers) key [] [] := by
              simp only [lookupS, findLex, findItem, hbs, hi]
            have hsf := specFollow_terminates _ (y + 1 + 1) (y + 1) (.recF items :: pushLets E e.layers) key [] []
              hE' (Nat.le_refl _) (by omega) (by omega)
            simp only [specFollow, hl] at hsf
            rw [itemValueS_inh_inner (y + 1) iid ns (.recF items :: pushLets E e.layers) (pushLets E e.layers)] at hsf
            exact settled_specOut _ hsf
          | cons s2 rest2 =>
            obtain ⟨⟨key2, rfl⟩, _⟩ := keysOnly_cons s2 rest2 hk'
            refine ⟨1, fun fs hfs => ?_⟩
            obtain ⟨y, rfl⟩ : ∃ y, fs = y + 1 := ⟨fs - 1, by omega⟩
            have : specFrom (y + 1) prog (.at ⟨e, E⟩) (.key key :: .key key2 :: rest2) = .nav .type := by
              rw [specFrom_cons]
              simp only [specStep, keyStepS, hc, keyInSet, hb, hi]
              rw [specFrom_cons]
              rfl
            rw [this]
            exact ⟨(fun h => nomatch h), (fun h => nomatch h)⟩
    · refine ⟨1, fun fs hfs => ?_⟩
      obtain ⟨y, rfl⟩ : ∃ y, fs = y + 1 := ⟨fs - 1, by omega⟩
      have : specFrom (y + 1) prog (.at ⟨e, E⟩) (.key key :: rest) = .nav .type := by
        rw [specFrom_cons]
        have : specStep (y + 1) prog (.at ⟨e, E⟩) (.key key) = .nav .type := by
          simp only [specStep, keyStepS]
        rw [this]
      rw [this]
      exact ⟨(fun h => nomatch h), (fun h => nomatch h)⟩


/-- inside the fragment the spec gives a definite answer with enough fuel -/
theorem spec_settles (prog : Expr) (path : List Step) (h : InFragment prog path = true) :
    ∃ M, ∀ fs, M ≤ fs → Settled (specResolve fs prog path) := by
  simp only [InFragment, Bool.and_eq_true, Bool.not_eq_true'] at h
  obtain ⟨⟨⟨⟨hf, hk⟩, _⟩, hri⟩, _⟩ := h
  cases path with
  | nil => exact ⟨0, fun fs _ => ⟨(fun h => nomatch h), (fun h => nomatch h)⟩⟩
  | cons s rest =>
    obtain ⟨⟨key, rfl⟩, _⟩ := keysOnly_cons s rest hk
    rcases frag_core3 prog hf with ⟨j, n, rfl⟩ | ⟨i, hi⟩ | ⟨sid, r, items, hc⟩
    · refine ⟨3, fun fs hfs => ?_⟩
      obtain ⟨y, rfl⟩ : ∃ y, fs = y + 3 := ⟨fs - 3, by omega⟩
      have : specResolve (y + 3) (.ref j n) (.key key :: rest) = .navError .unbound := by
        rw [specResolve_eq, specFrom_cons]
        have hc : (Expr.ref j n).core = .ref j n := rfl
        simp only [specStep, specTarget, hc, resolveCloS_ref, specFollow, lookupS, findLex, withPassS, findWith,
          followK]
      rw [this]
      exact ⟨(fun h => nomatch h), (fun h => nomatch h)⟩
    · refine ⟨1, fun fs hfs => ?_⟩
      obtain ⟨y, rfl⟩ : ∃ y, fs = y + 1 := ⟨fs - 1, by omega⟩
      have : specResolve (y + 1) prog (.key key :: rest) = .nav .value := by
        rw [specResolve_eq, specFrom_cons]
        simp only [specStep, specTarget, hi]
      rw [this]
      exact ⟨(fun h => nomatch h), (fun h => nomatch h)⟩
    · have hri' : endsOnRecInherit ((Step.key key :: rest).length + 1) prog (.key key :: rest) = false := hri
      obtain ⟨M, hM⟩ := nav_settled prog (.key key :: rest) prog [] envOK_nil hf hk hri'
      refine ⟨M + 1, fun fs hfs => ?_⟩
      obtain ⟨y, rfl⟩ : ∃ y, fs = y + 1 := ⟨fs - 1, by omega⟩
      rw [specResolve_eq, root_step_set_spec y prog key rest sid r items hc]
      exact hM (y + 1) (by omega)

/-- C10, partial, in the shape of the full statement: inside the fragment, with enough fuel on both
    sides, the code's outcome agrees with Nix's scoping. -/
theorem resolve_partial_fuel (prog : Expr) (path : List Step) (h : InFragment prog path = true) :
    ∃ N, ∀ k, agrees (implResolve (N + k) prog path) (specResolve (N + k) prog path) = true := by
  obtain ⟨N, hN⟩ := resolve_partial_settled prog path h
  obtain ⟨M, hM⟩ := spec_settles prog path h
  exact ⟨N + M, fun k => hN _ _ (by omega) (hM _ (by omega))⟩


end Nima.Scope
