import NimaVerif.Lemmas.ScopedFrame
import NimaVerif.Lemmas.MappingLaws
/-! One-segment scoped edits: what the addressed layer holds afterwards (lookup level). -/
namespace Nima
-- name tokens are compared by spelling in this file (see `NameCmp` in Model/Edit.lean)
attribute [local instance] NameCmp.spelled

open Node EditM

theorem findAttrpathLeaf_single (ts : Node) (seg : Text) : findAttrpathLeaf ts [seg] = none := by
  unfold findAttrpathLeaf walkAttrpathStack
  rfl

theorem hasIdentValueL_mem {xs : List Node} (h : hasIdentValueL xs = false) {x : Node}
    (hx : x ∈ xs) : hasIdentValue x = false := by
  induction xs with
  | nil => cases hx
  | cons y ys ih =>
    simp only [hasIdentValueL, Bool.or_eq_false_iff] at h
    rcases List.mem_cons.1 hx with rfl | hm
    · exact h.1
    · exact ih h.2 hm

theorem assignExisting_plain (ts parent : Node) (wl : Bool) {b : Node} {bid : Nat} (v : Node)
    (hid : b.bindId? = some bid) (hni : hasIdentValue b = false) :
    assignExisting ts parent wl b v = assign bid v := by
  cases b with
  | bind i n ne val bf af =>
    simp only [bindId?, Option.some.injEq] at hid
    subst hid
    simp only [hasIdentValue, Bool.or_eq_false_iff] at hni
    unfold assignExisting
    cases val <;> simp_all [bindId?, bindValue?]
  | _ => simp [bindId?] at hid

/-- `_set_value_in_attrset` for a one-segment path on a set object -/
theorem setValueInAttrset_single {sid : Nat} {vs o : List Node} {m r : Bool} (wl : Bool)
    {name seg : Text} (v : Node) (d0 : Doc) (hfmt : formatNPath currentAnchor name = .ok [seg]) :
    setValueInAttrset (.set sid vs o m r) wl name v d0 =
      if (findAttrpathRoot vs seg).isSome then (.error .value, d0)
      else match findBinding vs seg with
        | some b => assignExisting (.set sid vs o m r) (.set sid vs o m r) wl b v d0
        | none => setSetItem (.set sid vs o m r) seg v d0 := by
  unfold setValueInAttrset
  cases hr : findAttrpathRoot vs seg with
  | some x =>
    simp only [hfmt, setSid?, findAttrpathLeaf_single, setValues_set, List.isEmpty_nil, if_true, hr,
      Option.isSome_some]
    rfl
  | none =>
    simp only [hfmt, setSid?, findAttrpathLeaf_single, setValues_set, List.isEmpty_nil, if_true, hr,
      Option.isSome_none, Bool.false_eq_true, if_false]
    cases findBinding vs seg <;> rfl

/-- the scratch set after a successful one-segment `set` on a plain layer -/
theorem set_single_scratch (d : Doc) (l : Layer) {name seg : Text} (v : Node)
    (hfmt : formatNPath currentAnchor name = .ok [seg]) (hplain : l.plain = true)
    (hok : (setValueInAttrset (layerAsSet d.next l) false name v (scratchDoc d l)).1 = .ok ()) :
    ∃ S', (setValueInAttrset (layerAsSet d.next l) false name v (scratchDoc d l)).2.scratch = some S' ∧
      (∃ b, findBinding S'.setValues seg = some b ∧ b.bindValue? = some v) ∧
      keysOf S'.setValues =
        if (findBinding l.scope seg).isSome then keysOf l.scope else keysOf l.scope ++ [seg] := by
  have hsc : (scratchDoc d l).scratch = some (layerAsSet d.next l) := rfl
  simp only [layerAsSet] at hok hsc ⊢
  rw [setValueInAttrset_single false v _ hfmt] at hok ⊢
  by_cases hroot : (findAttrpathRoot l.scope seg).isSome = true
  · simp only [hroot, if_true] at hok; cases hok
  · simp only [hroot, Bool.false_eq_true, if_false] at hok ⊢
    cases hb : findBinding l.scope seg with
    | some b =>
      obtain ⟨hm, hbb, _⟩ := findBinding_some hb
      obtain ⟨bid, hid⟩ := isBind_bindId hbb
      have hni : hasIdentValue b = false := by
        simp only [Layer.plain, Bool.and_eq_true, Bool.not_eq_eq_eq_not, Bool.not_true] at hplain
        exact hasIdentValueL_mem hplain.1 hm
      simp only [assignExisting_plain _ _ false v hid hni, assign_apply]
      refine ⟨updBind bid v (.set d.next l.scope l.order true false),
        by simp only [Doc.updBind, hsc, Option.map_some], ?_, ?_⟩
      · simp only [updBind, setValues_set]
        exact findBinding_updBindL_value v hb hid
      · simp [updBind, setValues_set]
    | none =>
      simp only
      have hnew := setSetItem_new (s := .set d.next l.scope l.order true false) (k := seg)
        (sid := d.next) v (scratchDoc d l) (by rw [setValues_set]; exact hb) rfl
      rw [hnew]
      refine ⟨_, scratch_updSet_self _ d.next _ _ hsc rfl, ?_, ?_⟩
      · have hv : ((appendOrderFn (.bind (scratchDoc d l).next seg false v [] []) ∘
            appendValueFn (.bind (scratchDoc d l).next seg false v [] []))
            (.set d.next l.scope l.order true false)).setValues =
            l.scope ++ [.bind (scratchDoc d l).next seg false v [] []] := by
          simp only [Function.comp, appendValueFn, appendOrderFn]
          split <;> rfl
        rw [hv]
        exact ⟨_, findBinding_append_new l.scope _ seg rfl rfl hb, rfl⟩
      · have hv : ((appendOrderFn (.bind (scratchDoc d l).next seg false v [] []) ∘
            appendValueFn (.bind (scratchDoc d l).next seg false v [] []))
            (.set d.next l.scope l.order true false)).setValues =
            l.scope ++ [.bind (scratchDoc d l).next seg false v [] []] := by
          simp only [Function.comp, appendValueFn, appendOrderFn]
          split <;> rfl
        rw [hv]
        simp [keysOf, itemKeys]

/-- `_remove_value_in_attrset` for a one-segment path on a set object -/
theorem removeValueInAttrset_single {sid : Nat} {vs o : List Node} {m r : Bool}
    {name seg : Text} (d0 : Doc) (hfmt : formatNPath currentAnchor name = .ok [seg]) :
    removeValueInAttrset (.set sid vs o m r) name d0 =
      if (findAttrpathRoot vs seg).isSome then (.error .key, d0)
      else if (findBinding vs seg).isNone then (.error .key, d0)
      else setDelItem (.set sid vs o m r) seg d0 := by
  unfold removeValueInAttrset
  cases hr : findAttrpathRoot vs seg with
  | some x =>
    simp only [hfmt, findAttrpathLeaf_single, setValues_set, List.isEmpty_nil, if_true, hr,
      Option.isSome_some, Option.isSome_none, Bool.false_eq_true, if_false]
    rfl
  | none =>
    cases hfb : findBinding vs seg with
    | none =>
      simp only [hfmt, findAttrpathLeaf_single, setValues_set, List.isEmpty_nil, if_true, hr, hfb,
        Option.isSome_none, Bool.false_eq_true, if_false, Option.isNone_none]
      rfl
    | some b =>
      simp only [hfmt, findAttrpathLeaf_single, setValues_set, List.isEmpty_nil, if_true, hr, hfb,
        Option.isSome_none, Bool.false_eq_true, if_false, Option.isNone_some]

/-- the scratch set after a successful one-segment `rm` on a well-formed layer -/
theorem rm_single_scratch (d : Doc) (l : Layer) {name seg : Text}
    (hfmt : formatNPath currentAnchor name = .ok [seg]) (hdist : DistinctItems l.scope = true)
    (hok : (removeValueInAttrset (layerAsSet d.next l) name (scratchDoc d l)).1 = .ok ()) :
    ∃ S' b l₁ l₂, (removeValueInAttrset (layerAsSet d.next l) name (scratchDoc d l)).2.scratch = some S' ∧
      l.scope = l₁ ++ b :: l₂ ∧ b.isBind = true ∧ b.bindName? = some seg ∧ S'.setValues = l₁ ++ l₂ := by
  have hsc : (scratchDoc d l).scratch = some (layerAsSet d.next l) := rfl
  simp only [layerAsSet] at hok hsc ⊢
  rw [removeValueInAttrset_single _ hfmt] at hok ⊢
  by_cases hroot : (findAttrpathRoot l.scope seg).isSome = true
  · simp only [hroot, if_true] at hok; cases hok
  · simp only [hroot, Bool.false_eq_true, if_false] at hok ⊢
    cases hb : findBinding l.scope seg with
    | none => simp only [hb, Option.isNone_none, if_true] at hok; cases hok
    | some b =>
      simp only [Option.isNone_some, Bool.false_eq_true, if_false]
      obtain ⟨_, hbb, hbn⟩ := findBinding_some hb
      obtain ⟨bid, hid⟩ := isBind_bindId hbb
      obtain ⟨l₁, l₂, hvs, he⟩ := eraseP_found hdist hb hid
      rw [setDelItem_existing (s := .set d.next l.scope l.order true false) (sid := d.next) _
        (by rw [setValues_set]; exact hb) hid rfl]
      refine ⟨delItemFn bid (.set d.next l.scope l.order true false), b, l₁, l₂,
        scratch_updSet_self _ d.next _ _ hsc rfl, hvs, hbb, hbn, ?_⟩
      simp only [delItemFn, setValues_set, he]

end Nima
