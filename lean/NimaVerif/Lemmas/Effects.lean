import NimaVerif.Model.Effects
/-!
Soundness of the effect checker: `check p c = true → Pure p` (by induction on the execution,
with an invariant that types the region allocated since the start by allocation site).
-/
namespace Nima.Effects

/-- `v` is described by `a`, for a run started with allocator at `n0`. -/
def okVal (n0 : Nat) (h : Nat → Option Obj) : Abs → Val → Prop
  | .shared, _ => True
  | .fresh _, .prim => True
  | .fresh ts, .loc l => n0 ≤ l ∧ ∃ o, h l = some o ∧ o.site ∈ ts

structure Inv (n0 : Nat) (h0 : Nat → Option Obj) (c : Cert) (t : State) : Prop where
  frame : ∀ l, l < n0 → t.heap l = h0 l
  nxt : n0 ≤ t.next
  free : ∀ l, t.next ≤ l → t.heap l = none
  venv : ∀ x v, t.env x v → okVal n0 t.heap (c.var x) v
  hp : ∀ l o, n0 ≤ l → t.heap l = some o → ∀ f v, v ∈ o.flds f → okVal n0 t.heap (c.fld o.site f) v

theorem okVal_shared {n0 h v} : okVal n0 h .shared v := by
  cases v <;> trivial

theorem okVal_prim {n0 h a} : okVal n0 h a .prim := by
  cases a <;> trivial

/-- heaps that keep the sites of the objects they had -/
def SitesKept (h h' : Nat → Option Obj) : Prop :=
  ∀ l o, h l = some o → ∃ o', h' l = some o' ∧ o'.site = o.site

theorem okVal_mono {n0 h h' a v} (hk : SitesKept h h') (hv : okVal n0 h a v) : okVal n0 h' a v := by
  cases a with
  | shared => exact okVal_shared
  | fresh ts =>
    cases v with
    | prim => trivial
    | loc l =>
      obtain ⟨h1, o, ho, hs⟩ := hv
      obtain ⟨o', ho', hs'⟩ := hk l o ho
      exact ⟨h1, o', ho', hs' ▸ hs⟩

theorem le_sound {n0 h a b v} (hle : Abs.le a b = true) (hv : okVal n0 h a v) : okVal n0 h b v := by
  cases b with
  | shared => exact okVal_shared
  | fresh us =>
    cases a with
    | shared => simp [Abs.le] at hle
    | fresh ts =>
      cases v with
      | prim => trivial
      | loc l =>
        obtain ⟨h1, o, ho, hs⟩ := hv
        refine ⟨h1, o, ho, ?_⟩
        simp only [Abs.le, List.all_eq_true] at hle
        have := hle _ hs
        simpa using this

theorem isShared_sound {n0 h b v} (hb : Abs.isShared b = true) : okVal n0 h b v := by
  cases b with
  | shared => exact okVal_shared
  | fresh _ => simp [Abs.isShared] at hb

/-- what is loaded through a described value is described by what `loadLe` promised -/
theorem loadLe_sound {n0 h0 c t a f b l o v} (inv : Inv n0 h0 c t)
    (hl : loadLe c a f b = true) (hy : okVal n0 t.heap a (.loc l)) (ho : t.heap l = some o)
    (hv : v ∈ o.flds f) : okVal n0 t.heap b v := by
  cases a with
  | shared => exact isShared_sound (by simpa [loadLe] using hl)
  | fresh ts =>
    obtain ⟨h1, o', ho', hs⟩ := hy
    rw [ho] at ho'
    cases ho'
    simp only [loadLe, List.all_eq_true] at hl
    exact le_sound (hl _ hs) (inv.hp l o h1 ho f v hv)

theorem lookupFld_mem {fs : List (Fld × Abs)} {f : Fld} (h : lookupFld fs f ≠ .shared) :
    (f, lookupFld fs f) ∈ fs := by
  induction fs with
  | nil => simp [lookupFld] at h
  | cons e rest ih =>
    obtain ⟨g, a⟩ := e
    simp only [lookupFld] at h ⊢
    split
    · rename_i hg; subst hg; simp
    · rename_i hg
      simp only [hg, if_false] at h
      exact List.mem_cons_of_mem _ (ih h)

/-! ### Heap updates keep sites -/

theorem sitesKept_setObj {s : State} {l o o'} (ho : s.heap l = some o) (hs : o'.site = o.site) :
    SitesKept s.heap (s.setObj l o').heap := by
  intro k ok hk
  simp only [State.setObj]
  by_cases hkl : k = l
  · subst hkl
    rw [ho] at hk
    cases hk
    exact ⟨o', by simp, hs⟩
  · exact ⟨ok, by simp [hkl, hk], rfl⟩

theorem sitesKept_alloc {s : State} {o} (hfree : s.heap s.next = none) :
    SitesKept s.heap (s.allocObj o).heap := by
  intro k ok hk
  simp only [State.allocObj]
  by_cases hkl : k = s.next
  · subst hkl
    rw [hfree] at hk
    cases hk
  · exact ⟨ok, by simp [hkl, hk], rfl⟩

/-! ### Binding a variable -/

theorem inv_bind {n0 h0 c t x v} (inv : Inv n0 h0 c t) (hv : okVal n0 t.heap (c.var x) v) :
    Inv n0 h0 c (t.bind x v) where
  frame := inv.frame
  nxt := inv.nxt
  free := inv.free
  venv := by
    intro y w hw
    rcases hw with hw | ⟨rfl, rfl⟩
    · exact inv.venv y w hw
    · exact hv
  hp := inv.hp

/-! ### A write through a Fresh receiver -/

theorem inv_write {n0 h0 c t x f ys l o vs} (inv : Inv n0 h0 c t)
    (hw : writeOk c x f ys = true) (hx : t.env x (.loc l)) (ho : t.heap l = some o)
    (hvs : ∀ v ∈ vs, v ∈ o.flds f ∨ ∃ y ∈ ys, t.env y v) :
    Inv n0 h0 c (t.setObj l (o.setFld f vs)) := by
  have hxv := inv.venv x _ hx
  unfold writeOk at hw
  split at hw
  · cases hw
  · rename_i ts hts
    rw [hts] at hxv
    obtain ⟨hl, o', ho', hs⟩ := hxv
    rw [ho] at ho'
    cases ho'
    have hk : SitesKept t.heap (t.setObj l (o.setFld f vs)).heap :=
      sitesKept_setObj ho rfl
    simp only [List.all_eq_true] at hw
    refine ⟨?_, inv.nxt, ?_, ?_, ?_⟩
    · intro k hk0
      have : k ≠ l := by omega
      simp [State.setObj, this, inv.frame k hk0]
    · intro k hk0
      by_cases hkl : k = l
      · subst hkl
        rw [inv.free k hk0] at ho
        cases ho
      · simp [State.setObj, hkl, inv.free k hk0]
    · intro y w hy
      exact okVal_mono hk (inv.venv y w hy)
    · intro k ok hk0 hok g v hv
      by_cases hkl : k = l
      · subst hkl
        simp only [State.setObj, if_true] at hok
        cases hok
        simp only [Obj.setFld] at hv ⊢
        by_cases hg : g = f
        · subst hg
          simp only [if_true] at hv
          rcases hvs v hv with hold | ⟨y, hy, hyv⟩
          · exact okVal_mono hk (inv.hp k o hk0 ho g v hold)
          · exact okVal_mono hk (le_sound (hw _ hs y hy) (inv.venv y v hyv))
        · simp only [hg, if_false] at hv
          exact okVal_mono hk (inv.hp k o hk0 ho g v hv)
      · simp only [State.setObj, hkl, if_false] at hok
        exact okVal_mono hk (inv.hp k ok hk0 hok g v hv)

/-! ### An allocation -/

theorem inv_alloc {n0 h0 c t x} {o : Obj} (inv : Inv n0 h0 c t)
    (hsite : siteIn o.site (c.var x) = true)
    (hflds : ∀ f v, v ∈ o.flds f → okVal n0 t.heap (c.fld o.site f) v) :
    Inv n0 h0 c ((t.allocObj o).bind x (.loc t.next)) := by
  have hfree : t.heap t.next = none := inv.free _ (Nat.le_refl _)
  have hk : SitesKept t.heap (t.allocObj o).heap := sitesKept_alloc hfree
  have base : Inv n0 h0 c (t.allocObj o) := by
    refine ⟨?_, ?_, ?_, ?_, ?_⟩
    · intro k hk0
      have := inv.nxt
      have : k ≠ t.next := by omega
      simp [State.allocObj, this, inv.frame k hk0]
    · have := inv.nxt
      simp only [State.allocObj]; omega
    · intro k hk0
      simp only [State.allocObj] at hk0 ⊢
      have : k ≠ t.next := by omega
      simp only [this, if_false]
      exact inv.free k (by omega)
    · intro y w hy
      exact okVal_mono hk (inv.venv y w hy)
    · intro k ok hk0 hok g v hv
      by_cases hkl : k = t.next
      · subst hkl
        simp only [State.allocObj, if_true] at hok
        cases hok
        exact okVal_mono hk (hflds g v hv)
      · simp only [State.allocObj, hkl, if_false] at hok
        exact okVal_mono hk (inv.hp k ok hk0 hok g v hv)
  apply inv_bind base
  cases hcx : c.var x with
  | shared => exact okVal_shared
  | fresh ts =>
    rw [hcx] at hsite
    refine ⟨inv.nxt, o, by simp [State.allocObj], ?_⟩
    simpa [siteIn] using hsite

/-! ### One step -/

theorem step_inv {p : Prog} {c : Cert} {n0 h0 t u} (hc : check p c = true)
    (inv : Inv n0 h0 c t) (st : Step p t u) : Inv n0 h0 c u := by
  have hall : ∀ s ∈ p.stmts, okStmt c s = true := by
    simpa [check, List.all_eq_true] using hc
  cases st with
  | prim hm => exact inv_bind inv okVal_prim
  | unknown v hm =>
    have := hall _ hm
    simp only [okStmt, okRhs] at this
    exact inv_bind inv (isShared_sound this)
  | var hm hy =>
    have := hall _ hm
    simp only [okStmt, okRhs] at this
    exact inv_bind inv (le_sound this (inv.venv _ _ hy))
  | load hm hy ho hv =>
    have := hall _ hm
    simp only [okStmt, okRhs] at this
    exact inv_bind inv (loadLe_sound inv this (inv.venv _ _ hy) ho hv)
  | alloc o hm hs hf =>
    have := hall _ hm
    simp only [okStmt, okRhs, Bool.and_eq_true, List.all_eq_true] at this
    obtain ⟨h1, h2⟩ := this
    subst hs
    refine inv_alloc inv h1 ?_
    intro f v hv
    obtain ⟨y, hy, hyv⟩ := hf f v hv
    exact le_sound (h2 (f, y) hy) (inv.venv y v hyv)
  | copy o hm hy ho0 hs hf =>
    rename_i x site y upd l o0
    have := hall _ hm
    simp only [okStmt, okRhs, Bool.and_eq_true, List.all_eq_true] at this
    obtain ⟨⟨h1, h2⟩, h3⟩ := this
    subst hs
    refine inv_alloc inv h1 ?_
    intro f v hv
    rcases hf f v hv with ⟨y', hy', hyv⟩ | ⟨hnot, hold⟩
    · exact le_sound (h2 (f, y') hy') (inv.venv y' v hyv)
    · by_cases hsh : c.fld o.site f = .shared
      · rw [hsh]; exact okVal_shared
      · have hmem := lookupFld_mem (fs := c.fldsOf o.site) (f := f) hsh
        have h4 := h3 _ hmem
        simp only [Bool.or_eq_true, List.any_eq_true, beq_iff_eq] at h4
        rcases h4 with ⟨fy, hfy, heq⟩ | h4
        · obtain ⟨g, y'⟩ := fy
          simp only at heq
          subst heq
          exact absurd hfy (hnot y')
        · exact loadLe_sound inv h4 (inv.venv _ _ hy) ho0 hold
  | store hm hx ho hy =>
    rename_i lbl x f y l o v
    have := hall _ hm
    simp only [okStmt] at this
    refine inv_write inv this hx ho ?_
    intro w hw
    simp only [List.mem_singleton] at hw
    subst hw
    exact Or.inr ⟨y, by simp, hy⟩
  | mutate vs hm hx ho hvs =>
    have := hall _ hm
    simp only [okStmt] at this
    exact inv_write inv this hx ho hvs

theorem init_inv {c : Cert} {s : State} (hi : Init s) : Inv s.next s.heap c s where
  frame := fun _ _ => rfl
  nxt := Nat.le_refl _
  free := hi.2
  venv := fun x v hv => absurd hv (hi.1 x v)
  hp := by
    intro l o hl ho
    rw [hi.2 l hl] at ho
    cases ho

/-- **Soundness of the checker.**  A program every statement of which is covered by some
    certificate modifies no object that existed at the start of the run. -/
theorem check_sound (p : Prog) (c : Cert) (hc : check p c = true) : Pure p := by
  intro s t hi hex
  have : Inv s.next s.heap c t := by
    induction hex with
    | refl => exact init_inv hi
    | step _ st ih => exact step_inv hc ih st
  exact this.frame

end Nima.Effects
