import NimaVerif.Lemmas.Footprint
/-! `onLayer`, `setValue` / `removeValue` with a scope selector: unfolding lemmas. -/
namespace Nima
-- name tokens are compared by spelling in this file (see `NameCmp` in Model/Edit.lean)
attribute [local instance] NameCmp.spelled

open Node EditM

/-- the state in which the attrset-level operation runs on layer `l`: a fresh identity was taken
    for the scratch set, which is `AttributeSet(values=l.scope, attrpath_order=l.order)` -/
def scratchDoc (d : Doc) (l : Layer) : Doc :=
  { d with next := d.next + 1, scratch := some (layerAsSet d.next l) }

@[simp] theorem collect_scratchDoc (d : Doc) (l : Layer) :
    collectScopeLayers (scratchDoc d l) = collectScopeLayers d := rfl
@[simp] theorem scratchDoc_next (d : Doc) (l : Layer) : (scratchDoc d l).next = d.next + 1 := rfl
@[simp] theorem scratchDoc_target (d : Doc) (l : Layer) : (scratchDoc d l).target = d.target := rfl

theorem collect_noScratch (d : Doc) :
    collectScopeLayers { d with scratch := none } = collectScopeLayers d := rfl

theorem onLayer_run (layers : List Layer) (fromDoc : Bool) (idx : Nat) (op : Node → EditM Unit)
    (d : Doc) {l : Layer} (hl : layers[idx]? = some l) {us : List Upd}
    (hrun : (op (layerAsSet d.next l) (scratchDoc d l)).2 = applyAll us (scratchDoc d l)) :
    onLayer layers fromDoc idx op d =
      let S' := applyAllNode us (layerAsSet d.next l)
      let d2 : Doc := { applyAll us (scratchDoc d l) with scratch := none }
      let layers1 := if fromDoc then (collectScopeLayers d).map (applyAllLayer us) else layers
      let l1 := (layers1[idx]?).getD l
      match (op (layerAsSet d.next l) (scratchDoc d l)).1 with
      | .ok () => (.ok (listSet layers1 idx (setLayerFrom l1 S')), d2)
      | .error e =>
        if fromDoc then (.error e, d2.setLayerScope idx S'.setValues) else (.error e, d2) := by
  unfold onLayer
  simp only [hl]
  have hd0 : ({ d with next := d.next + 1, scratch := some (layerAsSet d.next l) } : Doc) =
      scratchDoc d l := rfl
  rw [hd0]
  cases hop : op (layerAsSet d.next l) (scratchDoc d l) with
  | mk r d1 =>
    rw [hop] at hrun
    simp only at hrun
    subst hrun
    have hs : (applyAll us (scratchDoc d l)).scratch = some (applyAllNode us (layerAsSet d.next l)) := by
      rw [applyAll_scratch]; rfl
    have hc : collectScopeLayers { applyAll us (scratchDoc d l) with scratch := none } =
        (collectScopeLayers d).map (applyAllLayer us) := by
      rw [collect_noScratch, collect_applyAll, collect_scratchDoc]
    simp only [hs, Option.getD_some, hc]
    cases r with
    | ok u => cases u; rfl
    | error e => rfl

/-! ### `listSet`, indices -/

theorem listSet_getElem?_ne {α} (xs : List α) (i j : Nat) (x : α) (h : j ≠ i) :
    (listSet xs i x)[j]? = xs[j]? := by
  simp only [listSet]
  rw [List.getElem?_set_ne (Ne.symm h)]

theorem listSet_getElem?_self {α} (xs : List α) (i : Nat) (x : α) (h : i < xs.length) :
    (listSet xs i x)[i]? = some x := by
  simp only [listSet]
  rw [List.getElem?_set_self h]

theorem listSet_length {α} (xs : List α) (i : Nat) (x : α) : (listSet xs i x).length = xs.length := by
  simp [listSet]

theorem listSet_eraseIdx {α} (xs : List α) (i : Nat) (x : α) :
    (listSet xs i x).eraseIdx i = xs.eraseIdx i := by
  simp only [listSet]
  induction xs generalizing i with
  | nil => rfl
  | cons y ys ih =>
    cases i with
    | zero => rfl
    | succ i => simp [List.set_cons_succ, List.eraseIdx_cons_succ, ih]

theorem mem_listSet {α} {xs : List α} {i : Nat} {x y : α} (h : y ∈ listSet xs i x) :
    y = x ∨ y ∈ xs := by
  simp only [listSet] at h
  rcases List.mem_or_eq_of_mem_set h with h | h
  · exact Or.inr h
  · exact Or.inl h

/-! ### growth: additions never shrink the `values` of a set -/

theorem isSet_updBind_values (b : Nat) (v n : Node) (h : n.isSet = true) :
    (updBind b v n).isSet = true ∧ (updBind b v n).setValues.length = n.setValues.length := by
  cases n <;> simp_all [isSet, updBind, setValues]

theorem isSet_updSet_grows (s : Nat) (f : SetFn) (hf : f.grows = true) (n : Node)
    (h : n.isSet = true) :
    (updSet s f.fn n).isSet = true ∧ n.setValues.length ≤ (updSet s f.fn n).setValues.length := by
  cases n with
  | set sid vs o m r =>
    by_cases hs : sid = s
    · cases f with
      | appendValue b => simp [updSet, hs, SetFn.fn, appendValueFn, isSet, setValues]
      | appendOrder x =>
        by_cases ho : o.isEmpty = true <;> simp [updSet, hs, SetFn.fn, appendOrderFn, isSet, setValues, ho]
      | delItem _ => cases hf
      | removeValue _ => cases hf
      | eraseEntry _ => cases hf
    · simp [updSet, hs, isSet, setValues]
  | _ => simp [isSet] at h

theorem applyAllNode_grows {A S : Nat → Prop} (us : List Upd) (hus : ∀ u ∈ us, u.Allowed true A S)
    (n : Node) (h : n.isSet = true) :
    (applyAllNode us n).isSet = true ∧ n.setValues.length ≤ (applyAllNode us n).setValues.length := by
  induction us generalizing n with
  | nil => exact ⟨h, Nat.le_refl _⟩
  | cons u us ih =>
    have hu := hus u (by simp)
    have h1 : (u.applyNode n).isSet = true ∧ n.setValues.length ≤ (u.applyNode n).setValues.length := by
      cases u with
      | bump => exact ⟨h, Nat.le_refl _⟩
      | assign b v =>
        simp only [applyNode_assign]
        have := isSet_updBind_values b v n h
        exact ⟨this.1, Nat.le_of_eq this.2.symm⟩
      | onSet s f =>
        simp only [applyNode_onSet]
        exact isSet_updSet_grows s f (hu.2 rfl) n h
    have h2 := ih (fun u hu => hus u (by simp [hu])) _ h1.1
    exact ⟨h2.1, Nat.le_trans h1.2 h2.2⟩

/-! ### dispatch of `set_value` / `remove_value` on a scope selector -/

theorem setValue_scoped (d : Doc) (k : Nat) (name : Text) (v : Node) (hn : d.noTarget = none)
    (hk : 1 ≤ k) (hne : name ≠ []) (hh : name.head? ≠ some '@')
    (hkn : k ≤ (collectScopeLayers d).length) :
    setValue (atSigns k ++ name) (.one v) d =
      match onLayer (collectScopeLayers d) true ((collectScopeLayers d).length - k)
          (fun s => setValueInAttrset s false name v) d with
      | (.ok ls, d') => (.ok (), writeScopeLayers ls none d')
      | (.error e, d') => (.error e, d') := by
  have hemp : (collectScopeLayers d).isEmpty = false := by
    cases h : collectScopeLayers d with
    | nil => rw [h] at hkn; simp at hkn; omega
    | cons _ _ => rfl
  unfold setValue
  simp only [hn, splitScopeNpath_ats k name hk hne hh, resolveTarget, hemp, Bool.false_and,
    Bool.false_eq_true, if_false]
  have : ¬ (k > (collectScopeLayers d).length) := by omega
  simp only [this, if_false]
  cases onLayer (collectScopeLayers d) true ((collectScopeLayers d).length - k)
      (fun s => setValueInAttrset s false name v) d with
  | mk r d' => cases r <;> rfl

/-- the tail of `remove_value` after `_remove_value_in_attrset` ran on the scratch set -/
def rmFinish (d : Doc) (idx : Nat) (layers' : List Layer) (d' : Doc) : Doc :=
  let removed : Option Layer := match layers'[idx]? with
    | some l => if l.scope.isEmpty then some l else none
    | none => none
  let layers'' := if removed.isSome then layers'.eraseIdx idx else layers'
  let d1 := writeScopeLayers layers'' removed d'
  let d2 := if removed.isSome && layers''.isEmpty then
      { d1 with trailing := (d1.trailing.reverse.dropWhile (fun t => t == 0 || t == 1)).reverse }
    else d1
  let d3 := match removed with
    | some r => if !r.bodyAfter.isEmpty then
        (if d2.trailing.isEmpty then { d2 with trailing := r.bodyAfter }
         else { d2 with trailing := d2.trailing ++ r.bodyAfter.filter (!d2.trailing.contains ·) })
      else d2
    | none => d2
  let d4 := if d3.trailing.isEmpty && !d.trailing.isEmpty then { d3 with trailing := d.trailing } else d3
  let rs := match removed with
    | some r => layers''.isEmpty && !r.bodyBefore.isEmpty
    | none => false
  { d4 with rstripped := rs }

theorem removeValue_scoped (d : Doc) (k : Nat) (name : Text) (hn : d.noTarget = none)
    (hk : 1 ≤ k) (hne : name ≠ []) (hh : name.head? ≠ some '@')
    (hkn : k ≤ (collectScopeLayers d).length) :
    removeValue (atSigns k ++ name) d =
      match onLayer (collectScopeLayers d) true ((collectScopeLayers d).length - k)
          (fun s => removeValueInAttrset s name) d with
      | (.error e, d') => (.error e, d')
      | (.ok layers', d') =>
        (.ok (), rmFinish d ((collectScopeLayers d).length - k) layers' d') := by
  have : ¬ (k > (collectScopeLayers d).length) := by omega
  unfold removeValue
  simp only [hn, splitScopeNpath_ats k name hk hne hh, resolveTarget, this, if_false]
  cases onLayer (collectScopeLayers d) true ((collectScopeLayers d).length - k)
      (fun s => removeValueInAttrset s name) d with
  | mk r d' => cases r <;> rfl

/-- what the tail computes: which layer (if any) is dropped, and the layers that are written -/
def rmRemoved (idx : Nat) (layers' : List Layer) : Option Layer :=
  match layers'[idx]? with
  | some l => if l.scope.isEmpty then some l else none
  | none => none
def rmLayers (idx : Nat) (layers' : List Layer) : List Layer :=
  if (rmRemoved idx layers').isSome then layers'.eraseIdx idx else layers'

theorem rmFinish_fields (d : Doc) (idx : Nat) (layers' : List Layer) (d' : Doc) :
    let w := writeScopeLayers (rmLayers idx layers') (rmRemoved idx layers') d'
    let r := rmFinish d idx layers' d'
    collectScopeLayers r = collectScopeLayers w ∧ r.target = w.target ∧ r.tBefore = w.tBefore ∧
    r.tAfter = w.tAfter ∧ r.scratch = w.scratch ∧ r.noTarget = w.noTarget ∧ r.next = w.next ∧
    r.topScope = w.topScope := by
  unfold rmFinish rmLayers rmRemoved
  dsimp only
  repeat' split
  all_goals exact ⟨rfl, rfl, rfl, rfl, rfl, rfl, rfl, rfl⟩

end Nima
