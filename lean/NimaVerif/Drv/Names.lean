import NimaVerif.Model.AttrPath
import NimaVerif.Model.SExp
/-! Driver requests for L1 (names, paths, escapes). -/
namespace Nima.Drv.Names
open Nima

def handle' (req : SExp) : SExp :=
  match req with
  | .list [.atom "npath", .atom anchor, .atom h] =>
    match decText h with
    | none => .list [.atom "bad-arg"]
    | some p =>
      match parseNPath (anchor == "t") p with
      | .ok segs => .list (.atom "ok" :: segs.map fun s => .list [sText s.name, sBool s.quoted])
      | .error e => sErr e
  | .list [.atom "fmtname", .atom anchor, .atom h, .atom q] =>
    match decText h with
    | none => .list [.atom "bad-arg"]
    | some n => .list [.atom "ok", sText (formatAttrName (anchor == "t") ⟨n, q == "t"⟩)]
  | .list [.atom "escape", .atom h, .atom i] =>
    match decText h with
    | none => .list [.atom "bad-arg"]
    | some n => .list [.atom "ok", sText (escapeNix (i == "t") n)]
  | .list [.atom "split", .atom h] =>
    match decText h with
    | none => .list [.atom "bad-arg"]
    | some n =>
      match splitAttrpath n with
      | .ok segs => .list (.atom "ok" :: segs.map sText)
      | .error e => sErr e
  | .list [.atom "decode", .atom h] =>
    match decText h with
    | none => .list [.atom "bad-arg"]
    | some n =>
      match nixDecodeName n with
      | some t => .list [.atom "some", sText t]
      | none => .list [.atom "none"]
  | .list [.atom "decname", .atom h] =>
    match decText h with
    | none => .list [.atom "bad-arg"]
    | some n =>
      match decodeAttrName n with
      | some t => .list [.atom "some", sText t]
      | none => .list [.atom "none"]
  | .list [.atom "samename", .atom h1, .atom h2] =>
    match decText h1, decText h2 with
    | some a, some b => .list [.atom "ok", sBool (sameName a b)]
    | _, _ => .list [.atom "bad-arg"]
  | .list [.atom "segname", .atom h] =>
    match decText h with
    | none => .list [.atom "bad-arg"]
    | some n => .list [.atom "ok", sText (segmentName n)]
  | .list [.atom "renderseg", .atom h] =>
    match decText h with
    | none => .list [.atom "bad-arg"]
    | some n => .list [.atom "ok", sText (renderSeg n)]
  | _ => .list [.atom "bad-op"]


def ops : List String := ["npath", "fmtname", "escape", "split", "decode", "renderseg", "decname", "samename", "segname"]

def handle (req : SExp) : Option SExp :=
  match req with
  | .list (.atom op :: _) => if ops.contains op then some (handle' req) else none
  | _ => none

end Nima.Drv.Names
