import NimaVerif.Lemmas.NameAgree
import NimaVerif.Lemmas.EditScoped
import NimaVerif.Lemmas.AttrWalk
/-!
# C19 — edits compose predictably: repeatable, reversible, order-independent

Laws of the edit model (`Model/Edit.lean`), for every document, path text and value. The output
text is a function of the document (the renderer takes nothing else), so equal documents give equal
texts; the identity counter `next` is not part of what is rendered, which is why "up to `next`"
appears where an operation allocates.

* §1 the algebra underneath: a write by identity is idempotent; writes to different objects commute;
* §2 `set p v ; set p v = set p v` — proved for existing plain bindings, fresh single segments and
  attrpath leaves; the unrestricted statement is **false** when `v` is an identifier that names a
  sibling: the second `set` goes *through* the reference it has just written (`cex_set_set_ident`);
* §3 `set p v ; rm p = id` for a fresh single segment (append-then-erase-last), up to `next`; and
  `rm p ; set p v₀`: the name is rebound (last, without its trivia) — the tree, not the document;
* §4 `set p v ; set q w = set q w ; set p v` for distinct existing plain bindings; false when a
  current value is a reference to the other binding (`cex_set_comm_ident`);
* §5 scoped `set @k v ; rm @k` on a document without let layers: the layer is created, then pruned.
  What comes back is `d` except `trailing` (`restoredTrailing`), the `rstripped` flag and `next`; the
  exact statement, the cases where that is `d` again, and the two ways it is not.
-/
namespace Nima.C19
-- name tokens are compared by spelling in this file (see `NameCmp` in Model/Edit.lean)
attribute [local instance] NameCmp.spelled

open Node

/-! ## 1. The algebra of writes by identity -/

/-- `binding.value = v` twice is once — for every document, unconditionally. -/
theorem updBind_idem (id : Nat) (v : Node) (d : Doc) : (d.updBind id v).updBind id v = d.updBind id v :=
  Doc.updBind_idem id v d

/-- A later write to the same object wins, whatever was written before. -/
theorem updBind_absorb (id : Nat) (v w : Node) (d : Doc) :
    (d.updBind id v).updBind id w = d.updBind id w :=
  Doc.updBind_absorb id v w d

/-- Writes to two different Binding objects commute, provided neither written value contains the
    other object (freshly parsed values never do: their objects are new). -/
theorem updBind_comm (i j : Nat) (v w : Node) (hij : i ≠ j)
    (hv : Node.hasBind j v = false) (hw : Node.hasBind i w = false) (d : Doc) :
    (d.updBind j w).updBind i v = (d.updBind i v).updBind j w :=
  Doc.updBind_comm i j v w hij hv hw d

/-- Two in-place mutations of one AttributeSet object are one mutation by the composite (the first
    keeps the object's identity). -/
theorem updSet_fuse (sid : Nat) (f g : Node → Node)
    (hf : ∀ vs o m r, (f (.set sid vs o m r)).setSid? = some sid) (d : Doc) :
    (d.updSet sid f).updSet sid g = d.updSet sid (fun x => g (f x)) :=
  Doc.updSet_fuse sid f g hf d

/-- Mutations of two different AttributeSet objects commute when each commutes with the other update
    on the object it is applied to. -/
theorem updSet_comm (s t : Nat) (f g : Node → Node) (hst : s ≠ t)
    (hf : ∀ vs o m r, f (Node.updSet t g (.set s vs o m r)) = Node.updSet t g (f (.set s vs o m r)))
    (hg : ∀ vs o m r, g (Node.updSet s f (.set t vs o m r)) = Node.updSet s f (g (.set t vs o m r)))
    (n : Node) :
    Node.updSet s f (Node.updSet t g n) = Node.updSet t g (Node.updSet s f n) :=
  Nima.updSet_comm s t f g hst hf hg n

/-- An idempotent, identity-keeping mutation is idempotent on every tree. -/
theorem updSet_idem (sid : Nat) (f : Node → Node)
    (hf : ∀ vs o m r, (f (.set sid vs o m r)).setSid? = some sid)
    (hff : ∀ vs o m r, f (f (.set sid vs o m r)) = f (.set sid vs o m r)) (n : Node) :
    Node.updSet sid f (Node.updSet sid f n) = Node.updSet sid f n :=
  Nima.updSet_idem sid f hf hff n

/-- The same two laws for whole documents. -/
theorem doc_updSet_idem (sid : Nat) (f : Node → Node)
    (hf : ∀ vs o m r, (f (.set sid vs o m r)).setSid? = some sid)
    (hff : ∀ vs o m r, f (f (.set sid vs o m r)) = f (.set sid vs o m r)) (d : Doc) :
    (d.updSet sid f).updSet sid f = d.updSet sid f :=
  Doc.updSet_idem sid f hf hff d

theorem doc_updSet_comm (s t : Nat) (f g : Node → Node) (hst : s ≠ t)
    (hf : ∀ vs o m r, f (Node.updSet t g (.set s vs o m r)) = Node.updSet t g (f (.set s vs o m r)))
    (hg : ∀ vs o m r, g (Node.updSet s f (.set t vs o m r)) = Node.updSet s f (g (.set t vs o m r)))
    (d : Doc) :
    (d.updSet t g).updSet s f = (d.updSet s f).updSet t g :=
  Doc.updSet_comm s t f g hst hf hg d

/-! ## 2. Idempotence of `set` -/

/-- FULL statement: a successful `set p v`, repeated, yields the same document. -/
def set_set_idem_full : Prop :=
  ∀ (d : Doc) (p : Text) (v : Node), (setValue p (.one v) d).1 = .ok () →
    (setValue p (.one v) (setValue p (.one v) d).2).2 = (setValue p (.one v) d).2

/-- `{ a = 1; b = 2; }` -/
def twoBindings : Doc :=
  { target := .set 1 [.bind 2 "a".toList false (.atom "1".toList) [] [],
                      .bind 3 "b".toList false (.atom "2".toList) [] []] [] true false
    next := 4 }

/-- which top-level values of the target are identifier references -/
def identMask (d : Doc) : List (Option Bool) :=
  d.target.setValues.map fun n => n.bindValue?.map Node.isIdent

/-- Counterexample (not yet a recorded finding; reported to the lead): `set a b` on `{ a = 1; b = 2; }`
    gives `{ a = b; b = 2; }`; the same command again finds `a`'s value to be the identifier `b`,
    follows it to the sibling binding and overwrites **that**: `{ a = b; b = b; }`
    (`_set_value_in_attrset`: `sibling_binding.value = value_expr`). Reproduced on the implementation. -/
theorem cex_set_set_ident : ¬ set_set_idem_full := by
  intro h
  have := congrArg identMask (h twoBindings "a".toList (.ident "b".toList) (by decide))
  revert this
  decide

/-- The general statement once the identifier case is taken out: **not proved** (stated so that the
    gap is explicit). It needs, beyond the three cases proved below, the stability of
    `resolveParentWalk` / `setAttrpathWalk` / `resolveIdent` under the first `set`'s writes, for which
    the unique-identity invariant of parser-built documents has to be carried through nested sets. -/
def set_set_idem_general : Prop :=
  ∀ (d : Doc) (p : Text) (v : Node), d.Fresh → v.isIdent = false →
    (setValue p (.one v) d).1 = .ok () →
    ∃ n, (setValue p (.one v) (setValue p (.one v) d).2).2 = { (setValue p (.one v) d).2 with next := n }

/-- PARTIAL (existing plain binding): old and new value are not identifier references. -/
theorem set_set_idem_existing (d : Doc) (p k : Text) (v : Node) (bid : Nat) (nm : Text) (ne : Bool)
    (val : Node) (bf af : Payload)
    (hnt : d.noTarget = none) (hsp : splitScopeNpath p = .ok none)
    (hf : formatNPath currentAnchor p = .ok [k])
    (hr : findAttrpathRoot d.target.setValues k = none)
    (hb : findBinding d.target.setValues k = some (.bind bid nm ne val bf af))
    (hval : val.isIdent = false) (hv : v.isIdent = false) :
    setValue p (.one v) (setValue p (.one v) d).2 = setValue p (.one v) d :=
  Nima.set_set_idem_existing d p k v bid nm ne val bf af hnt hsp hf hr hb hval hv

/-- PARTIAL (fresh single segment): the second `set` finds the binding the first appended and writes
    the same value; even `next` agrees. `d.hasBind d.next = false`: identities are allocated above
    everything in the document (`Doc.Fresh` implies it). -/
theorem set_set_idem_fresh (d : Doc) (p k : Text) (v : Node) (sid : Nat)
    (hnt : d.noTarget = none) (hsp : splitScopeNpath p = .ok none)
    (hf : formatNPath currentAnchor p = .ok [k])
    (hs : d.target.setSid? = some sid)
    (hr : findAttrpathRoot d.target.setValues k = none)
    (hb : findBinding d.target.setValues k = none)
    (hfresh : d.hasBind d.next = false) (hv : v.isIdent = false) :
    setValue p (.one v) (setValue p (.one v) d).2 = setValue p (.one v) d :=
  Nima.set_set_idem_fresh d p k v sid hnt hsp hf hs hr hb hfresh hv

/-- PARTIAL (attrpath leaf `a.b.c`): no condition on the value at all; `hids`: the leaf object is not
    also one of the bindings on the way to it (identities unique). -/
theorem set_set_idem_attrpath (d : Doc) (p : Text) (segs : List Text) (v : Node) (lid : Nat) (nm : Text)
    (ne : Bool) (val : Node) (bf af : Payload) (pre : List (Node × Node)) (par : Node)
    (hnt : d.noTarget = none) (hsp : splitScopeNpath p = .ok none)
    (hf : formatNPath currentAnchor p = .ok segs)
    (hw : walkAttrpathStack d.target segs false false =
      .ok (some (pre ++ [(par, .bind lid nm ne val bf af)])))
    (hids : ∀ pb ∈ pre, pb.2.bindId? ≠ some lid) :
    setValue p (.one v) (setValue p (.one v) d).2 = setValue p (.one v) d :=
  Nima.set_set_idem_attrpath d p segs v lid nm ne val bf af pre par hnt hsp hf hw hids

theorem fresh_hasBind {d : Doc} (h : d.Fresh) : d.hasBind d.next = false :=
  (h.not_has d.next (Nat.le_refl _)).1

/-! ## 3. `set` then `rm` of a fresh single segment restores the document -/

/-- Append-then-erase-last: whether the target's `attrpath_order` is empty or not, `rm p` after
    `set p v` gives back `d`; only the identity counter has moved. -/
theorem set_rm_restores (d : Doc) (p k : Text) (v : Node) (sid : Nat)
    (hnt : d.noTarget = none) (hsp : splitScopeNpath p = .ok none)
    (hf : formatNPath currentAnchor p = .ok [k])
    (hs : d.target.setSid? = some sid)
    (hr : findAttrpathRoot d.target.setValues k = none)
    (hb : findBinding d.target.setValues k = none)
    (hfresh : d.hasBind d.next = false) :
    removeValue p (setValue p (.one v) d).2 = (.ok (), { d with next := d.next + 1 }) :=
  set_rm_restores_fresh d p k v sid hnt hsp hf hs hr hb hfresh

/-- `rm k` then `set k val` with the removed value (DESIGN: "restores the tree", not the document):
    the name is bound to the value again — by a NEW Binding object at the end of `values` (and of a
    non-empty `attrpath_order`), with empty trivia; every other binding is where it was. `huniq`: no
    second binding spelled `k` is left (decidable; else the second `set` would overwrite that one). -/
theorem rm_set_rebinds (d : Doc) (p k : Text) (bid : Nat) (nm : Text) (ne : Bool)
    (val : Node) (bf af : Payload) (sid : Nat) (vs o : List Node) (m r : Bool)
    (hnt : d.noTarget = none) (hsp : splitScopeNpath p = .ok none)
    (hf : formatNPath currentAnchor p = .ok [k])
    (ht : d.target = .set sid vs o m r)
    (hr : findAttrpathRoot vs k = none)
    (hb : findBinding vs k = some (.bind bid nm ne val bf af))
    (hone : d.sidElsewhere sid = false)
    (huniq : findBinding (vs.eraseP fun n => n.bindId? == some bid) k = none) :
    setValue p (.one val) (removeValue p d).2 =
      (.ok (), { d with
        target := .set sid ((vs.eraseP fun n => n.bindId? == some bid) ++ [.bind d.next k false val [] []])
          (if (if o.isEmpty then o else o.eraseP fun n => n.isBind && n.bindId? == some bid).isEmpty
           then (if o.isEmpty then o else o.eraseP fun n => n.isBind && n.bindId? == some bid)
           else (if o.isEmpty then o else o.eraseP fun n => n.isBind && n.bindId? == some bid) ++
             [.bind d.next k false val [] []]) m r
        next := d.next + 1 }) :=
  Nima.rm_set_rebinds d p k bid nm ne val bf af sid vs o m r hnt hsp hf ht hr hb hone huniq

/-! ## 4. `set`s on distinct existing bindings commute -/

/-- FULL statement: for two different existing top-level bindings the order of two `set`s does not
    matter. -/
def set_comm_full : Prop :=
  ∀ (d : Doc) (p q kp kq : Text) (v w bp bq : Node),
    d.noTarget = none →
    splitScopeNpath p = .ok none → formatNPath currentAnchor p = .ok [kp] →
    splitScopeNpath q = .ok none → formatNPath currentAnchor q = .ok [kq] →
    findBinding d.target.setValues kp = some bp → findBinding d.target.setValues kq = some bq →
    bp.bindId? ≠ bq.bindId? →
    (setValue q (.one w) (setValue p (.one v) d).2).2 = (setValue p (.one v) (setValue q (.one w) d).2).2

/-- `{ a = b; b = 1; }` -/
def refDoc : Doc :=
  { target := .set 1 [.bind 2 "a".toList false (.ident "b".toList) [] [],
                      .bind 3 "b".toList false (.atom "1".toList) [] []] [] true false
    next := 4 }

/-- which top-level values of the target are the atom `7` -/
def sevenMask (d : Doc) : List Bool :=
  d.target.setValues.map fun n => match n.bindValue? with
    | some (.atom t) => t == "7".toList
    | _ => false

/-- Counterexample: on `{ a = b; b = 1; }`, `set a 7` writes through the reference to `b`; so
    `set a 7 ; set b 8` ends with `b = 8` and `set b 8 ; set a 7` with `b = 7`. This is C11's
    territory ("different paths" that resolve to the same definition are not different). -/
theorem cex_set_comm_ident : ¬ set_comm_full := by
  intro h
  have := congrArg sevenMask (h refDoc "a".toList "b".toList "a".toList "b".toList
    (.atom "7".toList) (.atom "8".toList) _ _ rfl (by decide) (by decide) (by decide) (by decide) rfl rfl
    (by decide))
  revert this
  decide

/-- PARTIAL: neither current value is an identifier reference; the two Binding objects are different
    and neither new value contains the other object. Both orders give `updBind bp v ∘ updBind bq w`. -/
theorem set_comm (d : Doc) (p q kp kq : Text) (v w : Node)
    (bp : Nat) (nmp : Text) (nep : Bool) (valp : Node) (bfp afp : Payload)
    (bq : Nat) (nmq : Text) (neq : Bool) (valq : Node) (bfq afq : Payload)
    (hnt : d.noTarget = none)
    (hspp : splitScopeNpath p = .ok none) (hfp : formatNPath currentAnchor p = .ok [kp])
    (hspq : splitScopeNpath q = .ok none) (hfq : formatNPath currentAnchor q = .ok [kq])
    (hrp : findAttrpathRoot d.target.setValues kp = none)
    (hrq : findAttrpathRoot d.target.setValues kq = none)
    (hbp : findBinding d.target.setValues kp = some (.bind bp nmp nep valp bfp afp))
    (hbq : findBinding d.target.setValues kq = some (.bind bq nmq neq valq bfq afq))
    (hvalp : valp.isIdent = false) (hvalq : valq.isIdent = false)
    (hne : bp ≠ bq) (hv : Node.hasBind bq v = false) (hw : Node.hasBind bp w = false) :
    setValue q (.one w) (setValue p (.one v) d).2 = setValue p (.one v) (setValue q (.one w) d).2 := by
  obtain ⟨h1, h2⟩ := set_comm_existing d p q kp kq v w bp nmp nep valp bfp afp bq nmq neq valq bfq afq
    hnt hspp hfp hspq hfq hrp hrq hbp hbq hvalp hvalq hne hv hw
  rw [h1, h2]

/-! ## 5. Scoped `set @k v ; rm @k` on a document without let layers -/

/-- The exact result: the layer is created, then pruned. `target.before` / `target.after` travel
    into the layer and come back; the scope, the layer trivia and the stack are empty again; what
    differs from `d` is `trailing` (SPEC `restoredTrailing`: the final linebreak / empty-line tokens
    are popped, a non-empty `target.after` is appended once more, an emptied list is refilled from
    the original), the `rstripped` flag (the returned text is `rstrip("\n")`-ed iff the target has
    leading trivia) and `next`. -/
theorem scoped_set_rm (d : Doc) (p rest k : Text) (v : Node)
    (hnt : d.noTarget = none) (hsp : splitScopeNpath p = .ok (some (1, rest)))
    (hf : formatNPath currentAnchor rest = .ok [k])
    (hnl : d.NoLayers) (hpe : pathExistsInAttrset d.target [k] = false) (hfr : d.Fresh)
    (hv : Node.hasSet (d.next + 2) v = false) :
    removeValue p (setValue p (.one v) d).2 = (.ok (), { d with
      trailing := restoredTrailing d.trailing d.tAfter,
      rstripped := !d.tBefore.isEmpty, next := d.next + 3 }) :=
  Nima.scoped_set_rm d p rest k v hnt hsp hf hnl hpe hfr hv

/-- FULL statement: the document is restored (up to `next`). -/
def scoped_set_rm_restores_full : Prop :=
  ∀ (d : Doc) (p rest k : Text) (v : Node),
    d.noTarget = none → splitScopeNpath p = .ok (some (1, rest)) →
    formatNPath currentAnchor rest = .ok [k] → d.NoLayers →
    pathExistsInAttrset d.target [k] = false → d.Fresh → d.rstripped = false →
    Node.hasSet (d.next + 2) v = false →
    (removeValue p (setValue p (.one v) d).2).2 = { d with next := d.next + 3 }

/-- Counterexample 1 (root cause of the open findings C19-with-body-newline and
    C19-lambda-with-body-newline, and of a lost final newline on `# c⏎{ }⏎`): the target has leading
    trivia (the line break after `with pkgs;`, or a comment); after `set @zz 7 ; rm @zz` the text is
    `rstrip("\n")`-ed (`rstripped = true`). -/
theorem cex_scoped_rstripped : ¬ scoped_set_rm_restores_full := by
  intro h
  have := congrArg Doc.rstripped (h { tBefore := [0], trailing := [0] } "@zz".toList "zz".toList "zz".toList
    (.atom "7".toList) rfl (by decide) (by decide) (by decide) rfl (by decide) rfl rfl)
  rw [scoped_set_rm _ _ "zz".toList "zz".toList _ rfl (by decide) (by decide) (by decide) rfl (by decide) rfl]
    at this
  revert this
  decide

/-- Counterexample 2: a file that ends `… # comment⏎`: `trailing = [comment, linebreak]` comes back as
    `[comment]` (the `while source.trailing[-1] in (linebreak, empty_line): pop()` loop). -/
theorem cex_scoped_trailing : ¬ scoped_set_rm_restores_full := by
  intro h
  have := congrArg Doc.trailing (h { trailing := [2, 0] } "@zz".toList "zz".toList "zz".toList
    (.atom "7".toList) rfl (by decide) (by decide) (by decide) rfl (by decide) rfl rfl)
  rw [scoped_set_rm _ _ "zz".toList "zz".toList _ rfl (by decide) (by decide) (by decide) rfl (by decide) rfl]
    at this
  revert this
  decide

/-- PARTIAL: no leading trivia on the target, and `trailing` is a fixed point of `restoredTrailing`
    (decidable; see the two lemmas below for when it is). Then `d` comes back, up to `next`. -/
theorem scoped_set_rm_restores_partial (d : Doc) (p rest k : Text) (v : Node)
    (hnt : d.noTarget = none) (hsp : splitScopeNpath p = .ok (some (1, rest)))
    (hf : formatNPath currentAnchor rest = .ok [k])
    (hnl : d.NoLayers) (hpe : pathExistsInAttrset d.target [k] = false) (hfr : d.Fresh)
    (hrs : d.rstripped = false) (hv : Node.hasSet (d.next + 2) v = false)
    (hbefore : d.tBefore = [])
    (htr : restoredTrailing d.trailing d.tAfter = d.trailing) :
    removeValue p (setValue p (.one v) d).2 = (.ok (), { d with next := d.next + 3 }) := by
  rw [scoped_set_rm d p rest k v hnt hsp hf hnl hpe hfr hv, htr, hbefore]
  simp [hrs]

/-- `trailing` made of layout tokens only (the usual "file ends with a newline") is restored … -/
theorem restoredTrailing_layout (t : Payload) (h : ∀ x ∈ t, x = 0 ∨ x = 1) : restoredTrailing t [] = t :=
  Nima.restoredTrailing_layout t h

/-- … and so is a `trailing` that does not end in a layout token (or is empty). -/
theorem restoredTrailing_no_layout_tail (t : Payload)
    (h : ∀ x, t.getLast? = some x → x ≠ 0 ∧ x ≠ 1) : restoredTrailing t [] = t :=
  Nima.restoredTrailing_no_layout_tail t h

/-! ## Non-vacuity: three bindings, an attrpath family, a let layer -/

/-- `let x = 0; in { a = 1; b = 2; c = a; s.p = 1; s.q = 2; }` -/
def exDoc : Doc :=
  { target := .set 1
      [ .bind 2 "a".toList false (.atom "1".toList) [5] [6],
        .bind 3 "b".toList false (.atom "2".toList) [] [],
        .bind 4 "c".toList false (.ident "a".toList) [] [7],
        .bind 8 "s".toList true
          (.set 9 [.bind 10 "p".toList false (.atom "1".toList) [] [],
                   .bind 11 "q".toList false (.atom "2".toList) [] []] [] true false) [] [] ]
      [ .bind 2 "a".toList false (.atom "1".toList) [5] [6],
        .bind 3 "b".toList false (.atom "2".toList) [] [],
        .bind 4 "c".toList false (.ident "a".toList) [] [7],
        .entry ["s".toList, "p".toList] (.bind 10 "p".toList false (.atom "1".toList) [] []) none none,
        .entry ["s".toList, "q".toList] (.bind 11 "q".toList false (.atom "2".toList) [] []) none none ]
      true false
    scope := [.bind 12 "x".toList false (.atom "0".toList) [] []]
    stBodyBefore := [0]
    trailing := [0]
    next := 13 }

/-- the same set without the let layer, for the scoped law -/
def exDocNoLet : Doc := { exDoc with scope := [], stBodyBefore := [] }

example : exDoc.Fresh ∧ exDocNoLet.Fresh ∧ exDocNoLet.NoLayers := by decide

/-- idempotence, existing binding `a` -/
example : setValue "a".toList (.one (.atom "7".toList)) (setValue "a".toList (.one (.atom "7".toList)) exDoc).2 =
    setValue "a".toList (.one (.atom "7".toList)) exDoc :=
  set_set_idem_existing exDoc _ "a".toList _ 2 _ _ _ _ _ rfl (by decide) (by decide) rfl rfl rfl rfl

/-- idempotence, fresh `zz` (the target's order is non-empty) -/
example : setValue "zz".toList (.one (.atom "7".toList)) (setValue "zz".toList (.one (.atom "7".toList)) exDoc).2 =
    setValue "zz".toList (.one (.atom "7".toList)) exDoc :=
  set_set_idem_fresh exDoc _ "zz".toList _ 1 rfl (by decide) (by decide) rfl rfl rfl (by decide) rfl

/-- idempotence, attrpath leaf `s.q` -/
example : setValue "s.q".toList (.one (.ident "a".toList)) (setValue "s.q".toList (.one (.ident "a".toList)) exDoc).2 =
    setValue "s.q".toList (.one (.ident "a".toList)) exDoc :=
  set_set_idem_attrpath exDoc _ ["s".toList, "q".toList] _ 11 _ _ _ _ _
    [(exDoc.target, .bind 8 "s".toList true
          (.set 9 [.bind 10 "p".toList false (.atom "1".toList) [] [],
                   .bind 11 "q".toList false (.atom "2".toList) [] []] [] true false) [] [])]
    (.set 9 [.bind 10 "p".toList false (.atom "1".toList) [] [],
             .bind 11 "q".toList false (.atom "2".toList) [] []] [] true false)
    rfl (by decide) (by decide) rfl (by simp [Node.bindId?])

/-- reversibility, fresh `"z z"` -/
example : removeValue "\"z z\"".toList (setValue "\"z z\"".toList (.one (.atom "7".toList)) exDoc).2 =
    (.ok (), { exDoc with next := 14 }) :=
  set_rm_restores exDoc _ "\"z z\"".toList _ 1 rfl (by decide) (by decide) rfl rfl rfl (by decide)

/-- rm then set of the removed value: `b = 2` comes back, last -/
example : ∃ d', setValue "b".toList (.one (.atom "2".toList)) (removeValue "b".toList exDoc).2 = (.ok (), d') ∧
    d'.target.setValues.length = 4 ∧
    (d'.target.setValues.getLast?.bind Node.bindName?) = some "b".toList :=
  ⟨_, rm_set_rebinds exDoc _ "b".toList 3 _ _ _ _ _ 1 _ _ _ _ rfl (by decide) (by decide) rfl rfl rfl
    (by decide) rfl, rfl, rfl⟩

/-- commutation, `a` and `b` -/
example : setValue "b".toList (.one (.atom "8".toList)) (setValue "a".toList (.one (.atom "7".toList)) exDoc).2 =
    setValue "a".toList (.one (.atom "7".toList)) (setValue "b".toList (.one (.atom "8".toList)) exDoc).2 :=
  set_comm exDoc _ _ "a".toList "b".toList _ _ 2 _ _ _ _ _ 3 _ _ _ _ _ rfl (by decide) (by decide) (by decide)
    (by decide) rfl rfl rfl rfl rfl rfl (by decide) rfl rfl

/-- scoped reversibility on the set without a let: `trailing = [linebreak]` is restored -/
example : removeValue "@zz".toList (setValue "@zz".toList (.one (.atom "7".toList)) exDocNoLet).2 =
    (.ok (), { exDocNoLet with next := 16 }) :=
  scoped_set_rm_restores_partial exDocNoLet _ "zz".toList "zz".toList _ rfl (by decide) (by decide) (by decide)
    rfl (by decide) rfl rfl rfl (by decide)

/-! ## For the repaired code (`NameCmp.model`, i.e. lookups through `_same_attr_name`)

Everything above is stated for the name comparison by spelling (`NameCmp.spelled`, declared at the head
of this file). `setValue_model_eq_spelled` / `removeValue_model_eq_spelled` (Lemmas/NameAgree.lean) make
it a statement about the model of the repaired code under the decidable side condition
`NameAgree.noSpellingClash d p`: among the name tokens of the document and the keys of the path no two are
different spellings of one Nix name. The single-operation theorems restated that way (hypotheses about
lookups keep the comparison by spelling, which is the code's on such inputs): -/

theorem repaired_set_is_spelled (p : Text) (v : ValueArg) (d : Doc) (hns : NameAgree.noSpellingClash d p) :
    @setValue NameCmp.model p v d = setValue p v d := NameAgree.setValue_model_eq_spelled p v d hns

theorem repaired_rm_is_spelled (p : Text) (d : Doc) (hns : NameAgree.noSpellingClash d p) :
    @removeValue NameCmp.model p d = removeValue p d := NameAgree.removeValue_model_eq_spelled p d hns


end Nima.C19
