import NimaVerif.Lemmas.Trivia
import NimaVerif.Lemmas.FragNFParse
import NimaVerif.Lemmas.FragFlat
/-!
# C02 — canonical (RFC-0166-formatted) text is reproduced byte for byte (trivia algebra)

The gap-level identities the byte-for-byte reproduction of canonical source rests on: a canonical
separator, a canonical gap between the items of a multi-line container and a canonical comment are
each reproduced exactly by classify-then-render. Theorems about `Model/Trivia.lean`; SPEC notions
in `Model/TriviaSpec.lean`. The per-construct renderers are observed by the harness, not modelled.
-/
namespace Nima.C02

/-! ## Canonical separators -/

/-- A canonical separator — one space, or a line break / one blank line followed by an indentation
    run — is reproduced byte for byte, whatever the indentation default. -/
theorem separator_canonical (k i : Nat) :
    separatorFromLayout (Layout.fromGap [' ']) i = [' '] ∧
    separatorFromLayout (Layout.fromGap ('\n' :: spaces k)) i = '\n' :: spaces k ∧
    separatorFromLayout (Layout.fromGap ('\n' :: '\n' :: spaces k)) i = '\n' :: '\n' :: spaces k := by
  refine ⟨rfl, ?_, ?_⟩
  · rw [fromGap_nl_spaces]; rfl
  · rw [fromGap_nlnl_spaces]; rfl

/-- In terms of the normal form of C18: every non-empty normal-form separator is reproduced. -/
theorem normal_separator_reproduced (s : Text) (i : Nat) (h : NormalSep s) (hne : s ≠ []) :
    separatorFromLayout (Layout.fromGap s) i = s := by
  rcases h with rfl | rfl | ⟨k, rfl | rfl⟩
  · exact absurd rfl hne
  · rfl
  · exact (separator_canonical k i).2.1
  · exact (separator_canonical k i).2.2

/-- full statement (false): every normal-form separator is reproduced -/
def normal_separator_reproduced_full : Prop :=
  ∀ (s : Text) (i : Nat), NormalSep s → separatorFromLayout (Layout.fromGap s) i = s

/-- The empty separator is not reproduced by `separator_from_layout` (it answers one space): tokens
    that are adjacent in canonical text (`x;`, `f:`) are not written through it. -/
theorem cex_empty_separator : ¬ normal_separator_reproduced_full := by
  intro h
  have := h [] 0 (Or.inl rfl)
  revert this; decide

/-- With comments in between: after a rendered comment block that ends in a line break the
    separator for a canonical gap is the indentation run alone, so block ++ separator reproduces
    `…\n` ++ indentation. -/
theorem separator_after_comments_canonical (cs : Text) (k : Nat) (h : endsWithNL cs = true) :
    separatorFromLayoutWithComments (Layout.fromGap ('\n' :: spaces k)) cs = spaces k := by
  rw [fromGap_nl_spaces]
  simp [separatorFromLayoutWithComments, h]

/-! ## Canonical gaps between the items of a multi-line container -/

/-- The markers collected from a canonical gap, rendered between two items at the gap's own
    indentation, give the gap back: a plain line break and one blank line. -/
theorem canonical_gap_reproduced (k : Nat) :
    '\n' :: formatTrivia (appendGapTrivia [] ('\n' :: spaces k)) k ++ spaces k = '\n' :: spaces k ∧
    '\n' :: formatTrivia (appendGapTrivia [] ('\n' :: '\n' :: spaces k)) k ++ spaces k = '\n' :: '\n' :: spaces k := by
  constructor
  · have : appendGapTrivia [] ('\n' :: spaces k) = [.linebreak] := by
      unfold appendGapTrivia; simp [gapHasEmptyLine_nl_spaces, containsNL_cons]
    rw [this]; rfl
  · have : appendGapTrivia [] ('\n' :: '\n' :: spaces k) = [.emptyLine] := by
      unfold appendGapTrivia; simp [gapHasEmptyLine_nlnl_spaces]
    rw [this]; rfl

/-- An own-line comment block in canonical layout — every comment at the container's indentation
    on its own line, optional single blank lines between — is what `format_trivia` writes. -/
theorem canonical_comment_lines (ts : List Trivia) (i : Nat) (h : CommaFree ts) :
    formatTrivia ts i = ts.flatMap (itemText i) :=
  formatTrivia_eq_flatMap ts i h

/-! ## Canonical comments -/

/-- A line comment in canonical form (`#`, `#text`, `# text`, `#!…`; anything but `# ` alone) is
    reproduced character for character. -/
theorem line_comment_canonical (col : Nat) (r : Text) (hnl : containsNL r = false) (h : r ≠ [' ']) :
    (Comment.fromText col ('#' :: r)).rebuild 0 = '#' :: r := by
  rw [line_comment_rebuild col 0 r hnl, if_neg h]; rfl

/-- A single-line block comment `/* x */` or `/** x */` whose text `x` has no white space at its
    ends and no line break is reproduced character for character. -/
theorem single_line_block_canonical (col i : Nat) (doc : Bool) (x : Text)
    (hx : Stripped isPyWhitespace x) (hnl : containsNL x = false) :
    (Comment.fromText col (blockOpening doc ++ [' '] ++ x ++ [' ', '*', '/'])).token i
      = blockOpening doc ++ [' '] ++ x ++ [' ', '*', '/'] := by
  rw [fromText_single_block col doc x hx hnl]
  simp [Comment.token, hnl, blockOpening]

/-- A multi-line block comment in canonical form — first line on the opener's line (or empty)
    without surrounding blanks, continuation lines indented by the comment's column plus their
    common inner indentation `m`, last line without trailing blanks, closer after one space or alone
    on its line at the comment's column (`CanonML`) — is reproduced character for character when
    read at the column it is written at. -/
theorem multiline_block_canonical (first : Text) (bs : List Text) (bl : Text) (m : Nat) (doc : Bool)
    (i : Nat) (h : CanonML first (bs ++ [bl]) m) :
    (Comment.fromText i ((mlComment first (bs ++ [bl]) m doc).token i)).token i
      = (mlComment first (bs ++ [bl]) m doc).token i := by
  have := canon_fixed first bs bl m doc false i h
  rw [show ({ mlComment first (bs ++ [bl]) m doc with inline := false } : Comment)
      = mlComment first (bs ++ [bl]) m doc from rfl] at this
  rw [this]

/-- …and its text is the expected one: opener, first line, indented continuation lines, closer. -/
theorem multiline_block_canonical_text (first : Text) (bs : List Text) (bl : Text) (m : Nat) (doc : Bool)
    (i : Nat) (h : CanonML first (bs ++ [bl]) m) :
    (mlComment first (bs ++ [bl]) m doc).token i =
      blockOpening doc ++
        joinLines (((if first.isEmpty then [] else [' ']) ++ first) ::
          (bs.map (padLine (i + m)) ++ [padLine (i + m) bl ++ (if bl.isEmpty then spaces i else [' '])])) ++
        ['*', '/'] :=
  canon_token first bs bl m doc false i h

/-- Every comment the tool has written once is canonical in this sense (`from_cst` establishes
    `CanonML`), so the tool reproduces its own comments. -/
theorem written_comments_are_canonical (col : Nat) (inner : Text) (h : containsNL inner = true) :
    CanonML (mlFirst inner) (mlBody (mlNormalized col inner)) (minIndent (mlNormalized col inner)) :=
  fromText_canon col inner h

/-! ## Examples (non-vacuity) -/

example : NormalSep "\n\n    ".toList ∧ "\n\n    ".toList ≠ [] := by decide
example : separatorFromLayout (Layout.fromGap "\n\n    ".toList) 0 = "\n\n    ".toList := by decide
example : (Comment.fromText 2 "/* a\n     b\n  */".toList).token 2 = "/* a\n     b\n  */".toList := by decide
example : (Comment.fromText 0 "/**\n  Doc\n*/".toList).token 0 = "/**\n  Doc\n*/".toList := by decide
example : (Comment.fromText 4 "# see https://example.org".toList).rebuild 0 = "# see https://example.org".toList := by decide
/-- a canonical multi-line comment: `/* a⏎ b⏎*/` with inner indentation 3, closer on its own line -/
example : CanonML "a".toList ["b".toList, []] 3 :=
  written_comments_are_canonical 4 " a\n       b\n     ".toList (by decide)
/-- a non-canonical gap is normalised, not reproduced -/
example : separatorFromLayout (Layout.fromGap "\t \r\n\n   ".toList) 0 = "\n\n   ".toList := by decide


section Fragment
open Nima.Frag

/-! ## Container fragment (L3–L5): what "reproduced byte for byte" implies

Same models as `Props/C01.lean` (section Fragment). `reproduced f` is decidable per file (the
harness evaluates it on RFC-0166 samples through the driver); the theorem says that the texts the
tool reproduces are in the spacing normal form of C18 — so a text outside that normal form is never
reproduced. That every RFC-formatted text of the fragment IS reproduced is observed (G-canon), not
proved: it needs the second-pass analysis that `Props/C06.lean` (section Fragment) leaves open. -/

/-- the round trip gives back the text the tree was parsed from -/
def reproduced (f : File) : Bool := decide (f.roundtrip = .ok f.flatten)

/-- A text of the fragment that is reproduced byte for byte is in spacing normal form: no
    whitespace before the first token, every separator `""`, `" "` or a line break / one blank line
    and an indentation run, `;` attached, at most one blank line at the end (under the exclusion of
    `C18.frag_spacing_nf`, and like it for the files without `assert` and with at most one blank line
    after the colon of a lambda: containers, parentheses, calls, `with`, select, `or`, lambda, unary and
    binary operators, `if` / `then` / `else`, has-attr — `File.basic`). -/
theorem frag_reproduced_is_normal_form (f : File) (s : Src) (hwf : f.wf = true) (_hws : f.noLeadingWs = true)
    (hbasic : f.basic = true) (hp : f.parse = .ok s) (hclean : s.beforeFlatB = true) (hr : reproduced f = true) :
    concat s.rebuildP = f.flatten ∧ (summ s.rebuildP).fileOk = true := by
  refine ⟨?_, file_nf_flat f s hwf hbasic hp hclean⟩
  have h1 : f.roundtrip = .ok f.flatten := by simpa [reproduced] using hr
  simp only [File.roundtrip, hp] at h1
  injection h1 with h1
  rw [concat_srcRebuildP, h1]

/-- `{⏎  pname = "x";⏎  # note⏎  src = [⏎    ./a.nix⏎  ];⏎⏎  meta = { };⏎}⏎` -/
def rfcSample : File :=
  { items := .elem [] (.set false []
      (.bind "\n  ".toList "pname".toList [] " ".toList [] " ".toList (.leaf .str "\"x\"".toList) [] []
      (.cmt "\n  ".toList "# note".toList
      (.bind "\n  ".toList "src".toList [] " ".toList [] " ".toList
        (.list (.elem "\n    ".toList (.leaf .path "./a.nix".toList) .nil) "\n  ".toList) [] []
      (.bind "\n\n  ".toList "meta".toList [] " ".toList [] " ".toList (.set false [] .nil " ".toList) [] [] .nil))))
      "\n".toList) .nil,
    endGap := "\n".toList }

example : rfcSample.flatten =
    "{\n  pname = \"x\";\n  # note\n  src = [\n    ./a.nix\n  ];\n\n  meta = { };\n}\n".toList := by decide
example : rfcSample.wf = true ∧ rfcSample.noLeadingWs = true ∧ rfcSample.basic = true ∧
    reproduced rfcSample = true := by decide

end Fragment

end Nima.C02
