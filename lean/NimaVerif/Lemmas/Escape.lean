import NimaVerif.Model.NPath
/-! Lemmas about `escapeNix` / `decodeBody`. -/
namespace Nima

theorem decodeBody_plain (c : Char) (cs : Text) (h1 : c ≠ '\\') (h2 : c ≠ '"') (h3 : c ≠ '$') :
    decodeBody (c :: cs) = (decodeBody cs).map (c :: ·) := by
  exact decodeBody.eq_8 c cs (fun h _ => h1 h) (fun _ _ h _ => h1 h) (fun h => h2 h)
    (fun _ h _ => h3 h) (fun h _ => h3 h) (fun _ _ h _ => h3 h)

/-- Shape of `escapeNix true` on a non-empty text: it either starts with a backslash, or keeps the
    first character (which is then neither `\` nor `"`). -/
theorem escapeNix_cons_cases (d : Char) (ds : Text) :
    (∃ r, escapeNix true (d :: ds) = '\\' :: r) ∨
    (escapeNix true (d :: ds) = d :: escapeNix true ds ∧ d ≠ '\\' ∧ d ≠ '"' ∧
      (d = '$' → ds.head? ≠ some '{')) := by
  by_cases h1 : d = '\\'
  · subst h1; left; simp [escapeNix]
  by_cases h2 : d = '"'
  · subst h2; left; simp [escapeNix]
  by_cases h3 : d = '\n'
  · subst h3; left; simp [escapeNix]
  by_cases h4 : d = '\r'
  · subst h4; left; simp [escapeNix]
  by_cases h5 : d = '\t'
  · subst h5; left; simp [escapeNix]
  by_cases h6 : d = '$'
  · subst h6
    match ds with
    | [] => right; simp [escapeNix]
    | e :: es =>
      by_cases h7 : e = '{'
      · subst h7; left; simp [escapeNix]
      · right
        refine ⟨?_, by decide, by decide, by simpa using h7⟩
        rw [escapeNix.eq_8 _ _ _ (by decide) (by decide) (by decide) (by decide) (by decide)]
        intro cs' _ hc
        simp at hc
        exact h7 hc.1
  · right
    refine ⟨?_, h1, h2, fun h => absurd h h6⟩
    exact escapeNix.eq_8 _ _ _ h1 h2 h3 h4 h5 (by intro cs' hc _; exact absurd hc h6)

theorem escape_decode_aux : ∀ n (s : Text), s.length ≤ n →
    decodeBody (escapeNix true s) = some s := by
  intro n
  induction n with
  | zero => intro s h; cases s <;> simp_all [escapeNix, decodeBody]
  | succ n ih =>
    intro s h
    match s with
    | [] => simp [escapeNix, decodeBody]
    | c :: cs =>
      have hcs : cs.length ≤ n := by simp at h; omega
      by_cases h1 : c = '\\'
      · subst h1; simp [escapeNix, decodeBody, ih cs hcs, unescChar]
      by_cases h2 : c = '"'
      · subst h2; simp [escapeNix, decodeBody, ih cs hcs, unescChar]
      by_cases h3 : c = '\n'
      · subst h3; simp [escapeNix, decodeBody, ih cs hcs, unescChar]
      by_cases h4 : c = '\r'
      · subst h4; simp [escapeNix, decodeBody, ih cs hcs, unescChar]
      by_cases h5 : c = '\t'
      · subst h5; simp [escapeNix, decodeBody, ih cs hcs, unescChar]
      by_cases h6 : c = '$'
      · subst h6
        match cs with
        | [] => simp [escapeNix, decodeBody]
        | d :: ds =>
          have hds : ds.length ≤ n := by simp at hcs; omega
          by_cases h7 : d = '{'
          · subst h7
            have : escapeNix true ('$' :: '{' :: ds) = '\\' :: '$' :: '{' :: escapeNix true ds := by
              simp [escapeNix]
            rw [this]
            simp [decodeBody, unescChar]
            exact ih ds hds
          · have e1 : escapeNix true ('$' :: d :: ds) = '$' :: escapeNix true (d :: ds) := by
              rw [escapeNix.eq_8 _ _ _ (by decide) (by decide) (by decide) (by decide) (by decide)]
              intro cs' _ hc
              simp at hc
              exact h7 hc.1
            rw [e1]
            have ihd := ih (d :: ds) hcs
            rcases escapeNix_cons_cases d ds with ⟨r, hr⟩ | ⟨hr, hd1, hd2, hd3⟩
            · rw [hr] at ihd ⊢
              rw [decodeBody.eq_7 _ _ (by decide)]
              simp [ihd]
            · rw [hr]
              rw [decodeBody.eq_7 _ _ h7]
              simp [hd1, hd2, ih ds hds]
      · rw [escapeNix.eq_8 _ _ _ h1 h2 h3 h4 h5 (by intro cs' hc _; exact absurd hc h6)]
        rw [decodeBody_plain _ _ h1 h2 h6, ih cs hcs]
        rfl

theorem escape_decode (s : Text) : decodeBody (escapeNix true s) = some s :=
  escape_decode_aux s.length s (Nat.le_refl _)

end Nima
