import NimaVerif.Props.C11
open Nima.C11
#print axioms resolve_fuel_zero
