import NimaVerif.Lemmas.EditTree
/-! The operations of `cli/manipulations.py` (model: `Model/Edit.lean`) read through `denote`. -/
namespace Nima
-- name tokens are compared by spelling in this file (see `NameCmp` in Model/Edit.lean)
attribute [local instance] NameCmp.spelled
open Node

theorem setValue_unscoped (p : Text) (v : Node) (d : Doc) (h1 : d.noTarget = none)
    (h2 : splitScopeNpath p = .ok none) :
    setValue p (.one v) d = setValueInAttrset d.target true p v d := by
  simp [setValue, h1, h2, resolveTarget]

theorem removeValue_unscoped (p : Text) (d : Doc) (h1 : d.noTarget = none)
    (h2 : splitScopeNpath p = .ok none) :
    removeValue p d = removeValueInAttrset d.target p d := by
  simp only [removeValue, h1, h2, resolveTarget, removeValueInAttrset]
  cases formatNPath currentAnchor p with
  | error e => rfl
  | ok segs =>
    cases segs with
    | nil => rfl
    | cons a r =>
      simp only
      split
      · rfl
      · split
        · split
          · rfl
          · split <;> rfl
        · split
          · rfl
          · rfl

theorem findAttrpathLeaf_single (ts : Node) (k : Text) : findAttrpathLeaf ts [k] = none := by
  simp [findAttrpathLeaf, walkAttrpathStack]

/-- invariants the walks maintain: identities unique, names unique, the next `K` identities unused -/
structure Inv (T : Node) (n K : Nat) : Prop where
  ids : IdsOK T
  keys : KeysOK T
  fresh : FreshFor T n K

/-- One creation step of a walk: a fresh binding `k = <fresh empty set>` is appended to the set found at
    path `p`. -/
theorem step_append (T : Node) (n K : Nat) (hinv : Inv T n (K + 2)) (p : List Text) (c : Nat)
    (vs o : List Node) (m r : Bool) (hp : subAt T p = some (.set c vs o m r))
    (k : Text) (hk : k ∉ Kids.keys (denoteL vs)) (hnone : ∀ x ∈ vs, isNamed k x = false)
    (ne ml : Bool) (f : Node → Node)
    (hf : ∀ vs o m r, ∃ o', f (.set c vs o m r) = .set c (vs ++ [.bind (n + 1) k ne (.set n [] [] ml false) [] []]) o' m r) :
    Inv (updSet c f T) (n + 2) K ∧
    subAt (updSet c f T) (p ++ [k]) = some (.set n [] [] ml false) ∧
    denote (updSet c f T) = graft p (.node (denoteL vs ++ [(k, .node [])])) (denote T) := by
  obtain ⟨o', e⟩ := hf vs o m r
  have hden : denote (updSet c f T) = graft p (.node (denoteL vs ++ [(k, .node [])])) (denote T) := by
    rw [denote_updSet_at f p T _ c hinv.ids hinv.keys hp rfl, e]; simp
  have hperm := vIds_updSet_app _ f c hf p T _ hinv.ids hp rfl
  have htp := treeAt_denote p T _ hinv.keys hp
  refine ⟨⟨?_, ?_, ?_⟩, ?_, hden⟩
  · -- identities
    unfold IdsOK
    rw [hperm.nodup_iff, List.nodup_append]
    refine ⟨hinv.ids, by simp [vIds], ?_⟩
    intro a ha b hb
    have := hinv.fresh a ha
    simp [vIds] at hb
    omega
  · -- names
    unfold KeysOK
    rw [hden]
    refine nodup_graft p _ _ _ htp hinv.keys ?_
    have hcur := nodup_treeAt p _ _ htp hinv.keys
    simp only [denote_set, AttrTree.nodup_node] at hcur ⊢
    exact AttrTree.nodupL_append_new k _ _ hcur (by simp [AttrTree.nodupL]) hk
  · intro i hi
    rw [hperm.mem_iff, List.mem_append] at hi
    rcases hi with hi | hi
    · have := hinv.fresh i hi; omega
    · simp [vIds] at hi; omega
  · rw [subAt_append, subAt_updSet f p T _ c hinv.ids hp rfl, e]
    simp only [Option.bind_some, subAt]
    have := (stepInto_of_split c o' m r (n + 1) k ne (.set n [] [] ml false) [] [] vs [] hnone).2
    rw [this]

theorem isNamed_bindValue (k : Text) (b : Node) (h : isNamed k b = true) : ∃ v, b.bindValue? = some v := by
  obtain ⟨i, ne, val, bf, af, rfl⟩ := (isNamed_iff k b).mp h
  exact ⟨val, rfl⟩

theorem findBinding_isNamed (vs : List Node) (k : Text) (b : Node) (h : findBinding vs k = some b) :
    isNamed k b = true := by
  rw [findBinding_eq] at h; exact List.find?_some h

theorem setGetItem_err (cur : Node) (k : Text) (e : Err) (h : setGetItem cur k = .error e) :
    findBinding cur.setValues k = none ∧ inheritMentions cur.setValues k = false := by
  unfold setGetItem at h
  cases hf : findBinding cur.setValues k with
  | some b =>
    obtain ⟨v, hv⟩ := isNamed_bindValue k b (findBinding_isNamed _ _ _ hf)
    simp [hf, hv] at h
  | none =>
    simp only [hf] at h
    cases hi : inheritMentions cur.setValues k with
    | true => simp [hi] at h
    | false => exact ⟨rfl, rfl⟩

theorem setGetItem_ok (cur : Node) (k : Text) (v : Node) (hk : plainKey k = true)
    (h : setGetItem cur k = .ok v) :
    stepInto cur k = some v ∨
    (findBinding cur.setValues k = none ∧ inheritMentions cur.setValues k = true ∧ v = .ident k) := by
  unfold setGetItem at h
  cases hf : findBinding cur.setValues k with
  | some b =>
    obtain ⟨v', hv⟩ := isNamed_bindValue k b (findBinding_isNamed _ _ _ hf)
    simp only [hf, hv] at h
    injection h with h; subst h
    exact Or.inl (by simp [stepInto, hf, hv])
  | none =>
    simp only [hf] at h
    cases hi : inheritMentions cur.setValues k with
    | true => simp only [hi, if_true] at h; injection h with h; exact Or.inr ⟨rfl, rfl, h.symm⟩
    | false =>
      simp only [hi, Bool.false_eq_true, if_false] at h
      unfold plainKey at hk
      cases hs : splitAttrpath k with
      | error e => simp [hs] at h
      | ok segs =>
        simp only [hs, decide_eq_true_eq] at hk
        simp [hs, hk] at h

/-- what the last step of `set` needs of the set it lands in -/
def FinalOK (par : Node) (final : Text) : Prop :=
  (∀ b, findBinding par.setValues final = some b → ∀ val, b.bindValue? = some val → isIdentNode val = false) ∧
  inheritMentions par.setValues final = false

/-- the last step of `set` ran on `par` from `d1` and ended in `d'` -/
def FinalStep (ts par : Node) (wl : Bool) (final : Text) (v : Node) (d1 d' : Doc) : Prop :=
  (∀ b, findBinding par.setValues final = some b → assignExisting ts par wl b v d1 = (.ok (), d')) ∧
  (findBinding par.setValues final = none → setSetItem par final v d1 = (.ok (), d'))

theorem FreshFor.mono {T : Node} {n K K' : Nat} (h : FreshFor T n K) (hk : K' ≤ K) : FreshFor T n K' := by
  intro i hi; have := h i hi; omega

theorem resolveParentWalk_nil (cm : Bool) (cur : Node) (d : Doc) :
    resolveParentWalk cm cur [] d = (.ok cur, d) := rfl

theorem subAt_empty_set (n : Nat) (ml r : Bool) (o : List Node) (q : List Text) (par : Node)
    (h : subAt (.set n [] o ml r) q = some par) : q = [] ∧ par = .set n [] o ml r := by
  cases q with
  | nil => simp at h; exact ⟨rfl, h.symm⟩
  | cons k ks => simp [subAt, stepInto, setValues, findBinding_spelled] at h

/-- Lemma N: `_resolve_npath_parent(create_missing=True)` from the set at path `p`, followed by the last
    step, refines `specSetK` below `p`. -/
theorem nested_set_refines (ts : Node) (wl : Bool) (final : Text) (v : Node) (ks : List Text) :
    ∀ (d : Doc) (cur : Node) (p : List Text) (parent : Node) (d1 d' : Doc),
    Inv d.target d.next (2 * ks.length) → subAt d.target p = some cur → cur.isSet = true →
    (∀ k ∈ ks, plainKey k = true) →
    (∀ par, subAt d.target (p ++ ks) = some par → FinalOK par final) →
    resolveParentWalk true cur ks d = (.ok parent, d1) →
    FinalStep ts parent wl final v d1 d' →
    Frame d d' ∧ ∃ Y, specSetK v (denote cur).kids (ks ++ [final]) = some Y ∧
      denote d'.target = graft p (.node Y) (denote d.target) := by
  induction ks with
  | nil =>
    intro d cur p parent d1 d' hinv hp hset _ hfin hw hfs
    rw [resolveParentWalk_nil] at hw
    injection hw with h1 h2; injection h1 with h1; subst h1; subst h2
    have hok := hfin cur (by simpa using hp)
    obtain ⟨d'', e1, e2, hfr, _, hd⟩ := finalSet_denote ts cur wl p final v d hinv.ids hinv.keys hp hset hok.1 hok.2
    have : d' = d'' := by
      cases hf : findBinding cur.setValues final with
      | some b => have a := hfs.1 b hf; rw [e1 b hf] at a; injection a with _ a; exact a.symm
      | none => have a := hfs.2 hf; rw [e2 hf] at a; injection a with _ a; exact a.symm
    subst this
    exact ⟨hfr, _, by simp [specSetK], hd⟩
  | cons k ks ih =>
    intro d cur p parent d1 d' hinv hp hset hplain hfin hw hfs
    obtain ⟨c, vs, o, m, r, rfl⟩ := (isSet_iff cur).mp hset
    have htp := treeAt_denote p d.target _ hinv.keys hp
    have hcurn := nodup_treeAt p _ _ htp hinv.keys
    simp only [denote_set, AttrTree.nodup_node] at hcurn
    simp only [resolveParentWalk] at hw
    cases hg : setGetItem (.set c vs o m r) k with
    | ok val =>
      simp only [hg] at hw
      cases val with
      | set s2 vs2 o2 m2 r2 =>
        simp only at hw
        rcases setGetItem_ok _ k _ (hplain k (by simp)) hg with hst | ⟨_, _, hbad⟩
        · -- descend into an existing set
          obtain ⟨_, _, _, _, i, ne, bf, af, pre, post, e, hpre⟩ := stepInto_some _ k _ hst
          injection e with e1 e2 e3 e4 e5; subst e1 e2 e3 e4 e5
          have hp2 : subAt d.target (p ++ [k]) = some (.set s2 vs2 o2 m2 r2) := by
            rw [subAt_append, hp]; simp [subAt, hst]
          have hinv2 : Inv d.target d.next (2 * ks.length) :=
            ⟨hinv.ids, hinv.keys, hinv.fresh.mono (by simp only [List.length_cons]; omega)⟩
          obtain ⟨hfr, Y, hY, hd⟩ := ih d _ (p ++ [k]) parent d1 d' hinv2 hp2 rfl
            (fun k' hk' => hplain k' (by simp [hk'])) (by simpa using hfin) hw hfs
          obtain ⟨hk, _⟩ := keys_split k pre post i ne _ bf af hcurn
          obtain ⟨hl, hu, _⟩ := lookup_split k (denoteL pre) (denoteL post) (denote (.set s2 vs2 o2 m2 r2)) hk
          refine ⟨hfr, Kids.upsert k (.node Y) (denoteL (pre ++ .bind i k ne (.set s2 vs2 o2 m2 r2) bf af :: post)), ?_, ?_⟩
          · have hne : ks ++ [final] ≠ [] := by simp
            simp only [denote_set, AttrTree.kids] at hY
            rw [List.cons_append, denote_set, AttrTree.kids,
              specSetK_node v _ (denoteL vs2) k _ hne (by simpa using hl), hY]
            rfl
          · rw [hd, graft_append p [k] _ _ _ htp, denote_set, graft_single]
        · cases hbad
      | _ => simp [EditM.throw] at hw
    | error e =>
      obtain ⟨hnone, hinh⟩ := setGetItem_err _ k e hg
      simp only [hg, Bool.not_true, Bool.false_eq_true, if_false, setSid?, EditM.bind_apply, fresh_apply,
        setMultiline] at hw
      obtain ⟨d2, e2, hfr2, hn2, ht2⟩ := setSetItem_fresh (.set c vs o m r) k (.set d.next [] [] m false) c
        { d with next := d.next + 1 } hnone rfl
      simp only [e2] at hw
      have hkk : k ∉ Kids.keys (denoteL vs) := not_mem_keys_denoteL k vs (findBinding_none _ _ hnone) hinh
      have hinvK : Inv d.target d.next (2 * ks.length + 2) :=
        ⟨hinv.ids, hinv.keys, hinv.fresh.mono (by simp only [List.length_cons]; omega)⟩
      obtain ⟨hinv2, hp2, hden2⟩ := step_append d.target d.next (2 * ks.length) hinvK p c vs o m r hp k hkk
        (findBinding_none _ _ hnone) false m
        (ordF (.bind (d.next + 1) k false (.set d.next [] [] m false) [] []) ∘
          appF (.bind (d.next + 1) k false (.set d.next [] [] m false) [] []))
        (fun vs o m r => by simp only [Function.comp, appF, ordF]; split <;> exact ⟨_, rfl⟩)
      simp only at ht2 hn2
      rw [← ht2] at hinv2 hp2 hden2
      have hn2' : d2.next = d.next + 2 := by omega
      rw [← hn2'] at hinv2
      have hfin2 : ∀ par, subAt d2.target ((p ++ [k]) ++ ks) = some par → FinalOK par final := by
        intro par hpar
        rw [subAt_append, hp2] at hpar
        obtain ⟨_, rfl⟩ := subAt_empty_set _ _ _ _ _ _ hpar
        exact ⟨fun b hb => by simp [setValues, findBinding_spelled] at hb, by simp [setValues, inheritMentions]⟩
      obtain ⟨hfr, Y, hY, hd⟩ := ih d2 _ (p ++ [k]) parent d1 d' hinv2 hp2 rfl
        (fun k' hk' => hplain k' (by simp [hk'])) hfin2 hw hfs
      refine ⟨((Frame.next d _).trans hfr2).trans hfr, Kids.upsert k (.node Y) (denoteL vs), ?_, ?_⟩
      · have hne : ks ++ [final] ≠ [] := by simp
        simp only [denote_set, AttrTree.kids, denoteL_nil] at hY
        rw [List.cons_append, denote_set, AttrTree.kids,
          specSetK_none v _ k _ hne ((Kids.lookup_eq_none_iff k _).mpr hkk), hY]
        rfl
      · rw [hd, hden2, graft_append_graft p [k] _ _ _ _ htp, graft_single, Kids.upsert_of_not_mem k _ _ hkk,
          Kids.upsert_append_right k _ _ _ hkk]
        simp

/-! ### a well-formed path does not start with the scope selector `@` -/

private def AtState (st : NPState) : Prop :=
  st.inQuotes = false ∧ st.quotedSeg = false ∧ st.buf.head? = some '@'

private theorem npStep_at (st : NPState) (ch : Char) (h : AtState st) :
    (∃ e, npStep false st ch = .error e) ∨ (∃ st', npStep false st ch = .ok st' ∧ AtState st') := by
  obtain ⟨h1, h2, h3⟩ := h
  have hb : st.buf ≠ [] := by intro e; simp [e] at h3
  have hid : reMatchIdent false st.buf = false := by
    cases hbuf : st.buf with
    | nil => exact absurd hbuf hb
    | cons c cs =>
      simp only [hbuf, List.head?_cons, Option.some.injEq] at h3
      subst h3
      have : identStart '@' = false := by decide
      simp [reMatchIdent, isIdent, this]
  unfold npStep
  simp only [h1, Bool.false_eq_true, if_false]
  by_cases hd : ch = '.'
  · left
    simp [hd, npFinalize, h2, hb, hid]
  · simp only [hd, if_false, h2, Bool.false_eq_true]
    by_cases hq : ch = '"'
    · left; simp [hq, hb]
    · right
      simp only [hq, if_false]
      refine ⟨_, rfl, ?_, ?_, ?_⟩
      · simp
      · simp
      · cases hbuf : st.buf with
        | nil => exact absurd hbuf hb
        | cons c cs => simpa [hbuf] using h3

private theorem npRun_at (p : Text) : ∀ st, AtState st →
    (∃ e, npRun false st p = .error e) ∨ (∃ st', npRun false st p = .ok st' ∧ AtState st') := by
  induction p with
  | nil => intro st h; exact Or.inr ⟨st, rfl, h⟩
  | cons c cs ih =>
    intro st h
    rcases npStep_at st c h with ⟨e, he⟩ | ⟨st', he, h'⟩
    · left; exact ⟨e, by simp [npRun, he]⟩
    · simp only [npRun, he]; exact ih st' h'

theorem parseNPath_no_at (rest : Text) : ∃ e, parseNPath false ('@' :: rest) = .error e := by
  unfold parseNPath
  simp only [List.isEmpty_cons, Bool.false_eq_true, if_false, npRun]
  have h0 : npStep false {} '@' = .ok { buf := ['@'] } := by decide
  simp only [h0]
  rcases npRun_at rest { buf := ['@'] } ⟨rfl, rfl, rfl⟩ with ⟨e, he⟩ | ⟨st', he, h1, h2, h3⟩
  · exact ⟨e, by simp [he]⟩
  · simp only [he]
    split
    · exact ⟨_, rfl⟩
    · split
      · exact ⟨_, rfl⟩
      · have hb : st'.buf ≠ [] := by intro e; simp [e] at h3
        have hid : reMatchIdent false st'.buf = false := by
          cases hbuf : st'.buf with
          | nil => exact absurd hbuf hb
          | cons c cs =>
            simp only [hbuf, List.head?_cons, Option.some.injEq] at h3
            subst h3
            have : identStart '@' = false := by decide
            simp [reMatchIdent, isIdent, this]
        simp [npFinalize, h2, hb, hid]

theorem formatNPath_unscoped (p : Text) (segs : List Text) (h : formatNPath currentAnchor p = .ok segs) :
    splitScopeNpath p = .ok none := by
  cases p with
  | nil => simp [splitScopeNpath]
  | cons c cs =>
    by_cases hc : c = '@'
    · subst hc
      obtain ⟨e, he⟩ := parseNPath_no_at cs
      simp [formatNPath, currentAnchor, he, Except.map] at h
    · have : (c == '@') = false := by simpa using hc
      simp [splitScopeNpath, List.takeWhile, this]

theorem Kids.lookup_of_mem_nodup (k : Text) (t : AttrTree) (kids : Kids) (hn : (Kids.keys kids).Nodup)
    (hm : (k, t) ∈ kids) : Kids.lookup k kids = some t := by
  induction kids with
  | nil => simp at hm
  | cons x r ih =>
    obtain ⟨k', t'⟩ := x
    simp only [Kids.keys_cons, List.nodup_cons] at hn
    rcases List.mem_cons.mp hm with e | hm
    · injection e with e1 e2; subst e1 e2; simp
    · have : k' ≠ k := by
        intro e; subst e
        exact hn.1 (List.mem_map.mpr ⟨_, hm, rfl⟩)
      simp only [Kids.lookup_cons, this, if_false]
      exact ih hn.2 hm

theorem inheritMentions_mem (vs : List Node) (k : Text) (h : inheritMentions vs k = true) :
    (k, AttrTree.leaf (.ident k)) ∈ denoteL vs := by
  induction vs with
  | nil => simp [inheritMentions] at h
  | cons x r ih =>
    simp only [inheritMentions, List.any_cons, Bool.or_eq_true] at h
    simp only [denoteL_cons, List.mem_append]
    rcases h with h | h
    · left
      cases x <;> simp at h
      rename_i i names
      simp only [denoteI, List.mem_map]
      exact ⟨k, h, rfl⟩
    · right; exact ih h

/-- "the value now at the path is not a reference" (neither an identifier-valued binding nor an
    inherited name), read off `denote`, is what the last step of `set` needs -/
theorem finalOK_of_noref (T par : Node) (q : List Text) (final : Text) (hk : KeysOK T)
    (hq : subAt T q = some par) (hset : par.isSet = true)
    (h : ∀ nm, treeAt (denote T) (q ++ [final]) ≠ some (.leaf (.ident nm))) : FinalOK par final := by
  obtain ⟨c, vs, o, m, r, rfl⟩ := (isSet_iff par).mp hset
  have htp := treeAt_denote q T _ hk hq
  have hn := nodup_treeAt q _ _ htp hk
  rw [treeAt_append q [final] _ _ htp] at h
  simp only [denote_set, treeAt, AttrTree.nodup_node] at h hn
  constructor
  · intro b hb val hval
    obtain ⟨i, ne, val', bf, af, pre, post, rfl, hvs, hpre⟩ := findBinding_some _ _ _ hb
    simp only [bindValue?, Option.some.injEq] at hval; subst hval
    simp only [setValues] at hvs; subst hvs
    obtain ⟨hkk, _⟩ := keys_split final pre post i ne val' bf af hn
    have hl := (lookup_split final (denoteL pre) (denoteL post) (denote val') hkk).1
    cases val' with
    | ident nm =>
      exfalso; apply h nm
      simp only [denoteL_append, denoteL_cons, denoteI_bind, List.singleton_append, hl]; rfl
    | _ => rfl
  · cases hi : inheritMentions (Node.set c vs o m r).setValues final with
    | false => rfl
    | true =>
      exfalso; apply h final
      have hm := inheritMentions_mem vs final hi
      rw [Kids.lookup_of_mem_nodup final _ _ ((AttrTree.nodupL_iff _).mp hn).1 hm]

theorem graft_isNode (ks : List Text) (x t : AttrTree) (hx : x.isNode = true) (ht : t.isNode = true) :
    (graft ks x t).isNode = true := by
  cases ks with
  | nil => simpa using hx
  | cons k r => cases t <;> simp_all [graft, AttrTree.isNode]

theorem treeAt_node_of_cons (t : AttrTree) (sub : Kids) (ks : List Text) (h : treeAt t ks = some (.node sub)) :
    ∃ kids, t = .node kids := by
  cases t with
  | node kids => exact ⟨kids, rfl⟩
  | leaf v => cases ks <;> simp [treeAt] at h

/-- `rm` without pruning is: erase the last key in the set found at the parent path. -/
theorem specRemove_graft (final : Text) (ks : List Text) : ∀ (kids sub : Kids),
    treeAt (.node kids) ks = some (.node sub) → (Kids.lookup final sub).isSome = true →
    specRemove (.node kids) (ks ++ [final]) false =
      some (graft ks (.node (Kids.erase final sub)) (.node kids)) := by
  induction ks with
  | nil =>
    intro kids sub h hl
    simp only [treeAt_nil, Option.some.injEq, AttrTree.node.injEq] at h; subst h
    simp [specRemove, specRemoveK_single, hl]
  | cons k r ih =>
    intro kids sub h hl
    simp only [treeAt] at h
    cases hk : Kids.lookup k kids with
    | none => simp [hk] at h
    | some t =>
      simp only [hk] at h
      obtain ⟨sub1, rfl⟩ := treeAt_node_of_cons t sub r h
      have := ih sub1 sub h hl
      simp only [specRemove, Option.map_eq_some_iff] at this
      obtain ⟨s', hs', e⟩ := this
      simp only [specRemove, List.cons_append, specRemoveK_node false kids sub1 k (r ++ [final]) (by simp) hk, hs',
        Option.map_some, Bool.false_and, Bool.false_eq_true, if_false, graft, hk, Option.getD_some, e]

theorem eraseP_split (pre post : List Node) (b : Node) (q : Node → Bool) (hb : q b = true)
    (hpre : ∀ x ∈ pre, q x = false) : (pre ++ b :: post).eraseP q = pre ++ post := by
  induction pre with
  | nil => simp [hb]
  | cons y r ih =>
    have hy := hpre y (by simp)
    simp only [List.cons_append, List.eraseP_cons, hy, cond_false]
    rw [ih (fun x hx => hpre x (by simp [hx]))]

theorem bindId_mem_vIds (x : Node) (i : Nat) (h : x.bindId? = some i) : i ∈ vIds x := by
  cases x <;> simp [bindId?] at h
  subst h; simp [vIds]

theorem ids_subAt (p : List Text) : ∀ (T cur : Node), (vIds T).Nodup → subAt T p = some cur →
    (vIds cur).Nodup := by
  induction p with
  | nil => intro T cur h hp; simp at hp; subst hp; exact h
  | cons k ks ih =>
    intro T cur hid h
    simp only [subAt] at h
    cases hs : stepInto T k with
    | none => simp [hs] at h
    | some val =>
      simp only [hs] at h
      obtain ⟨s, o, m, r, i, ne, bf, af, pre, post, rfl, _⟩ := stepInto_some T k val hs
      exact ih val cur (ids_split s pre post i k ne val bf af o m r hid).1 h

/-- `del values[i]` for the binding `bid` (and whatever happens to `attrpath_order`) -/
def IsDelOf (bid : Nat) (g : Node → Node) : Prop :=
  ∀ s vs o m r, ∃ o', g (.set s vs o m r) = .set s (vs.eraseP fun n => n.bindId? == some bid) o' m r

/-- removing the binding named `k` from the set found at `p` erases `k` there -/
theorem denote_del_at (T : Node) (hid : IdsOK T) (hk : KeysOK T) (p : List Text) (c : Nat)
    (vs o : List Node) (m r : Bool) (hp : subAt T p = some (.set c vs o m r)) (k : Text) (b : Node)
    (hf : findBinding vs k = some b) (bid : Nat) (hb : b.bindId? = some bid) (g : Node → Node)
    (hg : IsDelOf bid g) :
    denote (updSet c g T) = graft p (.node (Kids.erase k (denoteL vs))) (denote T) := by
  rw [denote_updSet_at g p T _ c hid hk hp rfl]
  obtain ⟨o', e⟩ := hg c vs o m r
  rw [e]
  obtain ⟨i, ne, val, bf, af, pre, post, rfl, hvs, hpre⟩ := findBinding_some _ _ _ hf
  simp only [bindId?, Option.some.injEq] at hb; subst hb
  subst hvs
  have htp := treeAt_denote p T _ hk hp
  have hn := nodup_treeAt p _ _ htp hk
  simp only [denote_set, AttrTree.nodup_node] at hn
  obtain ⟨hkk, _⟩ := keys_split k pre post i ne val bf af hn
  have hsub : (vIds (.set c (pre ++ .bind i k ne val bf af :: post) o m r)).Nodup := by
    exact ids_subAt p T _ hid hp
  obtain ⟨_, _, _, hipre, _⟩ := ids_split c pre post i k ne val bf af o m r hsub
  rw [eraseP_split pre post _ _ (by simp [bindId?]) (fun x hx => by
    cases hq : x.bindId? with
    | none => simp
    | some j =>
      simp only [beq_eq_false_iff_ne, ne_eq, Option.some.injEq]
      intro e; subst e
      exact hipre (vIds_mem_vIdsL x pre hx j (bindId_mem_vIds x j hq)))]
  simp only [denote_set, denoteL_append, denoteL_cons, denoteI_bind, List.singleton_append,
    (lookup_split k (denoteL pre) (denoteL post) (denote val) hkk).2.2]

/-- `_resolve_npath_parent(create_missing=False)` only reads -/
theorem resolveParentWalk_false (ks : List Text) : ∀ (cur : Node) (d : Doc) (res : Except Err Node) (d1 : Doc),
    (∀ k ∈ ks, plainKey k = true) → resolveParentWalk false cur ks d = (res, d1) →
    d1 = d ∧ ∀ parent, res = .ok parent → subAt cur ks = some parent ∧ (cur.isSet = true → parent.isSet = true) := by
  induction ks with
  | nil =>
    intro cur d res d1 _ h
    rw [resolveParentWalk_nil] at h
    injection h with h1 h2
    subst h1 h2
    exact ⟨rfl, fun parent e => by injection e with e; subst e; exact ⟨rfl, id⟩⟩
  | cons k ks ih =>
    intro cur d res d1 hplain h
    simp only [resolveParentWalk] at h
    cases hg : setGetItem cur k with
    | ok val =>
      simp only [hg] at h
      cases val with
      | set s2 vs2 o2 m2 r2 =>
        simp only at h
        obtain ⟨e1, e2⟩ := ih _ d res d1 (fun k' hk' => hplain k' (by simp [hk'])) h
        refine ⟨e1, fun parent hp => ?_⟩
        obtain ⟨h3, h4⟩ := e2 parent hp
        rcases setGetItem_ok _ k _ (hplain k (by simp)) hg with hst | ⟨_, _, hbad⟩
        · exact ⟨by simp [subAt, hst, h3], fun _ => h4 rfl⟩
        · cases hbad
      | _ =>
        simp only [EditM.throw_apply] at h
        injection h with h1 h2
        exact ⟨h2.symm, fun parent e => by rw [← h1] at e; cases e⟩
    | error e =>
      simp only [hg, Bool.not_false, if_true, EditM.throw_apply] at h
      injection h with h1 h2
      exact ⟨h2.symm, fun parent e => by rw [← h1] at e; cases e⟩

/-- the mutation `AttributeSet.__delitem__` performs -/
def delF (bid : Nat) : Node → Node
  | .set s' vs o m r =>
      .set s' (vs.eraseP fun n => n.bindId? == some bid)
        (if o.isEmpty then o else o.eraseP fun n => n.isBind && n.bindId? == some bid) m r
  | n => n

theorem delF_isDel (bid : Nat) : IsDelOf bid (delF bid) := fun _ _ _ _ _ => ⟨_, rfl⟩

theorem setDelItem_some (s : Node) (key : Text) (c : Nat) (i : Nat) (ne : Bool) (val : Node) (bf af : Payload)
    (d : Doc) (h1 : findBinding s.setValues key = some (.bind i key ne val bf af)) (h2 : s.setSid? = some c) :
    setDelItem s key d = (.ok (), d.updSet c (delF i)) := by
  simp only [setDelItem, h1, h2, bindId?, EditM.modify_apply]
  rfl

theorem setDelItem_none (s : Node) (key : Text) (d : Doc) (h1 : findBinding s.setValues key = none) :
    setDelItem s key d = (.error .key, d) := by
  simp only [setDelItem, h1]
  cases s.setSid? <;> rfl

/-! ### attrpath families -/

theorem findNamedBinding_some (vs : List Node) (k : Text) (ne : Bool) (b : Node)
    (h : findNamedBinding vs k (some ne) = some b) :
    ∃ i val bf af, b = .bind i k ne val bf af ∧ b ∈ vs := by
  simp only [findNamedBinding_spelled] at h
  have hm := List.mem_of_find?_eq_some h
  have hp := List.find?_some h
  cases b <;> simp [isBind, bindName?, bindNested] at hp
  rename_i i n ne' val bf af
  obtain ⟨rfl, rfl⟩ := hp
  exact ⟨i, val, bf, af, rfl, hm⟩

theorem findAttrpathRoot_some (vs : List Node) (k : Text) (b : Node) (h : findAttrpathRoot vs k = some b) :
    ∃ i val bf af, b = .bind i k true val bf af ∧ b ∈ vs := by
  simp only [findAttrpathRoot_spelled] at h
  have hm := List.mem_of_find?_eq_some h
  have hp := List.find?_some h
  cases b <;> simp [isBind, bindName?, bindNested] at hp
  rename_i i n ne' val bf af
  obtain ⟨rfl, rfl⟩ := hp
  exact ⟨i, val, bf, af, rfl, hm⟩

theorem mem_denoteL_of_mem (vs : List Node) (k : Text) (i : Nat) (ne : Bool) (val : Node) (bf af : Payload)
    (h : .bind i k ne val bf af ∈ vs) : (k, denote val) ∈ denoteL vs := by
  induction vs with
  | nil => simp at h
  | cons y r ih =>
    simp only [denoteL_cons, List.mem_append]
    rcases List.mem_cons.mp h with e | h
    · left; rw [← e]; simp
    · right; exact ih h

/-- with unique names, any binding of the list named `k` is the one `findBinding` returns -/
theorem findBinding_of_mem (vs : List Node) (k : Text) (i : Nat) (ne : Bool) (val : Node) (bf af : Payload)
    (hn : AttrTree.nodupL (denoteL vs) = true) (hm : .bind i k ne val bf af ∈ vs) :
    findBinding vs k = some (.bind i k ne val bf af) := by
  cases hf : findBinding vs k with
  | none =>
    have := findBinding_none vs k hf _ hm
    simp [isNamed, isBind, bindName?] at this
  | some b' =>
    obtain ⟨i', ne', val', bf', af', pre, post, rfl, hvs, hpre⟩ := findBinding_some _ _ _ hf
    subst hvs
    rcases List.mem_append.mp hm with h | h
    · have := hpre _ h; simp [isNamed, isBind, bindName?] at this
    · rcases List.mem_cons.mp h with h | h
      · rw [h]
      · exfalso
        rw [AttrTree.nodupL_iff] at hn
        have hk := hn.1
        simp only [denoteL_append, denoteL_cons, denoteI_bind, Kids.keys_append, List.singleton_append,
          Kids.keys_cons, List.nodup_append, List.nodup_cons] at hk
        apply hk.2.1.1
        have := mem_denoteL_of_mem post k i ne val bf af h
        exact List.mem_map.mpr ⟨_, this, rfl⟩

/-- the (parent set, binding) stack `_walk_attrpath_stack` builds below the set `P` for the names `ks`:
    every binding but the last is an attrpath parent (`nested = true`, holding a set), the last one has
    `nested = ln` -/
def Chain (ln : Bool) : Node → List Text → List (Node × Node) → Prop
  | _, [], st => st = []
  | P, k :: ks, st =>
    match ks with
    | [] => ∃ i val bf af, st = [(P, .bind i k ln val bf af)] ∧
        findBinding P.setValues k = some (.bind i k ln val bf af)
    | _ :: _ => ∃ i s vs o m r bf af rest, st = (P, .bind i k true (.set s vs o m r) bf af) :: rest ∧
        findBinding P.setValues k = some (.bind i k true (.set s vs o m r) bf af) ∧
        Chain ln (.set s vs o m r) ks rest

theorem nodup_of_mem_bind (vs : List Node) (i : Nat) (k : Text) (ne : Bool) (val : Node) (bf af : Payload)
    (hn : AttrTree.nodupL (denoteL vs) = true) (hm : .bind i k ne val bf af ∈ vs) :
    (denote val).nodup = true :=
  ((AttrTree.nodupL_iff _).mp hn).2 _ (mem_denoteL_of_mem vs k i ne val bf af hm)

theorem go_chain (ln rr : Bool) (ks : List Text) : ∀ (cur : Node) (acc st : List (Node × Node)),
    (denote cur).nodup = true → cur.isSet = true →
    walkAttrpathStack.go ln rr cur acc ks = .ok (some st) →
    ∃ tail, st = acc ++ tail ∧ Chain ln cur ks tail := by
  induction ks with
  | nil =>
    intro cur acc st _ _ h
    rw [walkAttrpathStack.go.eq_1] at h
    injection h with h; injection h with h
    exact ⟨[], by simp [h], rfl⟩
  | cons k ks ih =>
    intro cur acc st hn hset h
    obtain ⟨c, vs, o, m, r, rfl⟩ := (isSet_iff cur).mp hset
    simp only [denote_set, AttrTree.nodup_node] at hn
    cases ks with
    | nil =>
      rw [walkAttrpathStack.go.eq_2] at h
      cases hf : findNamedBinding (Node.set c vs o m r).setValues k (some ln) with
      | none => simp only [hf] at h; split at h <;> cases h
      | some b =>
        simp only [hf] at h
        injection h with h; injection h with h
        obtain ⟨i, val, bf, af, rfl, hm⟩ := findNamedBinding_some _ _ _ _ hf
        refine ⟨[(_, _)], h.symm, i, val, bf, af, rfl, findBinding_of_mem vs k i ln val bf af hn hm⟩
    | cons k2 ks2 =>
      rw [walkAttrpathStack.go.eq_3 _ _ _ _ _ _ (by simp)] at h
      cases hf : findNamedBinding (Node.set c vs o m r).setValues k (some true) with
      | none => simp only [hf] at h; split at h <;> cases h
      | some b =>
        simp only [hf] at h
        obtain ⟨i, val, bf, af, rfl, hm⟩ := findNamedBinding_some _ _ _ _ hf
        cases val with
        | set s2 vs2 o2 m2 r2 =>
          simp only [bindValue?] at h
          obtain ⟨tail, e, hc⟩ := ih (.set s2 vs2 o2 m2 r2) _ st
            (nodup_of_mem_bind vs i k true _ bf af hn hm) rfl h
          refine ⟨(_, _) :: tail, by simp [e], i, s2, vs2, o2, m2, r2, bf, af, tail, rfl,
            findBinding_of_mem vs k i true _ bf af hn hm, hc⟩
        | _ => simp only [bindValue?] at h; split at h <;> cases h

theorem walk_chain (ts : Node) (segs : List Text) (ln rr : Bool) (st : List (Node × Node))
    (hn : (denote ts).nodup = true) (hset : ts.isSet = true)
    (h : walkAttrpathStack ts segs ln rr = .ok (some st)) :
    2 ≤ segs.length ∧ Chain ln ts segs st := by
  obtain ⟨c, vs, o, m, r, rfl⟩ := (isSet_iff ts).mp hset
  simp only [denote_set, AttrTree.nodup_node] at hn
  unfold walkAttrpathStack at h
  cases segs with
  | nil => simp only at h; split at h <;> cases h
  | cons root rest =>
    cases rest with
    | nil => simp only at h; split at h <;> cases h
    | cons k2 ks2 =>
      simp only at h
      cases hf : findAttrpathRoot (Node.set c vs o m r).setValues root with
      | none => simp only [hf] at h; split at h <;> cases h
      | some b =>
        obtain ⟨i, val, bf, af, rfl, hm⟩ := findAttrpathRoot_some _ _ _ hf
        simp only [hf, bindValue?] at h
        cases val with
        | set s2 vs2 o2 m2 r2 =>
          simp only at h
          obtain ⟨tail, e, hc⟩ := go_chain ln rr (k2 :: ks2) (.set s2 vs2 o2 m2 r2) _ st
            (nodup_of_mem_bind vs i root true _ bf af hn hm) rfl h
          refine ⟨by simp, i, s2, vs2, o2, m2, r2, bf, af, tail, by simpa using e,
            findBinding_of_mem vs root i true _ bf af hn hm, hc⟩
        | _ => simp only at h; split at h <;> cases h

/-- the last entry of the stack is the leaf binding, found under the last name in the set at the
    parent path -/
theorem chain_last (ln : Bool) (ks : List Text) : ∀ (P : Node) (st : List (Node × Node)), ks ≠ [] →
    Chain ln P ks st → P.isSet = true →
    ∃ par i final val bf af, st.getLast? = some (par, .bind i final ln val bf af) ∧
      ks = ks.dropLast ++ [final] ∧ subAt P ks.dropLast = some par ∧ par.isSet = true ∧
      findBinding par.setValues final = some (.bind i final ln val bf af) := by
  induction ks with
  | nil => intro P st h; exact absurd rfl h
  | cons k ks ih =>
    intro P st _ hc hP
    cases ks with
    | nil =>
      obtain ⟨i, val, bf, af, rfl, hf⟩ := hc
      exact ⟨P, i, k, val, bf, af, rfl, rfl, rfl, hP, hf⟩
    | cons k2 ks2 =>
      obtain ⟨i, s, vs, o, m, r, bf, af, rest, rfl, hf, hc'⟩ := hc
      obtain ⟨par, i', final, val, bf', af', h1, h2, h3, h4, h5⟩ := ih (.set s vs o m r) rest (by simp) hc' rfl
      refine ⟨par, i', final, val, bf', af', ?_, ?_, ?_, h4, h5⟩
      · cases rest with
        | nil => simp at h1
        | cons x xs => simpa [List.getLast?_cons_cons] using h1
      · rw [List.dropLast_cons_cons, List.cons_append, ← h2]
      · rw [List.dropLast_cons_cons]
        simp only [subAt, stepInto, hf, Option.bind_some, bindValue?]
        exact h3

/-- `set` along an existing parent path is: upsert the last key in the set found there. -/
theorem specSet_graft (v : Node) (final : Text) (ks : List Text) : ∀ (kids sub : Kids),
    treeAt (.node kids) ks = some (.node sub) →
    specSet (.node kids) (ks ++ [final]) v =
      some (graft ks (.node (Kids.upsert final (denote v) sub)) (.node kids)) := by
  induction ks with
  | nil =>
    intro kids sub h
    simp only [treeAt_nil, Option.some.injEq, AttrTree.node.injEq] at h; subst h
    simp [specSet, specSetK_single]
  | cons k r ih =>
    intro kids sub h
    simp only [treeAt] at h
    cases hk : Kids.lookup k kids with
    | none => simp [hk] at h
    | some t =>
      simp only [hk] at h
      obtain ⟨sub1, rfl⟩ := treeAt_node_of_cons t sub r h
      have := ih sub1 sub h
      simp only [specSet, Option.map_eq_some_iff] at this
      obtain ⟨s', hs', e⟩ := this
      simp only [specSet, List.cons_append, specSetK_node v kids sub1 k (r ++ [final]) (by simp) hk, hs',
        Option.map_some, graft, hk, Option.getD_some, e]

mutual
  /-- a mutation that only touches `attrpath_order` is invisible to Nix -/
  theorem denote_updSet_orderOnly (c : Nat) (g : Node → Node)
      (hg : ∀ s vs o m r, ∃ o', g (.set s vs o m r) = .set s vs o' m r) :
      (x : Node) → denote (updSet c g x) = denote x ∧ denoteI (updSet c g x) = denoteI x
    | .atom _ => ⟨rfl, rfl⟩
    | .ident _ => ⟨rfl, rfl⟩
    | .inherit _ _ => ⟨rfl, rfl⟩
    | .entry _ _ _ _ => ⟨rfl, rfl⟩
    | .set s vs o m r => by
      by_cases h : s = c
      · obtain ⟨o', e⟩ := hg s vs o m r
        simp only [updSet, h, if_true]
        rw [← h, e]; exact ⟨rfl, rfl⟩
      · exact ⟨by simp only [updSet, h, if_false, denote_set, denoteL_updSetL_orderOnly c g hg vs],
               by simp only [updSet, h, if_false]; rfl⟩
    | .bind i n ne val b a => by
      constructor
      · simp only [updSet]; rfl
      · simp only [updSet, denoteI_bind, (denote_updSet_orderOnly c g hg val).1]
  theorem denoteL_updSetL_orderOnly (c : Nat) (g : Node → Node)
      (hg : ∀ s vs o m r, ∃ o', g (.set s vs o m r) = .set s vs o' m r) :
      (xs : List Node) → denoteL (updSetL c g xs) = denoteL xs
    | [] => rfl
    | x :: xs => by
      simp only [updSetL, denoteL_cons, (denote_updSet_orderOnly c g hg x).2,
        denoteL_updSetL_orderOnly c g hg xs]
end

theorem ordF_orderOnly (x : Node) : ∀ s vs o m r, ∃ o', ordF x (.set s vs o m r) = .set s vs o' m r := by
  intro s vs o m r; simp only [ordF]; split <;> exact ⟨_, rfl⟩

theorem inheritMentions_allBind (vs : List Node) (k : Text) (h : vs.all isBind = true) :
    inheritMentions vs k = false := by
  induction vs with
  | nil => rfl
  | cons x r ih =>
    simp only [List.all_cons, Bool.and_eq_true] at h
    simp only [inheritMentions, List.any_cons, Bool.or_eq_false_iff]
    refine ⟨?_, ih h.2⟩
    cases x <;> simp [isBind] at h ⊢

theorem findNamedBinding_of_findBinding (vs : List Node) (k : Text) (b : Node)
    (h : findBinding vs k = some b) :
    (findNamedBinding vs k (some true)).isSome = true ∨ (findNamedBinding vs k (some false)).isSome = true := by
  obtain ⟨i, ne, val, bf, af, pre, post, rfl, hvs, _⟩ := findBinding_some _ _ _ h
  have hm : Node.bind i k ne val bf af ∈ vs := by rw [hvs]; simp
  cases ne with
  | true =>
    left
    simp only [findNamedBinding_spelled, List.find?_isSome]
    exact ⟨_, hm, by simp [isBind, bindName?, bindNested]⟩
  | false =>
    right
    simp only [findNamedBinding_spelled, List.find?_isSome]
    exact ⟨_, hm, by simp [isBind, bindName?, bindNested]⟩

/-- the family sets: only bindings inside, recursively -/
def FamSet (n : Node) : Prop := n.setValues.all isBind = true ∧ famOK n = true

theorem famOKL_mem (vs : List Node) (x : Node) (h : famOKL vs = true) (hx : x ∈ vs) : famOK x = true := by
  induction vs with
  | nil => simp at hx
  | cons y r ih =>
    simp only [famOKL, Bool.and_eq_true] at h
    rcases List.mem_cons.mp hx with e | hm
    · rw [e]; exact h.1
    · exact ih h.2 hm

theorem famSet_child (s : Nat) (vs o : List Node) (m r : Bool) (i : Nat) (k : Text) (val : Node) (bf af : Payload)
    (h : famOK (.set s vs o m r) = true) (hm : .bind i k true val bf af ∈ vs) :
    ∃ s2 vs2 m2 r2, val = .set s2 vs2 [] m2 r2 ∧ FamSet val := by
  have := famOKL_mem vs _ (by simpa [famOK] using h) hm
  simp only [famOK, Bool.not_true, Bool.false_or, Bool.and_eq_true] at this
  obtain ⟨h1, h2⟩ := this
  cases val with
  | set s2 vs2 o2 m2 r2 =>
    simp only [Bool.and_eq_true, List.isEmpty_iff] at h2
    obtain ⟨rfl, h3⟩ := h2
    exact ⟨s2, vs2, m2, r2, rfl, h3, h1⟩
  | _ => simp at h2

/-- the tail of `_set_attrpath_value` when the leaf is new -/
def attrFresh (tsSid csid : Nat) (segs : List Text) (final : Text) (v : Node) : EditM Unit := do
  let bid ← fresh
  let nb := Node.bind bid final false v [] []
  appendValue csid nb
  appendOrderIfNonEmpty tsSid (.entry segs nb none none)

/-- the last step of `_set_attrpath_value` ran on the family set `cur` from `d1` and ended in `d'` -/
def FinalAttr (tsSid : Nat) (segs : List Text) (cur : Node) (final : Text) (v : Node) (d1 d' : Doc) : Prop :=
  findNamedBinding cur.setValues final (some true) = none ∧
  (∀ b bid, findNamedBinding cur.setValues final (some false) = some b → b.bindId? = some bid →
    d' = d1.updBind bid v) ∧
  (findNamedBinding cur.setValues final (some false) = none → ∀ csid, cur.setSid? = some csid →
    attrFresh tsSid csid segs final v d1 = (.ok (), d'))

theorem findBinding_none_of_named (vs : List Node) (k : Text)
    (h1 : findNamedBinding vs k (some true) = none) (h2 : findNamedBinding vs k (some false) = none) :
    findBinding vs k = none := by
  cases hf : findBinding vs k with
  | none => rfl
  | some b =>
    rcases findNamedBinding_of_findBinding vs k b hf with h | h
    · simp [h1] at h
    · simp [h2] at h

theorem finalAttr_denote (tsSid : Nat) (segs : List Text) (cur : Node) (q : List Text) (final : Text) (v : Node)
    (d1 d' : Doc) (hid : IdsOK d1.target) (hk : KeysOK d1.target) (hq : subAt d1.target q = some cur)
    (hset : cur.isSet = true) (hall : cur.setValues.all isBind = true)
    (hfa : FinalAttr tsSid segs cur final v d1 d') :
    Frame d1 d' ∧
    denote d'.target = graft q (.node (Kids.upsert final (denote v) (denote cur).kids)) (denote d1.target) := by
  obtain ⟨c, vs, o, m, r, rfl⟩ := (isSet_iff cur).mp hset
  have htp := treeAt_denote q d1.target _ hk hq
  have hn := nodup_treeAt q _ _ htp hk
  simp only [denote_set, AttrTree.nodup_node] at hn
  obtain ⟨h1, h2, h3⟩ := hfa
  cases hf : findNamedBinding (Node.set c vs o m r).setValues final (some false) with
  | some b =>
    obtain ⟨i, val, bf, af, rfl, hm⟩ := findNamedBinding_some _ _ _ _ hf
    have := h2 _ i hf rfl
    subst this
    refine ⟨Frame.updBind _ _ _, ?_⟩
    simp only [Doc.updBind_target]
    rw [denote_updBind_at v q d1.target _ final _ i hid hk hq (findBinding_of_mem vs final i false val bf af hn hm) rfl,
      graft_append q [final] _ _ _ htp, denote_set, graft_single]
    rfl
  | none =>
    have e := h3 hf c rfl
    have hnone := findBinding_none_of_named _ _ h1 hf
    have hkk : final ∉ Kids.keys (denoteL vs) :=
      not_mem_keys_denoteL final vs (findBinding_none _ _ hnone) (inheritMentions_allBind vs final hall)
    simp only [attrFresh, EditM.bind_apply, fresh_apply, appendValue_eq, appendOrder_eq] at e
    injection e with _ e
    subst e
    refine ⟨(Frame.next d1 _).trans ((Frame.updSet _ _ _).trans (Frame.updSet _ _ _)), ?_⟩
    simp only [Doc.updSet_target]
    rw [(denote_updSet_orderOnly tsSid _ (ordF_orderOnly _) _).1,
      denote_updSet_at _ q d1.target _ c hid hk hq rfl]
    simp only [appF, denote_set, denoteL_append, denoteL_cons, denoteI_bind, denoteL_nil, List.append_nil,
      AttrTree.kids, Kids.upsert_of_not_mem final _ _ hkk]

theorem setAttrpathWalk_nil (cur : Node) (d : Doc) : setAttrpathWalk cur [] d = (.ok cur, d) := rfl

/-- Lemma AN: the loop of `_set_attrpath_value` from the family set at path `p`, followed by its last
    step, refines `specSetK` below `p`. -/
theorem attr_set_refines (tsSid : Nat) (segs : List Text) (final : Text) (v : Node) (ks : List Text) :
    ∀ (d : Doc) (cur : Node) (p : List Text) (current : Node) (d1 d' : Doc),
    Inv d.target d.next (2 * ks.length) → subAt d.target p = some cur → cur.isSet = true → FamSet cur →
    setAttrpathWalk cur ks d = (.ok current, d1) →
    FinalAttr tsSid segs current final v d1 d' →
    Frame d d' ∧ ∃ Y, specSetK v (denote cur).kids (ks ++ [final]) = some Y ∧
      denote d'.target = graft p (.node Y) (denote d.target) := by
  induction ks with
  | nil =>
    intro d cur p current d1 d' hinv hp hset hfam hw hfa
    rw [setAttrpathWalk_nil] at hw
    injection hw with h1 h2; injection h1 with h1; subst h1; subst h2
    obtain ⟨hfr, hd⟩ := finalAttr_denote tsSid segs cur p final v d d' hinv.ids hinv.keys hp hset hfam.1 hfa
    exact ⟨hfr, _, by simp [specSetK], hd⟩
  | cons k ks ih =>
    intro d cur p current d1 d' hinv hp hset hfam hw hfa
    obtain ⟨c, vs, o, m, r, rfl⟩ := (isSet_iff cur).mp hset
    have htp := treeAt_denote p d.target _ hinv.keys hp
    have hcurn := nodup_treeAt p _ _ htp hinv.keys
    simp only [denote_set, AttrTree.nodup_node] at hcurn
    simp only [setAttrpathWalk] at hw
    cases hg : findNamedBinding (Node.set c vs o m r).setValues k (some true) with
    | some b =>
      obtain ⟨i, val, bf, af, rfl, hm⟩ := findNamedBinding_some _ _ _ _ hg
      simp only [hg, bindValue?] at hw
      obtain ⟨s2, vs2, m2, r2, rfl, hfam2⟩ := famSet_child c vs o m r i k val bf af hfam.2 hm
      simp only at hw
      have hfb := findBinding_of_mem vs k i true _ bf af hcurn hm
      have hst : stepInto (.set c vs o m r) k = some (.set s2 vs2 [] m2 r2) := by
        simp [stepInto, setValues, hfb, bindValue?]
      obtain ⟨_, _, _, _, i', ne, bf', af', pre, post, e, hpre⟩ := stepInto_some _ k _ hst
      injection e with e1 e2 e3 e4 e5; subst e1 e2 e3 e4 e5
      have hp2 : subAt d.target (p ++ [k]) = some (.set s2 vs2 [] m2 r2) := by
        rw [subAt_append, hp]; simp [subAt, hst]
      have hinv2 : Inv d.target d.next (2 * ks.length) :=
        ⟨hinv.ids, hinv.keys, hinv.fresh.mono (by simp only [List.length_cons]; omega)⟩
      obtain ⟨hfr, Y, hY, hd⟩ := ih d _ (p ++ [k]) current d1 d' hinv2 hp2 rfl hfam2 hw hfa
      obtain ⟨hk, _⟩ := keys_split k pre post i' ne _ bf' af' hcurn
      obtain ⟨hl, hu, _⟩ := lookup_split k (denoteL pre) (denoteL post) (denote (.set s2 vs2 [] m2 r2)) hk
      refine ⟨hfr, Kids.upsert k (.node Y) (denoteL (pre ++ .bind i' k ne (.set s2 vs2 [] m2 r2) bf' af' :: post)), ?_, ?_⟩
      · have hne : ks ++ [final] ≠ [] := by simp
        simp only [denote_set, AttrTree.kids] at hY
        rw [List.cons_append, denote_set, AttrTree.kids,
          specSetK_node v _ (denoteL vs2) k _ hne (by simpa using hl), hY]
        rfl
      · rw [hd, graft_append p [k] _ _ _ htp, denote_set, graft_single]
    | none =>
      simp only [hg] at hw
      cases hg2 : findNamedBinding (Node.set c vs o m r).setValues k (some false) with
      | some b => simp [hg2] at hw
      | none =>
        have hnone := findBinding_none_of_named _ _ hg hg2
        simp only [hg2, Option.isSome_none, Bool.false_eq_true, if_false, setSid?, EditM.bind_apply, fresh_apply,
          setMultiline, appendValue_eq] at hw
        have hkk : k ∉ Kids.keys (denoteL vs) :=
          not_mem_keys_denoteL k vs (findBinding_none _ _ hnone) (inheritMentions_allBind vs k hfam.1)
        have hinvK : Inv d.target d.next (2 * ks.length + 2) :=
          ⟨hinv.ids, hinv.keys, hinv.fresh.mono (by simp only [List.length_cons]; omega)⟩
        obtain ⟨hinv2, hp2, hden2⟩ := step_append d.target d.next (2 * ks.length) hinvK p c vs o m r hp k hkk
          (findBinding_none _ _ hnone) true m
          (appF (.bind (d.next + 1) k true (.set d.next [] [] m false) [] []))
          (fun vs o m r => ⟨_, rfl⟩)
        generalize hd2 : (({ d with next := d.next + 1 + 1 } : Doc).updSet c
          (appF (.bind (d.next + 1) k true (.set d.next [] [] m false) [] []))) = d2 at hw
        have ht2 : d2.target = updSet c (appF (.bind (d.next + 1) k true (.set d.next [] [] m false) [] [])) d.target := by
          rw [← hd2]; rfl
        have hn2 : d2.next = d.next + 2 := by rw [← hd2]; rfl
        have hfr2 : Frame d d2 := by rw [← hd2]; exact (Frame.next d _).trans (Frame.updSet _ _ _)
        rw [← ht2, ← hn2] at hinv2
        rw [← ht2] at hp2 hden2
        obtain ⟨hfr, Y, hY, hd⟩ := ih d2 _ (p ++ [k]) current d1 d' hinv2 hp2 rfl
          ⟨by simp [setValues], by simp [famOK, famOKL]⟩ hw hfa
        refine ⟨hfr2.trans hfr, Kids.upsert k (.node Y) (denoteL vs), ?_, ?_⟩
        · have hne : ks ++ [final] ≠ [] := by simp
          simp only [denote_set, AttrTree.kids, denoteL_nil] at hY
          rw [List.cons_append, denote_set, AttrTree.kids,
            specSetK_none v _ k _ hne ((Kids.lookup_eq_none_iff k _).mpr hkk), hY]
          rfl
        · rw [hd, hden2, graft_append_graft p [k] _ _ _ _ htp, graft_single, Kids.upsert_of_not_mem k _ _ hkk,
            Kids.upsert_append_right k _ _ _ hkk]
          simp

theorem findAttrpathLeaf_no_root (ts : Node) (seg0 : Text) (rest : List Text)
    (h : findAttrpathRoot ts.setValues seg0 = none) : findAttrpathLeaf ts (seg0 :: rest) = none := by
  cases rest with
  | nil => exact findAttrpathLeaf_single ts seg0
  | cons a b => simp [findAttrpathLeaf, walkAttrpathStack, h]

theorem getLast_split (segs : List Text) (hne : segs ≠ []) :
    ∃ final, segs.getLast? = some final ∧ segs.dropLast ++ [final] = segs := by
  exact ⟨segs.getLast hne, List.getLast?_eq_some_getLast hne, List.dropLast_concat_getLast hne⟩

theorem findAttrpathLeaf_some (ts : Node) (segs : List Text) (leaf : Node)
    (h : findAttrpathLeaf ts segs = some leaf) :
    ∃ st par, walkAttrpathStack ts segs false false = .ok (some st) ∧ st.getLast? = some (par, leaf) := by
  unfold findAttrpathLeaf at h
  split at h
  · rename_i st hst
    cases hl : st.getLast? with
    | none => simp [hl] at h
    | some x =>
      obtain ⟨par, lf⟩ := x
      simp only [hl, Option.map_some, Option.some.injEq] at h
      subst h
      exact ⟨st, par, hst, hl⟩
  · cases h

@[simp] theorem setSid_set (c : Nat) (vs o : List Node) (m r : Bool) : (Node.set c vs o m r).setSid? = some c := rfl

/-! ### pruning emptied attribute sets along a path (spec side) -/

/-- drop the sets along `ks` that are empty, innermost first, stopping at the first non-empty one -/
def pruneK : Kids → List Text → Kids
  | kids, [] => kids
  | kids, k :: ks =>
    match Kids.lookup k kids with
    | some (.node sub) =>
      let sub' := pruneK sub ks
      if sub'.isEmpty then Kids.erase k kids else Kids.upsert k (.node sub') kids
    | _ => kids

theorem Kids.upsert_self (k : Text) (t : AttrTree) (kids : Kids) (h : Kids.lookup k kids = some t) :
    Kids.upsert k t kids = kids := by
  induction kids with
  | nil => simp at h
  | cons x r ih =>
    obtain ⟨k', t'⟩ := x
    simp only [Kids.lookup_cons] at h
    simp only [Kids.upsert_cons]
    split
    · rename_i e; simp only [e, if_true, Option.some.injEq] at h; rw [← e, h]
    · rename_i e; simp only [e, if_false] at h; rw [ih h]

theorem Kids.erase_upsert (k : Text) (t : AttrTree) (kids : Kids) (h : (Kids.lookup k kids).isSome = true) :
    Kids.erase k (Kids.upsert k t kids) = Kids.erase k kids := by
  induction kids with
  | nil => simp at h
  | cons x r ih =>
    obtain ⟨k', t'⟩ := x
    simp only [Kids.lookup_cons] at h
    simp only [Kids.upsert_cons, Kids.erase_cons]
    split
    · simp
    · rename_i e; simp only [e, if_false] at h; simp only [Kids.erase_cons, e, if_false, ih h]

theorem lookup_ne_nil (k : Text) (kids : Kids) (h : (Kids.lookup k kids).isSome = true) : kids ≠ [] := by
  intro e; simp [e] at h

/-- `rm` with pruning = `rm` without, then prune along the parent path -/
theorem specRemoveK_prune (final : Text) (ks : List Text) : ∀ (kids sub : Kids),
    treeAt (.node kids) ks = some (.node sub) → (Kids.lookup final sub).isSome = true →
    specRemoveK true kids (ks ++ [final]) =
      some (pruneK (graft ks (.node (Kids.erase final sub)) (.node kids)).kids ks) := by
  induction ks with
  | nil =>
    intro kids sub h hl
    simp only [treeAt_nil, Option.some.injEq, AttrTree.node.injEq] at h; subst h
    simp [specRemoveK_single, hl, pruneK, AttrTree.kids]
  | cons k r ih =>
    intro kids sub h hl
    simp only [treeAt] at h
    cases hk : Kids.lookup k kids with
    | none => simp [hk] at h
    | some t =>
      simp only [hk] at h
      obtain ⟨sub1, rfl⟩ := treeAt_node_of_cons t sub r h
      have hih := ih sub1 sub h hl
      have hnode : ∃ G, graft r (.node (Kids.erase final sub)) (.node sub1) = .node G := by
        have := graft_isNode r (.node (Kids.erase final sub)) (.node sub1) rfl rfl
        cases hg : graft r (.node (Kids.erase final sub)) (.node sub1) with
        | node G => exact ⟨G, rfl⟩
        | leaf v => simp [hg, AttrTree.isNode] at this
      obtain ⟨G, hG⟩ := hnode
      simp only [hG, AttrTree.kids] at hih
      simp only [List.cons_append, specRemoveK_node true kids sub1 k (r ++ [final]) (by simp) hk, hih,
        Option.map_some, Bool.true_and, graft, hk, Option.getD_some, hG, AttrTree.kids, pruneK,
        Kids.lookup_upsert_self]
      split
      · rw [Kids.erase_upsert k _ kids (by simp [hk])]
      · rw [Kids.upsert_upsert]

theorem graft_node (r : List Text) (x : Kids) (sub1 : Kids) :
    ∃ G, graft r (.node x) (.node sub1) = .node G := by
  have := graft_isNode r (.node x) (.node sub1) rfl rfl
  cases hg : graft r (.node x) (.node sub1) with
  | node G => exact ⟨G, rfl⟩
  | leaf v => simp [hg, AttrTree.isNode] at this

theorem pruneK_snoc_nonempty (k : Text) (ks : List Text) : ∀ (K sub : Kids),
    treeAt (.node K) (ks ++ [k]) = some (.node sub) → sub ≠ [] → pruneK K (ks ++ [k]) = K := by
  induction ks with
  | nil =>
    intro K sub h hne
    simp only [List.nil_append, treeAt] at h
    cases hk : Kids.lookup k K with
    | none => simp [hk] at h
    | some t =>
      simp only [hk, Option.some.injEq] at h; subst h
      simp only [List.nil_append, pruneK, hk]
      have : sub.isEmpty = false := by cases sub <;> simp_all
      simp only [this, Bool.false_eq_true, if_false]
      exact Kids.upsert_self k _ K hk
  | cons k0 r ih =>
    intro K sub h hne
    simp only [List.cons_append, treeAt] at h
    cases hk : Kids.lookup k0 K with
    | none => simp [hk] at h
    | some t =>
      simp only [hk] at h
      obtain ⟨sub0, rfl⟩ := treeAt_node_of_cons t sub (r ++ [k]) h
      simp only [List.cons_append, pruneK, hk, ih sub0 sub h hne]
      have : sub0.isEmpty = false := by
        cases sub0 with
        | nil => cases r <;> simp [treeAt] at h
        | cons a b => rfl
      simp only [this, Bool.false_eq_true, if_false]
      exact Kids.upsert_self k0 _ K hk

theorem pruneK_snoc_empty (k : Text) (ks : List Text) : ∀ (K par : Kids),
    treeAt (.node K) ks = some (.node par) → Kids.lookup k par = some (.node []) →
    pruneK K (ks ++ [k]) = pruneK (graft ks (.node (Kids.erase k par)) (.node K)).kids ks := by
  induction ks with
  | nil =>
    intro K par h hl
    simp only [treeAt_nil, Option.some.injEq, AttrTree.node.injEq] at h; subst h
    simp [pruneK, hl, AttrTree.kids]
  | cons k0 r ih =>
    intro K par h hl
    simp only [treeAt] at h
    cases hk : Kids.lookup k0 K with
    | none => simp [hk] at h
    | some t =>
      simp only [hk] at h
      obtain ⟨sub0, rfl⟩ := treeAt_node_of_cons t par r h
      obtain ⟨G, hG⟩ := graft_node r (Kids.erase k par) sub0
      have hih := ih sub0 par h hl
      simp only [hG, AttrTree.kids] at hih
      simp only [List.cons_append, pruneK, hk, hih, graft, Option.getD_some, hG, AttrTree.kids,
        Kids.lookup_upsert_self]
      split
      · rw [Kids.erase_upsert k0 _ K (by simp [hk])]
      · rw [Kids.upsert_upsert]

theorem isNamed_updSet_shrinks (c : Nat) (g : Node → Node) (hg : Shrinks g) (k : Text) (x : Node) :
    isNamed k (updSet c g x) = isNamed k x := by
  cases x with
  | set s vs o m r =>
    obtain ⟨vs', o', e, _, _⟩ := hg s vs o m r
    by_cases h : s = c
    · subst h; simp [updSet, isNamed, isBind, e]
    · simp [updSet, h, isNamed, isBind]
  | bind i n ne val b a => simp [updSet, isNamed, isBind, bindName?]
  | _ => rfl

theorem findBinding_updSetL (c : Nat) (g : Node → Node) (hg : Shrinks g) (k : Text) (vs : List Node) :
    findBinding (updSetL c g vs) k = (findBinding vs k).map (updSet c g) := by
  rw [findBinding_eq, findBinding_eq, updSetL_eq_map, List.find?_map]
  congr 1
  have : (isNamed k ∘ updSet c g) = isNamed k := by
    funext x; exact isNamed_updSet_shrinks c g hg k x
  rw [this]

theorem vIdsL_sublist (xs ys : List Node) (h : xs.Sublist ys) : (vIdsL xs).Sublist (vIdsL ys) := by
  induction h with
  | slnil => exact List.Sublist.refl _
  | cons y _ ih => simp only [vIdsL_cons]; exact ih.trans (List.sublist_append_right _ _)
  | cons_cons y _ ih => simp only [vIdsL_cons]; exact (List.Sublist.refl _).append ih

mutual
  theorem vIds_updSet_shrinks (c : Nat) (g : Node → Node) (hg : Shrinks g) :
      (x : Node) → (vIds (updSet c g x)).Sublist (vIds x)
    | .atom _ => List.Sublist.refl _
    | .ident _ => List.Sublist.refl _
    | .inherit _ _ => List.Sublist.refl _
    | .entry _ _ _ _ => List.Sublist.refl _
    | .bind i n ne val b a => by
      simp only [updSet, vIds]; exact (vIds_updSet_shrinks c g hg val).cons_cons i
    | .set s vs o m r => by
      by_cases h : s = c
      · obtain ⟨vs', o', e, h1, _⟩ := hg s vs o m r
        simp only [updSet, h, if_true]
        rw [← h, e]
        simp only [vIds]
        exact (vIdsL_sublist vs' vs h1).cons_cons s
      · simp only [updSet, h, if_false, vIds]
        exact (vIdsL_updSetL_shrinks c g hg vs).cons_cons s
  theorem vIdsL_updSetL_shrinks (c : Nat) (g : Node → Node) (hg : Shrinks g) :
      (xs : List Node) → (vIdsL (updSetL c g xs)).Sublist (vIdsL xs)
    | [] => List.Sublist.refl _
    | x :: xs => by
      simp only [updSetL, vIdsL_cons]
      exact (vIds_updSet_shrinks c g hg x).append (vIdsL_updSetL_shrinks c g hg xs)
end

/-- the chain of (set identity, binding identity, identity of the binding's value set) found in the
    current tree `T` along the names `ks`, outermost first; the value sets hold only bindings -/
def Loc : Node → List Text → List (Nat × Nat × Nat) → Prop
  | _, [], [] => True
  | T, k :: ks, (c, i, c') :: rest =>
      T.setSid? = some c ∧ ∃ ne val bf af, findBinding T.setValues k = some (.bind i k ne val bf af) ∧
        val.setSid? = some c' ∧ val.setValues.all isBind = true ∧ Loc val ks rest
  | _, _, _ => False

theorem Loc_snoc (k : Text) (x : Nat × Nat × Nat) (ks : List Text) : ∀ (T : Node) (tr : List (Nat × Nat × Nat)),
    ks.length = tr.length → Loc T (ks ++ [k]) (tr ++ [x]) →
    Loc T ks tr ∧ ∃ X ne val bf af, subAt T ks = some X ∧ X.setSid? = some x.1 ∧
      findBinding X.setValues k = some (.bind x.2.1 k ne val bf af) ∧ val.setSid? = some x.2.2 ∧
      val.setValues.all isBind = true ∧ subAt T (ks ++ [k]) = some val := by
  induction ks with
  | nil =>
    intro T tr hl h
    cases tr with
    | cons a b => simp at hl
    | nil =>
      obtain ⟨c, i, c'⟩ := x
      simp only [List.nil_append, Loc] at h
      obtain ⟨h1, ne, val, bf, af, h2, h3, h4, _⟩ := h
      exact ⟨trivial, T, ne, val, bf, af, rfl, h1, h2, h3, h4, by simp [subAt, stepInto, h2, bindValue?]⟩
  | cons k0 r ih =>
    intro T tr hl h
    cases tr with
    | nil => simp at hl
    | cons a b =>
      obtain ⟨c0, i0, c1⟩ := a
      simp only [List.cons_append, Loc] at h
      obtain ⟨h1, ne, val, bf, af, h2, h3, h4, h5⟩ := h
      obtain ⟨hl1, X, ne', val', bf', af', g1, g2, g3, g4, g5, g6⟩ := ih val b (by simpa using hl) h5
      have hst : stepInto T k0 = some val := by simp [stepInto, h2, bindValue?]
      refine ⟨⟨h1, ne, val, bf, af, h2, h3, h4, hl1⟩, X, ne', val', bf', af', ?_, g2, g3, g4, g5, ?_⟩
      · simp [subAt, hst, g1]
      · simp [subAt, hst, g6]

theorem all_isBind_updSet (c : Nat) (g : Node → Node) (hg : Shrinks g) (val : Node)
    (h : val.setValues.all isBind = true) : (updSet c g val).setValues.all isBind = true := by
  cases val with
  | set s vs o m r =>
    simp only [setValues] at h
    by_cases hs : s = c
    · obtain ⟨vs', o', e, h1, _⟩ := hg s vs o m r
      subst hs
      simp only [updSet, if_true, e, setValues]
      rw [List.all_eq_true] at h ⊢
      exact fun x hx => h x (h1.subset hx)
    · simp only [updSet, hs, if_false, setValues, updSetL_eq_map, List.all_map]
      rw [List.all_eq_true] at h ⊢
      intro x hx
      have := h x hx
      cases x <;> simp_all [isBind, updSet]
  | _ => simp [updSet, setValues]

theorem setSid_updSet_shrinks (c : Nat) (g : Node → Node) (hg : Shrinks g) (val : Node) :
    (updSet c g val).setSid? = val.setSid? := by
  cases val with
  | set s vs o m r =>
    by_cases hs : s = c
    · obtain ⟨vs', o', e, _, _⟩ := hg s vs o m r
      subst hs; simp [updSet, e, setSid?]
    · simp [updSet, hs, setSid?]
  | _ => simp [updSet, setSid?]

/-- the chain survives a removal made in the set at its end -/
theorem Loc_updSet_end (c : Nat) (g : Node → Node) (hg : Shrinks g) (ks : List Text) :
    ∀ (T X : Node) (tr : List (Nat × Nat × Nat)), (vIds T).Nodup → Loc T ks tr → subAt T ks = some X →
    X.setSid? = some c → Loc (updSet c g T) ks tr := by
  induction ks with
  | nil =>
    intro T X tr _ h _ _
    cases tr with
    | nil => trivial
    | cons a b => simp [Loc] at h
  | cons k r ih =>
    intro T X tr hid h hX hc
    cases tr with
    | nil => simp [Loc] at h
    | cons a b =>
      obtain ⟨c0, i0, c1⟩ := a
      simp only [Loc] at h ⊢
      obtain ⟨h1, ne, val, bf, af, h2, h3, h4, h5⟩ := h
      have hst : stepInto T k = some val := by simp [stepInto, h2, bindValue?]
      simp only [subAt, hst] at hX
      obtain ⟨s, o, m, rr, i, ne', bf', af', pre, post, rfl, hpre⟩ := stepInto_some T k val hst
      obtain ⟨hval, hc', _⟩ := ids_split s pre post i k ne' val bf' af' o m rr hid
      obtain ⟨hcs, _, _, _⟩ := hc' c (subAt_sid_mem r val X c hX hc)
      have hs' : ¬ s = c := fun e => hcs e.symm
      simp only [setValues] at h2
      refine ⟨by simpa [updSet, hs', setSid?] using h1, ne, updSet c g val, bf, af, ?_,
        by rw [setSid_updSet_shrinks c g hg]; exact h3, all_isBind_updSet c g hg val h4,
        ih val X b hval h5 hX hc⟩
      simp only [updSet, hs', if_false, setValues, findBinding_updSetL c g hg, h2, Option.map_some]

theorem EditM.ite_apply {α : Type} (c : Prop) [Decidable c] (a b : EditM α) (d : Doc) :
    (if c then a else b) d = if c then a d else b d := by split <;> rfl

/-- `parent.values.remove(binding)` -/
def eraseV (bid : Nat) : Node → Node
  | .set s vs o m r => .set s (vs.eraseP fun n => n.bindId? == some bid) o m r
  | n => n

theorem removeValueById_eq (sid bid : Nat) (d : Doc) :
    removeValueById sid bid d = (.ok (), d.updSet sid (eraseV bid)) := rfl

theorem eraseV_isDel (bid : Nat) : IsDelOf bid (eraseV bid) := fun _ _ _ _ _ => ⟨_, rfl⟩
theorem eraseV_shrinks (bid : Nat) : Shrinks (eraseV bid) :=
  fun _ _ o _ _ => ⟨_, _, rfl, List.eraseP_sublist, List.Sublist.refl o⟩

@[simp] theorem AttrTree.kids_node (ks : Kids) : (AttrTree.node ks).kids = ks := rfl

/-- the stack entries (stale copies) carry the identities `tr`, innermost first -/
def StackIds : List (Node × Node) → List (Nat × Nat × Nat) → Prop
  | [], [] => True
  | (P, B) :: L, (c, i, c') :: T =>
      P.setSid? = some c ∧ B.bindId? = some i ∧ (∃ vs o m r, B.bindValue? = some (.set c' vs o m r)) ∧
      StackIds L T
  | _, _ => False

theorem lookup_of_findBinding (vs : List Node) (k : Text) (i : Nat) (ne : Bool) (val : Node) (bf af : Payload)
    (hn : AttrTree.nodupL (denoteL vs) = true) (h : findBinding vs k = some (.bind i k ne val bf af)) :
    Kids.lookup k (denoteL vs) = some (denote val) := by
  obtain ⟨i', ne', val', bf', af', pre, post, e, hvs, _⟩ := findBinding_some _ _ _ h
  injection e with e1 _ e2 e3 e4 e5; subst e1 e2 e3 e4 e5
  subst hvs
  obtain ⟨hk, _⟩ := keys_split k pre post i ne val bf af hn
  simpa using (lookup_split k (denoteL pre) (denoteL post) (denote val) hk).1

theorem isSet_updSet_shrinks (c : Nat) (g : Node → Node) (hg : Shrinks g) (T : Node) (h : T.isSet = true) :
    (updSet c g T).isSet = true := by
  obtain ⟨s, vs, o, m, r, rfl⟩ := (isSet_iff T).mp h
  by_cases hs : s = c
  · obtain ⟨vs', o', e, _, _⟩ := hg s vs o m r
    subst hs; simp [updSet, e, isSet]
  · simp [updSet, hs, isSet]

theorem denoteL_ne_nil (vs : List Node) (h : vs.all isBind = true) (hne : vs ≠ []) : denoteL vs ≠ [] := by
  cases vs with
  | nil => exact absurd rfl hne
  | cons x r =>
    simp only [List.all_cons, Bool.and_eq_true] at h
    cases x <;> simp [isBind] at h
    simp

theorem Doc.findSet_target (d : Doc) (c : Nat) (r : Node) (hs : d.scratch = none)
    (h : Node.findSet c d.target = some r) : d.findSet c = some r := by
  simp [Doc.findSet, hs, h]

/-- the prune loop of `_remove_attrpath_value`, read through `denote`: the sets along the chain that
    are empty go, innermost first, up to the first one that is not empty -/
theorem prune_loop : ∀ (L : List (Node × Node)) (trR : List (Nat × Nat × Nat)) (ks : List Text) (d : Doc),
    StackIds L trR → ks.length = trR.length → IdsOK d.target → KeysOK d.target → Coh d.target →
    d.scratch = none → d.target.isSet = true → Loc d.target ks trR.reverse →
    ∃ d', pruneParents L d = (.ok (), d') ∧ Frame d d' ∧ d'.next = d.next ∧
      denote d'.target = .node (pruneK (denote d.target).kids ks) := by
  intro L
  induction L with
  | nil =>
    intro trR ks d hst hl _ _ _ _ hset _
    cases trR with
    | cons a b => simp [StackIds] at hst
    | nil =>
      have : ks = [] := by simpa using hl
      subst this
      obtain ⟨s, vs, o, m, r, e⟩ := (isSet_iff _).mp hset
      exact ⟨d, rfl, Frame.refl d, rfl, by rw [e]; rfl⟩
  | cons PB rest ih =>
    intro trR ks d hst hl hid hk hcoh hscr hset hloc
    obtain ⟨P, B⟩ := PB
    cases trR with
    | nil => simp [StackIds] at hst
    | cons x trR' =>
      obtain ⟨c, i, c'⟩ := x
      obtain ⟨hP, hB, ⟨bvs, bo, bm, br, hBv⟩, hst'⟩ := hst
      have hks : ks ≠ [] := by intro e; simp [e] at hl
      obtain ⟨k, _, hsplit⟩ := getLast_split ks hks
      generalize ks.dropLast = ks' at hsplit
      subst hsplit
      rw [List.reverse_cons] at hloc
      have hl' : ks'.length = trR'.reverse.length := by simpa using hl
      obtain ⟨hloc', X, ne, val, bf, af, hX, hXc, hfb, hvc, hvall, hval⟩ :=
        Loc_snoc k (c, i, c') ks' d.target trR'.reverse hl' hloc
      simp only at hXc hfb hvc
      have hfs := Doc.findSet_target d c' val hscr (findSet_of_subAt d.target val c' _ hcoh hval hvc)
      have htpv := treeAt_denote _ d.target _ hk hval
      obtain ⟨ts, tvs, to, tm, tr, hT⟩ := (isSet_iff _).mp hset
      obtain ⟨vvs, vo, vm, vr, rfl⟩ := setSid_some _ _ hvc
      simp only [setValues] at hvall
      have hunf : pruneParents ((P, B) :: rest) d =
          if vvs.isEmpty then (removeValueById c i >>= fun _ => pruneParents rest) d else (.ok (), d) := by
        simp only [pruneParents, EditM.bind_apply, EditM.get_apply, hBv, hP, hB]
        rw [EditM.ite_apply]
        rw [hfs]
        simp only [setValues, EditM.bind_apply, EditM.pure_apply]
        rfl
      rw [hunf]
      cases hve : vvs.isEmpty with
      | false =>
        simp only [Bool.false_eq_true, if_false]
        refine ⟨d, rfl, Frame.refl d, rfl, ?_⟩
        have hne : vvs ≠ [] := by intro e; simp [e] at hve
        rw [hT] at htpv ⊢
        simp only [denote_set, AttrTree.kids_node] at htpv ⊢
        rw [pruneK_snoc_nonempty k ks' _ _ htpv (denoteL_ne_nil vvs hvall hne)]
      | true =>
        have hvnil : vvs = [] := by simpa using hve
        subst hvnil
        simp only [if_true, EditM.bind_apply, removeValueById_eq]
        obtain ⟨Xvs, Xo, Xm, Xr, rfl⟩ := setSid_some _ _ hXc
        simp only [setValues] at hfb
        have hden := denote_del_at d.target hid hk ks' c Xvs Xo Xm Xr hX k _ hfb i rfl _ (eraseV_isDel i)
        have htpX := treeAt_denote _ d.target _ hk hX
        have hXn := nodup_treeAt _ _ _ htpX hk
        simp only [denote_set, AttrTree.nodup_node] at hXn
        obtain ⟨d', e1, hfr, hnx, hd'⟩ := ih trR' ks' (d.updSet c (eraseV i)) hst' (by simpa using hl')
          ((hid.sublist (vIds_updSet_shrinks c _ (eraseV_shrinks i) d.target)))
          (by unfold KeysOK
              simp only [Doc.updSet_target]
              rw [hden]
              exact nodup_graft ks' _ _ _ htpX hk (by simpa using AttrTree.nodupL_erase k _ hXn))
          (coh_updSet c _ (eraseV_shrinks i) _ hcoh)
          (by simp [Doc.updSet, hscr])
          (isSet_updSet_shrinks c _ (eraseV_shrinks i) _ hset)
          (Loc_updSet_end c _ (eraseV_shrinks i) ks' d.target _ _ hid hloc' hX rfl)
        refine ⟨d', e1, (Frame.updSet d c _).trans hfr, hnx, ?_⟩
        rw [hd']
        simp only [Doc.updSet_target]
        rw [hden, hT]
        simp only [denote_set, AttrTree.kids_node]
        rw [hT] at htpX
        simp only [denote_set] at htpX
        rw [pruneK_snoc_empty k ks' _ _ htpX]
        rw [lookup_of_findBinding Xvs k i ne _ bf af hXn hfb]; rfl

/-- `require_root` only changes how a failed walk is reported -/
theorem go_rr (ln : Bool) (ks : List Text) : ∀ (cur : Node) (acc st : List (Node × Node)),
    walkAttrpathStack.go ln false cur acc ks = .ok (some st) →
    walkAttrpathStack.go ln true cur acc ks = .ok (some st) := by
  induction ks with
  | nil => intro cur acc st h; rw [walkAttrpathStack.go.eq_1] at h ⊢; exact h
  | cons k ks ih =>
    intro cur acc st h
    cases ks with
    | nil =>
      rw [walkAttrpathStack.go.eq_2] at h ⊢
      cases hf : findNamedBinding cur.setValues k (some ln) with
      | none => simp [hf] at h
      | some b => simpa [hf] using h
    | cons k2 ks2 =>
      rw [walkAttrpathStack.go.eq_3 _ _ _ _ _ _ (by simp)] at h ⊢
      cases hf : findNamedBinding cur.setValues k (some true) with
      | none => simp [hf] at h
      | some b =>
        simp only [hf] at h ⊢
        cases hv : b.bindValue? with
        | none => simp [hv] at h
        | some v =>
          cases v with
          | set s2 vs2 o2 m2 r2 => simp only [hv] at h ⊢; exact ih _ _ _ h
          | _ => simp [hv] at h

theorem walk_rr (ts : Node) (segs : List Text) (ln : Bool) (st : List (Node × Node))
    (h : walkAttrpathStack ts segs ln false = .ok (some st)) :
    walkAttrpathStack ts segs ln true = .ok (some st) := by
  unfold walkAttrpathStack at h ⊢
  cases segs with
  | nil => simp at h
  | cons root rest =>
    cases rest with
    | nil => simp at h
    | cons k2 ks2 =>
      simp only at h ⊢
      cases hf : findAttrpathRoot ts.setValues root with
      | none => simp [hf] at h
      | some b =>
        simp only [hf] at h ⊢
        cases hv : b.bindValue? with
        | none => simp [hv] at h
        | some v =>
          cases v with
          | set s2 vs2 o2 m2 r2 => simp only [hv] at h ⊢; exact go_rr ln _ _ _ _ h
          | _ => simp [hv] at h

theorem Loc_top_congr (T T' : Node) (ks : List Text) (tr : List (Nat × Nat × Nat))
    (h1 : T'.setSid? = T.setSid?) (h2 : T'.setValues = T.setValues) (h : Loc T ks tr) : Loc T' ks tr := by
  cases ks with
  | nil => cases tr with
    | nil => trivial
    | cons a b => simp [Loc] at h
  | cons k r => cases tr with
    | nil => simp [Loc] at h
    | cons a b =>
      obtain ⟨c, i, c'⟩ := a
      simp only [Loc] at h ⊢
      rw [h1, h2]; exact h

theorem StackIds_snoc (A : List (Node × Node)) : ∀ (B : List (Nat × Nat × Nat)) (x : Node × Node) (y : Nat × Nat × Nat),
    StackIds A B → StackIds [x] [y] → StackIds (A ++ [x]) (B ++ [y]) := by
  induction A with
  | nil =>
    intro B x y h hx
    cases B with
    | nil => exact hx
    | cons a b => simp [StackIds] at h
  | cons a r ih =>
    intro B x y h hx
    cases B with
    | nil => obtain ⟨P, Bn⟩ := a; simp [StackIds] at h
    | cons b bs =>
      obtain ⟨P, Bn⟩ := a
      obtain ⟨c, i, c'⟩ := b
      simp only [List.cons_append, StackIds] at h ⊢
      exact ⟨h.1, h.2.1, h.2.2.1, ih bs x y h.2.2.2 hx⟩

/-- identities along an attrpath chain: the stale stack and the tree agree -/
theorem chain_ids (ks : List Text) : ∀ (P : Node) (st : List (Node × Node)), ks ≠ [] →
    Chain false P ks st → P.isSet = true → famOK P = true →
    ∃ tr, tr.length = ks.dropLast.length ∧ Loc P ks.dropLast tr ∧ StackIds st.dropLast.reverse tr.reverse := by
  induction ks with
  | nil => intro P st h; exact absurd rfl h
  | cons k ks ih =>
    intro P st _ hc hP hfam
    cases ks with
    | nil =>
      obtain ⟨i, val, bf, af, rfl, hf⟩ := hc
      exact ⟨[], rfl, trivial, trivial⟩
    | cons k2 ks2 =>
      obtain ⟨i, s, vs, o, m, r, bf, af, rest, rfl, hf, hc'⟩ := hc
      obtain ⟨c, pvs, po, pm, pr, rfl⟩ := (isSet_iff P).mp hP
      have hm : Node.bind i k true (.set s vs o m r) bf af ∈ pvs := by
        obtain ⟨_, _, _, _, _, pre, post, _, hvs, _⟩ := findBinding_some _ _ _ hf
        simp only [setValues] at hvs; rw [hvs]; simp
      obtain ⟨s2, vs2, m2, r2, e, hfam2⟩ := famSet_child c pvs po pm pr i k _ bf af hfam hm
      obtain ⟨tr', hl', hloc', hst'⟩ := ih (.set s vs o m r) rest (by simp) hc' rfl hfam2.2
      have hrest : rest ≠ [] := by
        intro e2; subst e2
        cases ks2 with
        | nil => obtain ⟨_, _, _, _, h, _⟩ := hc'; cases h
        | cons a b => obtain ⟨_, _, _, _, _, _, _, _, _, h, _⟩ := hc'; cases h
      refine ⟨(c, i, s) :: tr', by simp [List.dropLast_cons_cons, hl'], ?_, ?_⟩
      · rw [List.dropLast_cons_cons]
        exact ⟨rfl, true, _, bf, af, hf, rfl, hfam2.1, hloc'⟩
      · have : ((Node.set c pvs po pm pr, Node.bind i k true (.set s vs o m r) bf af) :: rest).dropLast =
            (Node.set c pvs po pm pr, Node.bind i k true (.set s vs o m r) bf af) :: rest.dropLast := by
          cases rest with
          | nil => exact absurd rfl hrest
          | cons a b => rfl
        rw [this, List.reverse_cons, List.reverse_cons]
        exact StackIds_snoc _ _ _ _ hst' ⟨rfl, rfl, ⟨vs, o, m, r, rfl⟩, trivial⟩

/-- delete the first `_AttrpathEntry` whose binding is `lid` -/
def entF (lid : Nat) : Node → Node
  | .set s vs o m r =>
      .set s vs (o.eraseP fun n => match n with
        | .entry _ l _ _ => l.bindId? == some lid
        | _ => false) m r
  | n => n

theorem entF_shrinks (lid : Nat) : Shrinks (entF lid) :=
  fun _ vs _ _ _ => ⟨_, _, rfl, List.Sublist.refl vs, List.eraseP_sublist⟩
theorem entF_orderOnly (lid : Nat) : ∀ s vs o m r, ∃ o', entF lid (.set s vs o m r) = .set s vs o' m r :=
  fun _ _ _ _ _ => ⟨_, rfl⟩

theorem removeAttrpathValue_eq (ts : Node) (segs : List Text) (st : List (Node × Node)) (parent leaf : Node)
    (tsSid psid lid : Nat) (d : Doc)
    (h1 : walkAttrpathStack ts segs false true = .ok (some st)) (h2 : st.getLast? = some (parent, leaf))
    (h3 : ts.setSid? = some tsSid) (h4 : parent.setSid? = some psid) (h5 : leaf.bindId? = some lid) :
    removeAttrpathValue ts segs d =
      pruneParents st.dropLast.reverse ((d.updSet psid (eraseV lid)).updSet tsSid (entF lid)) := by
  simp only [removeAttrpathValue, h1, h2, h3, h4, h5, EditM.bind_apply, removeValueById_eq, EditM.modify_apply]
  rfl

theorem findBinding_key_mem (vs : List Node) (k : Text) (b : Node) (h : findBinding vs k = some b) :
    k ∈ Kids.keys (denoteL vs) := by
  obtain ⟨i, ne, val, bf, af, pre, post, rfl, hvs, _⟩ := findBinding_some _ _ _ h
  have := mem_denoteL_of_mem vs k i ne val bf af (by rw [hvs]; simp)
  exact List.mem_map.mpr ⟨_, this, rfl⟩

/-- the binding a path leads to, following first bindings by name through set values -/
def bindAt : Node → List Text → Option Node
  | _, [] => none
  | T, k :: ks =>
    match ks with
    | [] => findBinding T.setValues k
    | _ :: _ => match stepInto T k with
      | some v => bindAt v ks
      | none => none

theorem assignThrough_ok (ts : Node) (wl : Bool) (name : Text) (v : Node) (d : Doc) :
    ∃ b d', assignThrough ts wl name v d = (.ok b, d') := by
  simp only [assignThrough, EditM.bind_apply, EditM.get_apply]
  by_cases h : (scopeChain d ts wl).isEmpty = true
  · simp only [h, if_true]; exact ⟨_, _, rfl⟩
  · simp only [h]
    cases resolveIdent (List.foldl (fun n s => n + s.length) 1 (scopeChain d ts wl))
      (scopeChain d ts wl).reverse name [] with
    | none => exact ⟨_, _, rfl⟩
    | some bid => exact ⟨_, _, rfl⟩

theorem assignExisting_ok (ts parent : Node) (wl : Bool) (b v : Node) (d : Doc) :
    ∃ d', assignExisting ts parent wl b v d = (.ok (), d') := by
  cases b with
  | bind i n ne val bf af =>
    cases val with
    | ident targetName =>
      simp only [assignExisting, bindId?, bindValue?, EditM.bind_apply]
      obtain ⟨r, d1, e⟩ := assignThrough_ok ts wl targetName v d
      simp only [e]
      cases r with
      | true => exact ⟨_, rfl⟩
      | false =>
        simp only [Bool.false_eq_true, if_false, EditM.bind_apply, EditM.get_apply]
        generalize List.find? _ _ = r1
        cases r1 with
        | some outer => cases outer <;> exact ⟨_, rfl⟩
        | none =>
          simp only
          generalize findBinding parent.setValues targetName = r2
          cases r2 with
          | some sib => cases sib <;> exact ⟨_, rfl⟩
          | none => exact ⟨_, rfl⟩
    | _ => exact ⟨_, rfl⟩
  | _ => exact ⟨_, rfl⟩

theorem setSetItem_ok (s : Node) (k : Text) (v : Node) (d : Doc) (hs : s.isSet = true) :
    ∃ d', setSetItem s k v d = (.ok (), d') := by
  obtain ⟨c, vs, o, m, r, rfl⟩ := (isSet_iff s).mp hs
  cases hf : findBinding (Node.set c vs o m r).setValues k with
  | none =>
    obtain ⟨d', e, _⟩ := setSetItem_fresh _ k v c d hf rfl
    exact ⟨d', e⟩
  | some b =>
    obtain ⟨i, ne, val, bf, af, _, _, rfl, _, _⟩ := findBinding_some _ _ _ hf
    exact ⟨_, by simp only [setSetItem, hf, bindId?]; rfl⟩

/-- below a freshly created empty set, `_resolve_npath_parent(create_missing=True)` cannot fail -/
theorem resolveParentWalk_empty_ok (ks : List Text) : ∀ (n : Nat) (ml : Bool) (d : Doc),
    ∃ parent d1, resolveParentWalk true (.set n [] [] ml false) ks d = (.ok parent, d1) ∧ parent.isSet = true := by
  induction ks with
  | nil => intro n ml d; exact ⟨_, _, rfl, rfl⟩
  | cons k ks ih =>
    intro n ml d
    have hg : ∃ e, setGetItem (.set n [] [] ml false) k = .error e := by
      simp only [setGetItem, setValues, findBinding, List.find?_nil, inheritMentions, List.any_nil,
        Bool.false_eq_true, if_false]
      cases splitAttrpath k with
      | error e => exact ⟨_, rfl⟩
      | ok segs =>
        simp only
        split
        · exact ⟨_, rfl⟩
        · cases segs with
          | nil => exact ⟨_, rfl⟩
          | cons a b =>
            cases b with
            | nil => simp [setGetItem.walk, setValues, findBinding_spelled]
            | cons a2 b2 => simp [setGetItem.walk, setValues, findBinding_spelled]
    obtain ⟨e, hg⟩ := hg
    simp only [resolveParentWalk, hg, Bool.not_true, Bool.false_eq_true, if_false, setSid_set, EditM.bind_apply,
      fresh_apply, setMultiline]
    obtain ⟨d2, e2, _⟩ := setSetItem_fresh (.set n [] [] ml false) k (.set d.next [] [] ml false) n
      { d with next := d.next + 1 } (by simp [setValues, findBinding_spelled]) rfl
    simp only [e2]
    exact ih _ _ _

theorem denote_nonset (v : Node) (h : v.isSet = false) : ∃ lf, denote v = .leaf lf := by
  cases v <;> simp [isSet] at h <;> exact ⟨_, rfl⟩

theorem lookup_of_stepInto (cur : Node) (k : Text) (v : Node) (hn : (denote cur).nodup = true)
    (h : stepInto cur k = some v) : ∃ kids, denote cur = .node kids ∧ Kids.lookup k kids = some (denote v) := by
  obtain ⟨s, o, m, r, i, ne, bf, af, pre, post, rfl, hpre⟩ := stepInto_some cur k v h
  simp only [denote_set, AttrTree.nodup_node] at hn
  exact ⟨_, rfl, lookup_of_findBinding _ k i ne v bf af hn (stepInto_of_split s o m r i k ne v bf af pre post hpre).1⟩

theorem bindAt_cons (T : Node) (k : Text) (ks : List Text) (hne : ks ≠ []) :
    bindAt T (k :: ks) = (stepInto T k).bind (bindAt · ks) := by
  cases ks with
  | nil => exact absurd rfl hne
  | cons a b => simp only [bindAt]; cases stepInto T k <;> rfl

/-- why `_resolve_npath_parent` fails: a value on the way is not a set, or (without `create_missing`) a
    name on the way is not bound -/
theorem resolveParentWalk_fail (cm : Bool) (ks : List Text) : ∀ (cur : Node) (d d1 : Doc) (e : Err),
    (∀ k ∈ ks, plainKey k = true) → cur.isSet = true → (denote cur).nodup = true →
    resolveParentWalk cm cur ks d = (.error e, d1) →
    (e = .value ∧ ∃ j, j < ks.length ∧ ∃ lf, treeAt (denote cur) (ks.take (j + 1)) = some (.leaf lf)) ∨
    (cm = false ∧ e = .key ∧ ∀ final, bindAt cur (ks ++ [final]) = none) := by
  induction ks with
  | nil => intro cur d d1 e _ _ _ h; rw [resolveParentWalk_nil] at h; cases h
  | cons k ks ih =>
    intro cur d d1 e hplain hset hn h
    obtain ⟨c, vs, o, m, r, rfl⟩ := (isSet_iff cur).mp hset
    simp only [resolveParentWalk] at h
    cases hg : setGetItem (.set c vs o m r) k with
    | ok val =>
      simp only [hg] at h
      rcases setGetItem_ok _ k _ (hplain k (by simp)) hg with hst | ⟨hnone, hinh, hval⟩
      · obtain ⟨kids, hk1, hk2⟩ := lookup_of_stepInto _ k val hn hst
        cases hvs : val.isSet with
        | true =>
          obtain ⟨s2, vs2, o2, m2, r2, rfl⟩ := (isSet_iff val).mp hvs
          simp only at h
          have hn2 : (denote (.set s2 vs2 o2 m2 r2)).nodup = true := by
            rw [hk1] at hn
            exact AttrTree.nodupL_lookup k _ kids (by simpa using hn) hk2
          rcases ih _ d d1 e (fun k' hk' => hplain k' (by simp [hk'])) rfl hn2 h with ⟨he, j, hj, lf, ht⟩ | ⟨hc, he, hb⟩
          · left
            refine ⟨he, j + 1, by simp only [List.length_cons]; omega, lf, ?_⟩
            rw [hk1]; simp only [List.take_succ_cons, treeAt, hk2]; exact ht
          · right
            refine ⟨hc, he, fun final => ?_⟩
            rw [List.cons_append, bindAt_cons _ k _ (by simp), hst]; exact hb final
        | false =>
          have he : e = .value := by
            cases val <;> simp [isSet] at hvs <;> simp only [EditM.throw_apply] at h <;> (injection h with h1 _; injection h1 with h1; exact h1.symm)
          obtain ⟨lf, hlf⟩ := denote_nonset val hvs
          left
          refine ⟨he, 0, by simp, lf, ?_⟩
          rw [hk1]; simp only [List.take_succ_cons, List.take_zero, treeAt, hk2, hlf]
      · subst hval
        simp only [EditM.throw_apply] at h
        injection h with h1 _; injection h1 with h1
        left
        refine ⟨h1.symm, 0, by simp, .ident k, ?_⟩
        simp only [denote_set, AttrTree.nodup_node] at hn
        have hm := inheritMentions_mem vs k hinh
        simp only [denote_set, List.take_succ_cons, List.take_zero, treeAt,
          Kids.lookup_of_mem_nodup k _ _ ((AttrTree.nodupL_iff _).mp hn).1 hm]
    | error e0 =>
      obtain ⟨hnone, hinh⟩ := setGetItem_err _ k e0 hg
      simp only [hg] at h
      cases cm with
      | false =>
        simp only [Bool.not_false, if_true, EditM.throw_apply] at h
        injection h with h1 _; injection h1 with h1
        right
        refine ⟨rfl, h1.symm, fun final => ?_⟩
        rw [List.cons_append, bindAt_cons _ k _ (by simp)]
        simp [stepInto, hnone]
      | true =>
        exfalso
        simp only [Bool.not_true, Bool.false_eq_true, if_false, setSid_set, EditM.bind_apply, fresh_apply,
          setMultiline] at h
        obtain ⟨d2, e2, _⟩ := setSetItem_fresh (.set c vs o m r) k (.set d.next [] [] m false) c
          { d with next := d.next + 1 } hnone rfl
        simp only [e2] at h
        obtain ⟨parent, d3, e3, _⟩ := resolveParentWalk_empty_ok ks d.next m d2
        rw [e3] at h; cases h

theorem formatNPath_ne_nil (p : Text) (segs : List Text) (h : formatNPath currentAnchor p = .ok segs) :
    segs ≠ [] := by
  unfold formatNPath parseNPath at h
  split at h
  · cases h
  · split at h
    · cases h
    · split at h
      · cases h
      · split at h
        · cases h
        · split at h
          · rename_i st' hfin
            simp only [Except.map] at h
            injection h with h
            unfold npFinalize at hfin
            split at hfin
            · cases hfin
            · split at hfin
              · cases hfin
              · injection hfin with hfin
                subst hfin; subst h
                simp
          · cases h

/-- the loop of `_set_attrpath_value` fails only with ValueError, and ends in a set -/
theorem setAttrpathWalk_res (ks : List Text) : ∀ (cur : Node) (d : Doc), cur.isSet = true →
    (∃ current d1, setAttrpathWalk cur ks d = (.ok current, d1) ∧ current.isSet = true) ∨
    (∃ d1, setAttrpathWalk cur ks d = (.error .value, d1)) := by
  induction ks with
  | nil => intro cur d h; exact Or.inl ⟨cur, d, rfl, h⟩
  | cons k ks ih =>
    intro cur d hset
    obtain ⟨c, vs, o, m, r, rfl⟩ := (isSet_iff cur).mp hset
    simp only [setAttrpathWalk]
    cases hg : findNamedBinding (Node.set c vs o m r).setValues k (some true) with
    | some b =>
      simp only
      cases hv : b.bindValue? with
      | none => exact Or.inr ⟨d, rfl⟩
      | some v =>
        cases v with
        | set s2 vs2 o2 m2 r2 => exact ih _ d rfl
        | _ => exact Or.inr ⟨d, rfl⟩
    | none =>
      simp only
      cases hg2 : (findNamedBinding (Node.set c vs o m r).setValues k (some false)).isSome with
      | true => exact Or.inr ⟨d, by simp⟩
      | false =>
        simp only [Bool.false_eq_true, if_false, setSid_set, EditM.bind_apply, fresh_apply, appendValue_eq]
        exact ih _ _ rfl

theorem resolveParentWalk_isSet (cm : Bool) (ks : List Text) : ∀ (cur : Node) (d d1 : Doc) (parent : Node),
    cur.isSet = true → resolveParentWalk cm cur ks d = (.ok parent, d1) → parent.isSet = true := by
  induction ks with
  | nil =>
    intro cur d d1 parent hs h
    rw [resolveParentWalk_nil] at h
    injection h with h1 _; injection h1 with h1; subst h1; exact hs
  | cons k ks ih =>
    intro cur d d1 parent hs h
    simp only [resolveParentWalk] at h
    cases hg : setGetItem cur k with
    | ok val =>
      simp only [hg] at h
      cases val with
      | set s2 vs2 o2 m2 r2 => exact ih _ d d1 parent rfl h
      | _ => simp only [EditM.throw_apply] at h; cases h
    | error e =>
      simp only [hg] at h
      cases cm with
      | false => simp only [Bool.not_false, if_true, EditM.throw_apply] at h; cases h
      | true =>
        simp only [Bool.not_true, Bool.false_eq_true, if_false] at h
        cases hsid : cur.setSid? with
        | none => simp only [hsid, EditM.throw_apply] at h; cases h
        | some c =>
          simp only [hsid, EditM.bind_apply, fresh_apply] at h
          split at h
          · exact ih _ _ d1 parent rfl h
          · cases h

theorem bindAt_snoc (init : List Text) (final : Text) : ∀ (T par : Node), subAt T init = some par →
    bindAt T (init ++ [final]) = findBinding par.setValues final := by
  induction init with
  | nil => intro T par h; simp at h; subst h; rfl
  | cons k ks ih =>
    intro T par h
    simp only [subAt] at h
    cases hs : stepInto T k with
    | none => simp [hs] at h
    | some v =>
      simp only [hs] at h
      rw [List.cons_append, bindAt_cons _ k _ (by simp), hs]
      exact ih v par h

/-- with `require_root`, `_walk_attrpath_stack` either returns a stack or raises KeyError / ValueError -/
theorem go_true_res (ln : Bool) (ks : List Text) : ∀ (cur : Node) (acc : List (Node × Node)),
    (∃ st, walkAttrpathStack.go ln true cur acc ks = .ok (some st) ∧
      walkAttrpathStack.go ln false cur acc ks = .ok (some st)) ∨
    walkAttrpathStack.go ln true cur acc ks = .error .key ∨
    walkAttrpathStack.go ln true cur acc ks = .error .value := by
  induction ks with
  | nil => intro cur acc; left; exact ⟨acc, by rw [walkAttrpathStack.go.eq_1], by rw [walkAttrpathStack.go.eq_1]⟩
  | cons k ks ih =>
    intro cur acc
    cases ks with
    | nil =>
      rw [walkAttrpathStack.go.eq_2, walkAttrpathStack.go.eq_2]
      cases hf : findNamedBinding cur.setValues k (some ln) with
      | none => right; left; simp
      | some b => left; exact ⟨_, rfl, rfl⟩
    | cons k2 ks2 =>
      rw [walkAttrpathStack.go.eq_3 _ _ _ _ _ _ (by simp), walkAttrpathStack.go.eq_3 _ _ _ _ _ _ (by simp)]
      cases hf : findNamedBinding cur.setValues k (some true) with
      | none => right; left; simp
      | some b =>
        simp only
        cases hv : b.bindValue? with
        | none => right; right; simp
        | some v =>
          cases v with
          | set s2 vs2 o2 m2 r2 => exact ih _ _
          | _ => right; right; simp

theorem walk_true_res (ts : Node) (segs : List Text) (ln : Bool) :
    (∃ st, walkAttrpathStack ts segs ln true = .ok (some st) ∧
      walkAttrpathStack ts segs ln false = .ok (some st)) ∨
    walkAttrpathStack ts segs ln true = .error .key ∨
    walkAttrpathStack ts segs ln true = .error .value := by
  unfold walkAttrpathStack
  cases segs with
  | nil => right; left; simp
  | cons root rest =>
    cases rest with
    | nil => right; left; simp
    | cons k2 ks2 =>
      simp only
      cases hf : findAttrpathRoot ts.setValues root with
      | none => right; left; simp
      | some b =>
        simp only
        cases hv : b.bindValue? with
        | none => right; left; simp
        | some v =>
          cases v with
          | set s2 vs2 o2 m2 r2 => exact go_true_res ln _ _ _
          | _ => right; left; simp

theorem take_dropLast {α} (l : List α) (j : Nat) (h : j < l.length) : l.dropLast.take j = l.take j := by
  rw [List.dropLast_eq_take, List.take_take]; congr 1; omega

theorem splitGo_simple (w : Text) : ∀ (segs : List Text) (buf : Text) (esc iq ie : Bool),
    (∀ c ∈ w, c ≠ '.' ∧ c ≠ '"' ∧ c ≠ '$') →
    splitGo ⟨segs, buf, false, esc, 0, iq, ie⟩ w = .ok ⟨segs, buf ++ w, false, esc, 0, iq, ie⟩ := by
  induction w with
  | nil => intro segs buf esc iq ie _; rw [splitGo]; simp
  | cons c cs ih =>
    intro segs buf esc iq ie hw
    obtain ⟨hc1, hc2, hc3⟩ := hw c (by simp)
    rw [splitGo]
    simp only [Nat.lt_irrefl, if_false, Bool.false_eq_true, hc2, hc3, hc1,
      Bool.false_and, decide_false]
    rw [ih _ _ _ _ _ (fun d hd => hw d (by simp [hd]))]
    simp [List.append_assoc]

/-- a key without `.`, `"` and `$` is never read as a dotted path -/
theorem plainKey_simple (k : Text) (h : ∀ c ∈ k, c ≠ '.' ∧ c ≠ '"' ∧ c ≠ '$') : plainKey k = true := by
  unfold plainKey splitAttrpath
  have : ({} : SplitSt) = ⟨[], [], false, false, 0, false, false⟩ := rfl
  rw [this, splitGo_simple k _ _ _ _ _ h]
  simp only [Nat.lt_irrefl, if_false, Bool.false_eq_true]
  unfold splitFlush
  simp only
  by_cases hs : strip k = []
  · simp [hs]
  · simp [hs]

theorem identRest_ne_dollar (c : Char) (h : identRest c = true) : c ≠ '$' := by
  intro hc; subst hc; revert h; decide
theorem identStart_ne_dollar (c : Char) (h : identStart c = true) : c ≠ '$' := by
  intro hc; subst hc; revert h; decide
theorem identStart_ne' (c : Char) (h : identStart c = true) : c ≠ '.' ∧ c ≠ '"' := by
  constructor <;> (intro hc; subst hc; revert h; decide)
theorem identRest_ne' (c : Char) (h : identRest c = true) : c ≠ '.' ∧ c ≠ '"' := by
  constructor <;> (intro hc; subst hc; revert h; decide)

/-- every bare identifier segment is a plain key -/
theorem plainKey_ident (k : Text) (h : isIdent k = true) : plainKey k = true := by
  apply plainKey_simple
  cases k with
  | nil => simp [isIdent] at h
  | cons d ds =>
    simp only [isIdent, Bool.and_eq_true, List.all_eq_true] at h
    intro c hc
    rcases List.mem_cons.mp hc with rfl | hm
    · exact ⟨(identStart_ne' _ h.1).1, (identStart_ne' _ h.1).2, identStart_ne_dollar _ h.1⟩
    · exact ⟨(identRest_ne' _ (h.2 c hm)).1, (identRest_ne' _ (h.2 c hm)).2, identRest_ne_dollar _ (h.2 c hm)⟩

/-- `values.append` anywhere keeps the identity and the length of `attrpath_order` of a set -/
theorem shape_updSet_appF (c : Nat) (nb : Node) (T : Node) :
    (updSet c (appF nb) T).setSid? = T.setSid? ∧
    (updSet c (appF nb) T).setOrder.length = T.setOrder.length := by
  cases T with
  | set s vs o m r =>
    by_cases h : s = c
    · simp [updSet, h, appF, setSid?, setOrder]
    · simp [updSet, h, setSid?, setOrder, updSetL_eq_map]
  | _ => simp [updSet, setSid?, setOrder]

theorem setAttrpathWalk_shape (ks : List Text) : ∀ (cur : Node) (d d1 : Doc) (current : Node),
    setAttrpathWalk cur ks d = (.ok current, d1) →
    d1.target.setSid? = d.target.setSid? ∧ d1.target.setOrder.length = d.target.setOrder.length := by
  induction ks with
  | nil =>
    intro cur d d1 current h
    rw [setAttrpathWalk_nil] at h
    injection h with _ h2; subst h2; exact ⟨rfl, rfl⟩
  | cons k ks ih =>
    intro cur d d1 current h
    simp only [setAttrpathWalk] at h
    cases hg : findNamedBinding cur.setValues k (some true) with
    | some b =>
      simp only [hg] at h
      cases hv : b.bindValue? with
      | none => simp [hv] at h
      | some v =>
        cases v with
        | set s2 vs2 o2 m2 r2 => simp only [hv] at h; exact ih _ d d1 current h
        | _ => simp [hv] at h
    | none =>
      simp only [hg] at h
      cases hg2 : (findNamedBinding cur.setValues k (some false)).isSome with
      | true => simp [hg2] at h
      | false =>
        simp only [hg2, Bool.false_eq_true, if_false] at h
        cases hs : cur.setSid? with
        | none => simp [hs] at h
        | some c =>
          simp only [hs, EditM.bind_apply, fresh_apply, appendValue_eq] at h
          obtain ⟨h1, h2⟩ := ih _ _ d1 current h
          have := shape_updSet_appF c (.bind (d.next + 1) k true (.set d.next [] [] cur.setMultiline false) [] []) d.target
          exact ⟨h1.trans this.1, h2.trans this.2⟩

/-- where the loop of `_set_attrpath_value` ends: in a set it has just created (empty), or — nothing
    created — in the set found along the names -/
theorem setAttrpathWalk_origin (ks : List Text) : ∀ (cur : Node) (d d1 : Doc) (current : Node),
    cur.isSet = true → (denote cur).nodup = true →
    setAttrpathWalk cur ks d = (.ok current, d1) →
    current.setValues = [] ∨ (d1 = d ∧ subAt cur ks = some current) := by
  induction ks with
  | nil =>
    intro cur d d1 current _ _ h
    rw [setAttrpathWalk_nil] at h
    injection h with h1 h2; injection h1 with h1; subst h1 h2; exact Or.inr ⟨rfl, rfl⟩
  | cons k ks ih =>
    intro cur d d1 current hset hn h
    obtain ⟨c, vs, o, m, r, rfl⟩ := (isSet_iff cur).mp hset
    simp only [denote_set, AttrTree.nodup_node] at hn
    simp only [setAttrpathWalk] at h
    cases hg : findNamedBinding (Node.set c vs o m r).setValues k (some true) with
    | some b =>
      obtain ⟨i, val, bf, af, rfl, hm⟩ := findNamedBinding_some _ _ _ _ hg
      simp only [hg, bindValue?] at h
      cases val with
      | set s2 vs2 o2 m2 r2 =>
        simp only at h
        rcases ih _ d d1 current rfl (nodup_of_mem_bind vs i k true _ bf af hn hm) h with h1 | ⟨h1, h2⟩
        · exact Or.inl h1
        · right
          refine ⟨h1, ?_⟩
          have hfb := findBinding_of_mem vs k i true _ bf af hn hm
          simp [subAt, stepInto, setValues, hfb, bindValue?, h2]
      | _ => simp at h
    | none =>
      simp only [hg] at h
      cases hg2 : (findNamedBinding (Node.set c vs o m r).setValues k (some false)).isSome with
      | true => simp [hg2] at h
      | false =>
        simp only [hg2, Bool.false_eq_true, if_false, setSid_set, EditM.bind_apply, fresh_apply, appendValue_eq,
          setMultiline] at h
        left
        rcases ih _ _ d1 current rfl (by simp [AttrTree.nodupL]) h with h1 | ⟨_, h2⟩
        · exact h1
        · obtain ⟨_, rfl⟩ := subAt_empty_set _ _ _ _ _ _ h2; rfl

theorem getLast_cons_snoc {α} (a : α) (l : List α) (x : α) : (a :: (l ++ [x])).getLast? = some x := by
  rw [← List.cons_append, List.getLast?_append]; simp

theorem specSetK_nodup (v : Node) (hv : (denote v).nodup = true) (names : List Text) : ∀ (kids kids' : Kids),
    AttrTree.nodupL kids = true → specSetK v kids names = some kids' → AttrTree.nodupL kids' = true := by
  induction names with
  | nil => intro kids kids' _ h; simp [specSetK] at h
  | cons n rest ih =>
    intro kids kids' hn h
    cases rest with
    | nil =>
      rw [specSetK_single] at h
      injection h with h; subst h
      exact AttrTree.nodupL_upsert n _ kids hn hv
    | cons a b =>
      cases hl : Kids.lookup n kids with
      | none =>
        rw [specSetK_none v kids n (a :: b) (by simp) hl] at h
        cases hs : specSetK v [] (a :: b) with
        | none => simp [hs] at h
        | some sub =>
          simp only [hs, Option.map_some, Option.some.injEq] at h; subst h
          exact AttrTree.nodupL_upsert n _ kids hn (by simpa using ih [] sub (by simp [AttrTree.nodupL]) hs)
      | some t =>
        cases t with
        | leaf x => rw [specSetK_leaf v kids n (a :: b) (by simp) x hl] at h; cases h
        | node sub0 =>
          rw [specSetK_node v kids sub0 n (a :: b) (by simp) hl] at h
          cases hs : specSetK v sub0 (a :: b) with
          | none => simp [hs] at h
          | some sub =>
            simp only [hs, Option.map_some, Option.some.injEq] at h; subst h
            have h0 : AttrTree.nodupL sub0 = true := by simpa using AttrTree.nodupL_lookup n _ kids hn hl
            exact AttrTree.nodupL_upsert n _ kids hn (by simpa using ih sub0 sub h0 hs)

theorem specRemoveK_nodup (prune : Bool) (names : List Text) : ∀ (kids kids' : Kids),
    AttrTree.nodupL kids = true → specRemoveK prune kids names = some kids' → AttrTree.nodupL kids' = true := by
  induction names with
  | nil => intro kids kids' _ h; simp [specRemoveK] at h
  | cons n rest ih =>
    intro kids kids' hn h
    cases rest with
    | nil =>
      rw [specRemoveK_single] at h
      split at h
      · injection h with h; subst h; exact AttrTree.nodupL_erase n kids hn
      · cases h
    | cons a b =>
      cases hl : Kids.lookup n kids with
      | none => rw [specRemoveK_other prune kids n (a :: b) (by simp) (by simp [hl])] at h; cases h
      | some t =>
        cases t with
        | leaf x => rw [specRemoveK_other prune kids n (a :: b) (by simp) (by simp [hl])] at h; cases h
        | node sub0 =>
          rw [specRemoveK_node prune kids sub0 n (a :: b) (by simp) hl] at h
          cases hs : specRemoveK prune sub0 (a :: b) with
          | none => simp [hs] at h
          | some sub =>
            simp only [hs, Option.map_some, Option.some.injEq] at h; subst h
            have h0 : AttrTree.nodupL sub0 = true := by simpa using AttrTree.nodupL_lookup n _ kids hn hl
            split
            · exact AttrTree.nodupL_erase n kids hn
            · exact AttrTree.nodupL_upsert n _ kids hn (by simpa using ih sub0 sub h0 hs)

theorem renderedVals_cons (x : Node) (xs : List Node) : renderedVals (x :: xs) = renderedItem x ++ renderedVals xs := by
  simp [renderedVals]
theorem renderedFam_cons (x : Node) (xs : List Node) :
    renderedFam (x :: xs) = (if x.isBind then renderedItem x else []) ++ renderedFam xs := by
  simp [renderedFam]

mutual
  theorem rendered_eq_denote_aux : (n : Node) → valuesMode n = true →
      renderedTree n = denote n ∧ renderedItem n = denoteI n
    | .atom _, _ => ⟨rfl, rfl⟩
    | .ident _, _ => ⟨rfl, rfl⟩
    | .inherit _ _, _ => ⟨rfl, rfl⟩
    | .entry _ _ _ _, _ => ⟨rfl, rfl⟩
    | .set s vs o m r, h => by
      simp only [valuesMode, Bool.and_eq_true] at h
      refine ⟨?_, rfl⟩
      simp only [renderedTree, h.1, if_true, denote_set, (rendered_eq_denoteL_aux vs h.2).1]
    | .bind i n false v b a, h => by
      simp only [valuesMode] at h
      exact ⟨rfl, by simp only [renderedItem, denoteI_bind, (rendered_eq_denote_aux v h).1]⟩
    | .bind i n true (.set s vs o m r) b a, h => by
      simp only [valuesMode, Bool.and_eq_true, Bool.not_eq_true'] at h
      obtain ⟨⟨⟨h1, h2⟩, h3⟩, h4⟩ := h
      refine ⟨rfl, ?_⟩
      have hf := (rendered_eq_denoteL_aux vs h4).2 h3
      have hne : denoteL vs ≠ [] := denoteL_ne_nil vs h3 (by intro e; simp [e] at h2)
      have : (denoteL vs).isEmpty = false := by cases hd : denoteL vs <;> simp_all
      simp only [renderedItem, hf, this, Bool.false_eq_true, if_false, denoteI_bind, denote_set]
    | .bind i n true (.atom _) b a, h => by simp [valuesMode] at h
    | .bind i n true (.ident _) b a, h => by simp [valuesMode] at h
    | .bind i n true (.bind _ _ _ _ _ _) b a, h => by simp [valuesMode] at h
    | .bind i n true (.inherit _ _) b a, h => by simp [valuesMode] at h
    | .bind i n true (.entry _ _ _ _) b a, h => by simp [valuesMode] at h
  theorem rendered_eq_denoteL_aux : (xs : List Node) → valuesModeL xs = true →
      renderedVals xs = denoteL xs ∧ (xs.all isBind = true → renderedFam xs = denoteL xs)
    | [], _ => ⟨rfl, fun _ => rfl⟩
    | x :: xs, h => by
      simp only [valuesModeL, Bool.and_eq_true] at h
      have hx := (rendered_eq_denote_aux x h.1).2
      have hxs := rendered_eq_denoteL_aux xs h.2
      refine ⟨by rw [renderedVals_cons, denoteL_cons, hx, hxs.1], fun hall => ?_⟩
      simp only [List.all_cons, Bool.and_eq_true] at hall
      rw [renderedFam_cons, denoteL_cons, hall.1, if_pos rfl, hx, hxs.2 hall.2]
end

end Nima
