import NimaVerif.Model.Frame
/-!
L6/L7 — SPEC for C11: "the defining binding of a name under Nix lexical scoping", over the scope
chains the edit model works on. Core Lean only; nothing here is executed by the driver, and nothing
here mentions `scanChain` / `resolveIdent` (the code under scrutiny).

The shapes the edit model has: a chain of *frames*, each a binding list — the `let` layers around
the edited set and, when the set is `rec`, the set's own bindings. Both kinds of frame are
**recursive** in Nix (`let a = b; b = 1; in …`, `rec { a = b; b = 1; }`): the right-hand side of a
binding of frame `k` is evaluated in the environment that consists of frame `k` itself and every
frame outside it — never a frame further in. An environment is therefore a list of frames,
INNERMOST FIRST, and

* `lookupEnv name env`: the innermost frame that has a binding whose attribute name denotes `name`
  wins; the result is that binding together with the environment ITS value lives in (the suffix of
  `env` that starts at the frame where it was found);
* `Defines env name bid`: follow references — if the binding found has a value that is not an
  identifier, it is the defining binding; if its value is the identifier `n'`, the defining binding
  is that of `n'` in the environment of the binding found (outwards only). The relation is
  inductive, so a cyclic chain (`a = b; b = a;`) and a chain that ends at an unbound name define
  nothing — Nix gives such a name no value either (infinite recursion / undefined variable).

`inherit x;` clauses are transparent for this question: `inherit x;` in frame `k` designates the
`x` of the environment outside frame `k`, so the defining binding is found by continuing outwards —
which is what passing over a frame without a *binding* of the name does.
-/
namespace Nima
-- name tokens are compared by spelling in this file (see `NameCmp` in Model/Edit.lean)
attribute [local instance] NameCmp.spelled

open Node

/-- How Nix reads an attribute-name token: `"a"` names `a` (escapes are outside the fragment).
    Same function as `Scope.specName` of C10's SPEC (`C11.nixName_eq_specName`). -/
def nixName (n : Text) : Text :=
  match n with
  | '"' :: rest =>
    match rest.reverse with
    | '"' :: inner => inner.reverse
    | _ => n
  | _ => n

/-- SPEC: the item is a binding that introduces the variable `name` -/
def bindsName (name : Text) : Node → Bool
  | .bind _ nm _ _ _ _ => nixName nm == name
  | _ => false

/-- SPEC: the innermost frame with a binding of `name`: that binding and the environment its
    right-hand side is evaluated in (the frame itself and everything outside it). -/
def lookupEnv (name : Text) : List (List Node) → Option (Node × List (List Node))
  | [] => none
  | frame :: outer =>
    match frame.find? (bindsName name) with
    | some b => some (b, frame :: outer)
    | none => lookupEnv name outer

/-- SPEC: `bid` is the identity of the binding that defines `name` in `env` (innermost first) under
    Nix lexical scoping, reference chains followed to their end. -/
inductive Defines : List (List Node) → Text → Nat → Prop
  /-- the binding found holds a value that is not a reference: it is the defining binding -/
  | value {env env' : List (List Node)} {name nm : Text} {bid : Nat} {ne : Bool} {v : Node}
      {bf af : Payload} :
      lookupEnv name env = some (.bind bid nm ne v bf af, env') → v.isIdent = false →
      Defines env name bid
  /-- the binding found holds the reference `n'`: continue with `n'` where that binding lives -/
  | ref {env env' : List (List Node)} {name nm n' : Text} {i bid : Nat} {ne : Bool}
      {bf af : Payload} :
      lookupEnv name env = some (.bind i nm ne (.ident n') bf af, env') → Defines env' n' bid →
      Defines env name bid

/-- SPEC: no frame of the environment binds `name` -/
def NotBound (env : List (List Node)) (name : Text) : Prop :=
  ∀ frame ∈ env, frame.find? (bindsName name) = none

instance (env : List (List Node)) (name : Text) : Decidable (NotBound env name) := by
  unfold NotBound; infer_instance

/-- The environment of the right-hand sides of the bindings of the set `ts` the edit code builds
    (`scopeChain`, outermost first, is the transliteration of `scopes_for_owner`: the non-empty let
    layers around the set — an empty layer binds nothing — then the set's own bindings when it is
    `rec`), innermost first. -/
def chainEnv (d : Doc) (ts : Node) (withLayers : Bool) : List (List Node) :=
  (scopeChain d ts withLayers).reverse

/-- SPEC: everything of the *document* that is in scope at a binding of the target set, innermost
    first: `chainEnv`, then — when the target sits behind a wrapper (lambda head, call, `with` …)
    — the let layer of the top expression that the document records (`topScope`). -/
def docEnv (d : Doc) : List (List Node) :=
  chainEnv d d.target true ++ (match d.topScope with | some s => [s] | none => [])

/-! ## decidable side conditions of the C11 theorems

What the theorems ask of an environment, as `Bool`s (so `decide` settles them on a concrete
document). None of them restricts the *scoping* structure (how many layers, which names shadow
which, how long the reference chains are). -/

/-- the Nix name a binding declares (key for "attribute already defined") -/
def declName : Node → Option Text
  | .bind _ nm _ _ _ _ => some (nixName nm)
  | _ => none

/-- one frame is well formed:
    * every binding-name token reads the same under the code's `name.strip('"')` and under Nix's
      reading of the token (true of every bare name and of every `"…"` token without a quote
      character inside or an escaped quote at its end);
    * every reference held as a value is a bare identifier (always true of parsed documents);
    * no Nix name is declared twice (Nix itself rejects such a binding list). -/
def frameOK (frame : List Node) : Bool :=
  frame.all (fun n => match n with
    | .bind _ nm _ v _ _ => stripQuotes nm == nixName nm &&
        (match v with | .ident n' => nixName n' == n' | _ => true)
    | _ => true) &&
  decide ((frame.filterMap declName).Nodup)

def envOK (env : List (List Node)) : Bool := env.all frameOK

/-- no `inherit` clause of the environment mentions `name` -/
def inheritClear (env : List (List Node)) (name : Text) : Bool :=
  env.all (fun f => !inheritMentions f name)

/-- no `inherit` clause of the environment mentions `name` or an identifier that is the value of
    a binding of the environment ("the names involved"): the edit model does not follow `inherit`
    (`scanChain` stops there), the SPEC does. -/
def inheritFree (env : List (List Node)) (name : Text) : Bool :=
  inheritClear env name &&
  env.all (fun f => f.all fun n => match n with
    | .bind _ _ _ (.ident n') _ _ => inheritClear env n'
    | _ => true)

/-- every Binding object occurs once in the environment (object identities are distinct) -/
def idsNodup (env : List (List Node)) : Bool :=
  decide ((env.flatten.filterMap bindId?).Nodup)

end Nima
