import NimaVerif.Lemmas.Trivia
/-! # C03 — trivia-algebra theorems (being proved; see Lemmas/Trivia.lean). -/
namespace Nima.C03
theorem formatTrivia_nil (i : Nat) : formatTrivia [] i = [] := rfl
end Nima.C03
