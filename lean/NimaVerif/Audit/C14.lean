import NimaVerif.Props.C14
open Nima.C14
#print axioms get_missing_is_keyerror
