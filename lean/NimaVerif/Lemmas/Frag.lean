import NimaVerif.Model.Rebuild
import NimaVerif.Lemmas.Trivia
/-! Lemmas about the container fragment (L3–L5): the piece-level renderer concatenates to the
string-level renderer. Core Lean only. -/
namespace Nima.Frag
open Nima

/-! ### concat -/

@[simp] theorem concat_nil : concat [] = [] := rfl
@[simp] theorem concat_cons (p : FP) (ps : List FP) : concat (p :: ps) = p.text ++ concat ps := by
  simp [concat]
@[simp] theorem concat_append (a b : List FP) : concat (a ++ b) = concat a ++ concat b := by
  simp [concat]
@[simp] theorem text_tok (s : Text) : (FP.tok s).text = s := rfl
@[simp] theorem text_cmt (s : Text) : (FP.cmt s).text = s := rfl
@[simp] theorem text_ws (s : Text) : (FP.ws s).text = s := rfl
@[simp] theorem text_withText (p : FP) (s : Text) : (p.withText s).text = s := by cases p <;> rfl

theorem concat_joinP (sep : List FP) : ∀ (xs : List (List FP)),
    concat (joinP sep xs) = joinWith (concat sep) (xs.map concat)
  | [] => rfl
  | [x] => by simp [joinP, joinWith]
  | x :: y :: rest => by
    have ih := concat_joinP sep (y :: rest)
    simp only [joinP, concat_append, ih, List.map_cons, joinWith]

theorem concat_flatten (xs : List (List FP)) : concat xs.flatten = (xs.map concat).flatten := by
  induction xs with
  | nil => rfl
  | cons x xs ih => simp [ih]

/-! ### cuts -/

theorem concat_dropLastCharP : ∀ (ps : List FP), concat (dropLastCharP ps) = (concat ps).dropLast
  | [] => rfl
  | p :: rest => by
    simp only [dropLastCharP]
    by_cases h : (concat rest).isEmpty = true
    · have h0 : concat rest = [] := by simpa using h
      simp only [h, if_true, concat_cons, h0, List.append_nil]
      by_cases hl : p.text.length ≤ 1
      · simp only [hl, if_true, concat_nil]
        match hp : p.text with
        | [] => rfl
        | [_] => rfl
        | _ :: _ :: _ => rw [hp] at hl; simp at hl
      · simp [hl]
    · have h0 : concat rest ≠ [] := by simpa using h
      have ih := concat_dropLastCharP rest
      simp only [h, concat_cons]
      rw [List.dropLast_append_of_ne_nil h0, ← ih]
      simp

theorem dropWhile_append_all (p : Char → Bool) : ∀ (x y : Text),
    (x ++ y).dropWhile p = if x.all p then y.dropWhile p else x.dropWhile p ++ y
  | [], y => by simp
  | c :: x, y => by
    by_cases hc : p c = true
    · simp [List.dropWhile_cons, hc, dropWhile_append_all p x y]
    · simp [List.dropWhile_cons, hc]

theorem rstripNL_append (a b : Text) :
    rstripNL (a ++ b) = if b.all (· == '\n') then rstripNL a else a ++ rstripNL b := by
  unfold rstripNL
  rw [List.reverse_append, dropWhile_append_all]
  by_cases h : b.all (· == '\n') = true
  · have h' : b.reverse.all (· == '\n') = true := by simpa using h
    simp [h, h']
  · have h' : ¬ b.reverse.all (· == '\n') = true := by simpa using h
    simp [h, h']

theorem concat_rstripNLP : ∀ (ps : List FP), concat (rstripNLP ps) = rstripNL (concat ps)
  | [] => rfl
  | p :: rest => by
    simp only [rstripNLP, concat_cons]
    rw [rstripNL_append]
    by_cases h : (concat rest).all (· == '\n') = true
    · simp only [h, if_true]
      by_cases he : (rstripNL p.text).isEmpty = true
      · have : rstripNL p.text = [] := by simpa using he
        simp [he, this]
      · simp [he]
    · have ih := concat_rstripNLP rest
      simp [h, ih]

theorem concat_ite (c : Prop) [Decidable c] (a b : List FP) :
    concat (if c then a else b) = if c then concat a else concat b := by split <;> rfl

/-! ### trivia renderers -/

theorem concat_cmtP (c : Comment) (i : Nat) : concat (cmtP c i) = c.rebuild i := by
  simp [cmtP, rebuild_eq_token]

theorem concat_fmtGoP (i : Nat) (ts : List Trivia) (acc : List FP) (e : Bool) :
    concat (fmtGoP i ts acc e) = formatTriviaGo i ts (concat acc) e := by
  fun_induction fmtGoP i ts acc e with
  | case1 acc e => rfl
  | case2 rest acc e ih => rw [ih, formatTriviaGo]; simp
  | case3 rest acc e ih => rw [ih, formatTriviaGo]
  | case4 acc e acc1 acc2 c tl hin ih =>
    rw [ih]; simp only [formatTriviaGo]; simp [acc2, acc1, concat_ite, hin]
  | case5 acc e acc1 acc2 c tl hin ih =>
    rw [ih]; simp only [formatTriviaGo]; simp [acc2, acc1, concat_ite, hin]
  | case6 acc e acc1 acc2 tl ih =>
    rw [ih]; simp only [formatTriviaGo]; simp [acc2, acc1, concat_ite]
  | case7 acc e acc1 acc2 ih =>
    rw [ih]; simp only [formatTriviaGo]; simp [acc2, acc1, concat_ite]
  | case8 rest acc e acc1 acc2 h1 h2 h3 ih =>
    rw [ih]; symm; rw [formatTriviaGo]
    · simp [acc2, acc1, concat_ite]
    · exact h1
    · exact h2
    · exact h3
  | case9 c rest acc e ih => rw [ih, formatTriviaGo]; simp [concat_cmtP]

theorem concat_fmtP (ts : List Trivia) (i : Nat) : concat (fmtP ts i) = formatTrivia ts i := by
  simp [fmtP, formatTrivia, concat_fmtGoP]

theorem concat_trimP (ts : List Trivia) (ps : List FP) :
    concat (trimP ts ps) = trimTrailingLayoutNewline ts (concat ps) := by
  unfold trimP trimTrailingLayoutNewline
  cases ts.getLast? with
  | none => rfl
  | some t =>
    simp only
    split
    · exact concat_dropLastCharP ps
    · rfl

theorem concat_nlBlockP (ps : List FP) :
    concat (nlBlockP ps) = if (concat ps).isEmpty then [] else '\n' :: concat ps := by
  unfold nlBlockP; split <;> simp

theorem concat_trailP (after : List Trivia) (i : Nat) :
    concat (trailP after i) = applyTrailingTrivia [] after i := by
  unfold trailP applyTrailingTrivia
  match after with
  | [] => rfl
  | .emptyLine :: rest => simp [concat_nlBlockP, concat_trimP, concat_fmtP]
  | .linebreak :: rest => simp [concat_nlBlockP, concat_trimP, concat_fmtP]
  | .comma :: rest => simp [concat_nlBlockP, concat_trimP, concat_fmtP]
  | .comment c :: rest =>
    simp only
    split
    · simp [concat_nlBlockP, concat_trimP, concat_fmtP, concat_cmtP]
    · simp [concat_nlBlockP, concat_trimP, concat_fmtP]

theorem applyTrailing_eq (r : Text) (after : List Trivia) (i : Nat) :
    applyTrailingTrivia r after i = r ++ concat (trailP after i) := by
  rw [concat_trailP]; exact applyTrailingTrivia_prefix r after i

theorem concat_indentP (i : Nat) (b : Bool) : concat (indentP i b) = if b then [] else spaces i := by
  unfold indentP; split <;> simp

theorem concat_addTriviaP (before after : List Trivia) (core : List FP) (i : Nat) (b : Bool) :
    concat (addTriviaP before after core i b) = addTrivia before after (concat core) i b := by
  simp [addTriviaP, addTrivia, applyTrailing_eq, concat_fmtP, concat_indentP]

theorem concat_multilineBlockP (bp op body : List FP) (closer : Char) (i : Nat) (b s : Bool) :
    concat (multilineBlockP bp op body closer i b s) =
      multilineBlock (concat bp) (concat op) (concat body) closer i b s := by
  unfold multilineBlockP multilineBlock
  simp only [concat_append, concat_indentP, concat_ite]
  simp

theorem concat_bindingTailP (afterItems : List Trivia) (i : Nat) (r : Text) :
    r ++ concat (bindingTailP afterItems i) = bindingTail r afterItems i := by
  unfold bindingTailP bindingTail
  match afterItems with
  | [] => simp [applyTrailing_eq]
  | .emptyLine :: rest => simp [applyTrailing_eq]
  | .comma :: rest => simp [applyTrailing_eq]
  | .comment c :: rest => simp [applyTrailing_eq]
  | .linebreak :: rest =>
    simp only [concat_ite, concat_dropLastCharP, concat_cons, text_ws, concat_fmtP]
    by_cases h1 : startsWithNL (formatTrivia rest i) = true <;> simp [h1]

theorem concat_recP (r : Bool) : concat (recP r) = if r then ['r', 'e', 'c', ' '] else [] := by
  cases r <;> rfl

theorem concat_fnAfterP : ∀ (cs : List Comment) (acc : List FP) (i : Nat),
    concat (fnAfterP acc cs i) = fnAfterStr (concat acc) cs i
  | [], acc, i => rfl
  | c :: rest, acc, i => by
    simp only [fnAfterP, fnAfterStr]
    split
    · rw [concat_fnAfterP rest]
      congr 1
      simp only [concat_append, concat_cmtP, concat_ite, concat_nil, concat_cons, text_ws]
      split <;> simp
    · rw [concat_fnAfterP rest]
      congr 1
      simp only [concat_append, concat_cmtP, concat_ite, concat_nil, concat_cons, text_ws]
      split <;> simp

theorem concat_dropCharsP : ∀ (ps : List FP) (n : Nat), concat (dropCharsP ps n) = (concat ps).drop n
  | [], n => by simp [dropCharsP]
  | p :: rest, n => by
    simp only [dropCharsP]
    by_cases h0 : n = 0
    · subst h0; simp
    · simp only [h0, if_false]
      by_cases hl : p.text.length ≤ n
      · simp only [hl, if_true, concat_dropCharsP rest, concat_cons]
        rw [List.drop_append]
        have : List.drop n p.text = [] := List.drop_eq_nil_of_le hl
        rw [this, List.nil_append]
      · simp only [hl, if_false, concat_cons, text_withText]
        rw [List.drop_append]
        have : n - p.text.length = 0 := by omega
        rw [this, List.drop_zero]

theorem concat_stripIndentPrefixP (ps : List FP) (i : Nat) :
    concat (stripIndentPrefixP ps i) = stripIndentPrefix (concat ps) i := by
  unfold stripIndentPrefixP stripIndentPrefix
  split
  · exact concat_dropCharsP ps i
  · rfl

theorem concat_withBodyPartP (f a : Bool) (x y : List FP) (i : Nat) :
    concat (withBodyPartP f a x y i) = withBodyPart f a (concat x) (concat y) i := by
  unfold withBodyPartP withBodyPart
  split
  · simp [concat_stripIndentPrefixP]
  · split <;> simp

theorem concat_attrP : ∀ (attrs : List Text), concat (attrP attrs) = attrText attrs
  | [] => rfl
  | [a] => by simp [attrP, attrText]
  | a :: b :: rest => by
    have ih := concat_attrP (b :: rest)
    simp only [attrP, attrText, concat_cons, text_tok, ih]
    simp

theorem concat_binCoreP (l ro ri : List FP) (op : Text) (ogl rgl i : Nat) :
    concat (binCoreP l ro ri op ogl rgl i) = binCore (concat l) (concat ro) (concat ri) op ogl rgl i := by
  unfold binCoreP binCore
  split
  · split <;> simp [List.append_assoc]
  · split <;> simp [List.append_assoc]

/-! ### the piece-level renderer concatenates to the string-level renderer -/

mutual
theorem concat_rebuildAP : (e : Expr) → ∀ (na : Bool) (i : Nat) (b : Bool),
    concat (e.rebuildAP na i b) = e.rebuildA na i b
  | .leaf k t before after, na, i, b => by
    simp [Expr.rebuildAP, Expr.rebuildA, concat_addTriviaP]
  | .list value ml inner before after, na, i, b => by
    have ihs := fun i b => concat_rebuildAllP value i b
    cases value with
    | nil =>
      simp only [Expr.rebuildAP, Expr.rebuildA]
      split <;> simp [concat_multilineBlockP, concat_fmtP, applyTrailing_eq, concat_indentP]
    | cons v vs =>
      simp only [Expr.rebuildAP, Expr.rebuildA]
      split <;> simp [concat_multilineBlockP, concat_fmtP, applyTrailing_eq, concat_indentP, concat_joinP, ihs]
  | .set values ml r inner before after, na, i, b => by
    have ihs := fun i b => concat_rebuildAllP values i b
    cases values with
    | nil =>
      simp only [Expr.rebuildAP, Expr.rebuildA]
      split <;> simp [concat_multilineBlockP, concat_fmtP, applyTrailing_eq, concat_indentP, concat_addTriviaP, concat_recP]
    | cons v vs =>
      simp only [Expr.rebuildAP, Expr.rebuildA]
      split <;> simp [concat_multilineBlockP, concat_fmtP, applyTrailing_eq, concat_indentP, concat_joinP, ihs, concat_addTriviaP, concat_recP]
  | .binding name value vg before after, na, i, b => by
    have ihv := concat_rebuildAP value
    have ihp := concat_previewP value
    simp only [Expr.rebuildAP, Expr.rebuildA]
    rw [← concat_bindingTailP]
    have key : ∀ (o : Option (List FP)) (d : List FP), concat (o.getD d) = (o.map concat).getD (concat d) := by
      intro o d; cases o <;> rfl
    simp only [concat_append, concat_cons, concat_nil, concat_rstripNLP, concat_fmtP, concat_indentP,
      text_tok, text_ws, key, ihv]
    have hp : ∀ (c : Prop) [Decidable c] (vi : Nat),
        Option.map concat (if c then none else value.previewP vi) = (if c then none else value.preview vi) := by
      intro c _ vi; split
      · rfl
      · exact ihp vi
    rw [hp]
    simp [List.append_assoc]
  | .paren value lg tg lb tb before after, na, i, b => by
    have ihv := concat_rebuildAP value
    simp only [Expr.rebuildAP, Expr.rebuildA, concat_addTriviaP]
    congr 1
    simp only [concat_cons, concat_append, text_tok, concat_nil, List.append_nil]
    congr 1
    by_cases h1 : (Layout.fromGap lg).onNewline = true <;> by_cases h2 : (Layout.fromGap tg).onNewline = true <;>
      simp [h1, h2, ihv]
  | .app name arg g fa before after, na, i, b => by
    have ihn := concat_rebuildAP name
    have iha := concat_rebuildAP arg
    simp only [Expr.rebuildAP, Expr.rebuildA, concat_addTriviaP]
    generalize (Layout.fromGap g).onNewline = on
    generalize (if on = true then (Layout.fromGap g).indent.getD (i + 2) else i) = ai
    simp only [concat_append, concat_cons, text_ws, concat_fnAfterP, ihn, apply_ite concat, iha, List.append_assoc]
  | .wth env body awc awGap asc before after, na, i, b => by
    have ihe := concat_rebuildAP env
    have ihb := concat_rebuildAP body
    simp only [Expr.rebuildAP, Expr.rebuildA, concat_addTriviaP]
    congr 1
    simp only [concat_append, concat_cons, concat_nil, text_tok, text_ws, apply_ite concat, ihe, ihb,
      concat_withBodyPartP, List.append_assoc, List.nil_append, List.cons_append, List.append_nil]
  | .asrt cond body aac bsc before after, na, i, b => by
    have ihc := concat_rebuildAP cond
    have ihb := concat_rebuildAP body
    simp only [Expr.rebuildAP, Expr.rebuildA]
    simp only [concat_append, concat_cons, concat_nil, text_tok, text_ws, concat_addTriviaP, apply_ite concat, ihc, ihb,
      List.append_assoc, List.nil_append, List.cons_append, List.append_nil]
  | .sel expr attrs g ab before after, na, i, b => by
    have ihe := concat_rebuildAP expr
    simp only [Expr.rebuildAP, Expr.rebuildA, concat_addTriviaP]
    congr 1
    simp only [concat_append, concat_cons, concat_nil, text_tok, text_ws, ihe, concat_attrP, List.append_assoc,
      List.nil_append, List.cons_append, List.append_nil]
  | .selOr expr attrs g ab d dg db before after, na, i, b => by
    have ihe := concat_rebuildAP expr
    have ihd := concat_rebuildAP d
    simp only [Expr.rebuildAP, Expr.rebuildA, concat_addTriviaP]
    congr 1
    simp only [concat_append, concat_cons, concat_nil, text_tok, text_ws, ihe, ihd, concat_attrP, List.append_assoc,
      List.nil_append, List.cons_append, List.append_nil]
  | .lam name bcc g k body before after, na, i, b => by
    have ihb := concat_rebuildAP body
    simp only [Expr.rebuildAP, Expr.rebuildA, concat_addTriviaP]
    congr 1
    simp only [concat_append, concat_cons, concat_nil, text_tok, text_ws, ihb, List.append_assoc,
      List.nil_append, List.cons_append, List.append_nil]
  | .un op expr g bt before after, na, i, b => by
    have ihe := concat_rebuildAP expr
    simp only [Expr.rebuildAP, Expr.rebuildA, concat_addTriviaP]
    congr 1
    simp only [concat_append, concat_cons, concat_nil, text_tok, text_ws, apply_ite concat, ihe, List.append_assoc,
      List.nil_append, List.cons_append, List.append_nil]
  | .bin op left right ogl rgl before after, na, i, b => by
    have ihl := concat_rebuildAP left
    have ihr := concat_rebuildAP right
    simp only [Expr.rebuildAP, Expr.rebuildA, concat_addTriviaP, concat_binCoreP, concat_cons, text_ws, ihl, ihr]
  | .ite cond thn els cg aic aig btc btg atc tg bec beg aec eg before after, na, i, b => by
    have ihc := concat_rebuildAP cond
    have iht := concat_rebuildAP thn
    have ihe := concat_rebuildAP els
    simp only [Expr.rebuildAP, Expr.rebuildA, concat_addTriviaP]
    congr 1
    simp only [concat_append, concat_cons, concat_nil, text_tok, text_ws, apply_ite concat, ihc, iht, ihe, List.append_assoc,
      List.nil_append, List.cons_append, List.append_nil]
  | .has expr attrs lg rg bq aq before after, na, i, b => by
    have ihe := concat_rebuildAP expr
    simp only [Expr.rebuildAP, Expr.rebuildA, concat_addTriviaP]
    congr 1
    simp only [concat_append, concat_cons, concat_nil, text_tok, text_ws, ihe, concat_attrP, List.append_assoc,
      List.nil_append, List.cons_append, List.append_nil]
theorem concat_rebuildAllP : (es : List Expr) → ∀ (i : Nat) (b : Bool),
    (rebuildAllP es i b).map concat = rebuildAll es i b
  | [], i, b => rfl
  | e :: rest, i, b => by
    simp [rebuildAllP, rebuildAll, concat_rebuildAP e, concat_rebuildAllP rest]
theorem concat_previewP : (e : Expr) → ∀ (i : Nat), (e.previewP i).map concat = e.preview i
  | .leaf .., i => rfl
  | .set .., i => rfl
  | .binding .., i => rfl
  | .paren .., i => rfl
  | .app .., i => rfl
  | .wth .., i => rfl
  | .asrt .., i => rfl
  | .sel .., i => rfl
  | .selOr .., i => rfl
  | .lam .., i => rfl
  | .un .., i => rfl
  | .bin .., i => rfl
  | .ite .., i => rfl
  | .has .., i => rfl
  | .list value ml inner before after, i => by
    have ihs := fun i b => concat_rebuildAllP value i b
    simp only [Expr.previewP, Expr.preview]
    split
    · rfl
    · split
      · rfl
      · split
        · rfl
        · have hopt : ∀ (c : Prop) [Decidable c] (p : List FP),
              Option.map concat (if c then none else some p) = (if c then none else some (concat p)) := by
            intro c _ p; split <;> rfl
          cases value with
          | nil => rw [hopt]; rfl
          | cons v vs =>
            rw [hopt]
            simp only [concat_append, concat_cons, concat_nil, text_tok, text_ws, concat_joinP, ihs]
            simp
end

/-- `concat (rebuildP e i b) = rebuild e i b`, for every expression -/
theorem concat_rebuildP (e : Expr) (i : Nat) (b : Bool) : concat (e.rebuildP i b) = e.rebuild i b :=
  concat_rebuildAP e false i b

theorem concat_srcRebuildP (s : Src) : concat s.rebuildP = s.rebuild := by
  unfold Src.rebuildP Src.rebuild
  have h : concat (rebuildAllP s.exprs 0 false).flatten = (rebuildAll s.exprs 0 false).flatten := by
    rw [concat_flatten, concat_rebuildAllP]
  simp only [concat_ite, concat_append, h, concat_trimP, concat_fmtP]
  simp

end Nima.Frag
