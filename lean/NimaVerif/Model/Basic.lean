/-
L0: text helpers. Text is `List Char` throughout the model and the proofs.
Import-free (core Lean only) so that the driver can be linked as a native executable.
-/
namespace Nima

abbrev Text := List Char

/-- Python exception classes, as far as the properties distinguish them. -/
inductive Err where
  | value | key | resolution | type | os | syntax
  | internal (name : String)
deriving DecidableEq, Repr, Inhabited

instance {ε α : Type} [DecidableEq ε] [DecidableEq α] : DecidableEq (Except ε α) := fun a b =>
  match a, b with
  | .ok x, .ok y => if h : x = y then isTrue (by rw [h]) else isFalse (by intro h'; injection h' with h'; exact h h')
  | .error x, .error y => if h : x = y then isTrue (by rw [h]) else isFalse (by intro h'; injection h' with h'; exact h h')
  | .ok _, .error _ => isFalse (by intro h; cases h)
  | .error _, .ok _ => isFalse (by intro h; cases h)

def Err.cls : Err → String
  | .value => "value" | .key => "key" | .resolution => "resolution"
  | .type => "type" | .os => "os" | .syntax => "syntax"
  | .internal n => "internal:" ++ n

/-- `str.isspace()` for one character (Unicode White_Space plus the four ASCII separators
    Python also counts). Used by `str.strip()`. -/
def isPyWhitespace (c : Char) : Bool :=
  let n := c.toNat
  (9 ≤ n && n ≤ 13) || (28 ≤ n && n ≤ 32) || n == 0x85 || n == 0xa0 || n == 0x1680 ||
  (0x2000 ≤ n && n ≤ 0x200a) || n == 0x2028 || n == 0x2029 || n == 0x202f || n == 0x205f ||
  n == 0x3000

def lstrip (s : Text) : Text := s.dropWhile isPyWhitespace
def rstrip (s : Text) : Text := (s.reverse.dropWhile isPyWhitespace).reverse
/-- `str.strip()` -/
def strip (s : Text) : Text := rstrip (lstrip s)

/-- `sep.join(parts)` -/
def joinWith (sep : Text) : List Text → Text
  | [] => []
  | [x] => x
  | x :: xs => x ++ sep ++ joinWith sep xs

def isAsciiLetter (c : Char) : Bool :=
  ('a' ≤ c && c ≤ 'z') || ('A' ≤ c && c ≤ 'Z')
def isAsciiDigit (c : Char) : Bool := '0' ≤ c && c ≤ '9'

def spaces (n : Nat) : Text := List.replicate n ' '

end Nima
