import NimaVerif.Model.Gate
import NimaVerif.Lemmas.Edit
import NimaVerif.Lemmas.CliEdit
import NimaVerif.Gen.Gate
import NimaVerif.Gen.Cli
/-!
# C07 — sources with syntax errors are passed through untouched and never edited

`hasError` is tree-sitter's verdict, delivered with the tree (trusted, part of the parser contract).
Everything after the gate is decision logic and is proved for all texts, paths and values.
-/
namespace Nima.C07
-- name tokens are compared by spelling in this file (see `NameCmp` in Model/Edit.lean)
attribute [local instance] NameCmp.spelled

/-- Translator tie: the gate has the shape the model assumes (statement order in `from_cst`,
    `RawExpression.rebuild`, `NixSourceCode.rebuild`, value checks first in `set_value`,
    no `case RawExpression()` in target resolution). -/
theorem tie_gate : Gen.gateShape = some expectedGateShape := by decide

/-- Translator ties for the section "Through the command line": the programs of the three
    sub-commands in `cli/main.py` are the ones `Cli.cli` interprets (the same ties as `C16.tie_*`). -/
theorem tie_cli_test : Gen.cliTest = some Cli.testProg := by decide
theorem tie_cli_set : Gen.cliSet = some Cli.setProg := by decide
theorem tie_cli_rm : Gen.cliRm = some Cli.rmProg := by decide

/-- Rebuilding a source with a syntax error returns the input byte for byte — including leading
    and trailing whitespace: the gate precedes all trivia code. -/
theorem passthrough (text : Text) (structured : Source) (other : TopExpr → Text)
    (renderTrailing : Text → Payload → Text) :
    (fromCstTop true text structured).rebuild other renderTrailing = text := by
  simp [fromCstTop, Source.rebuild, TopExpr.rebuild]

theorem flagged (text : Text) (structured : Source) :
    (fromCstTop true text structured).containsError = true ∧
    (fromCstTop true text structured).noTarget = some .raw := by
  simp [fromCstTop, Source.noTarget]

/-- `set` on a raw document is refused with ValueError whatever the path and the value, and the
    document is left as it was. -/
theorem set_refused (d : Doc) (h : d.noTarget = some .raw) (p : Text) (v : ValueArg) :
    setValue p v d = (.error .value, d) := by
  unfold setValue
  cases v with
  | empty => rfl
  | invalid => rfl
  | one n =>
    simp only [h]
    cases hs : splitScopeNpath p with
    | error e =>
      have : e = .value := splitScopeNpath_error p e hs
      simp [this]
    | ok o =>
      cases o with
      | none => simp [resolveTarget, h]
      | some ds => simp [resolveTarget, h]

/-- `rm` on a raw document is refused with ValueError, document unchanged. -/
theorem rm_refused (d : Doc) (h : d.noTarget = some .raw) (p : Text) :
    removeValue p d = (.error .value, d) := by
  unfold removeValue
  simp only [h]
  cases hs : splitScopeNpath p with
  | error e =>
    have : e = .value := splitScopeNpath_error p e hs
    simp [this]
  | ok o =>
    cases o with
    | none => simp [resolveTarget, h]
    | some ds => simp [resolveTarget, h]

/-- A VALUE that is not exactly one well-formed expression is refused whatever the document, and
    the document is left as it was. -/
theorem bad_value_refused (p : Text) (d : Doc) :
    setValue p .empty d = (.error .value, d) ∧ setValue p .invalid d = (.error .value, d) :=
  ⟨rfl, rfl⟩

/-- The whole chain for an erroneous text: flagged, passed through, not editable. -/
theorem erroneous_text (text : Text) (structured : Source) (d : Doc)
    (hd : d.noTarget = (fromCstTop true text structured).noTarget) (p : Text) (v : ValueArg) :
    (setValue p v d).1 = .error .value ∧ (setValue p v d).2 = d ∧
    (removeValue p d).1 = .error .value ∧ (removeValue p d).2 = d := by
  have h : d.noTarget = some .raw := by rw [hd]; exact (flagged text structured).2
  rw [set_refused d h p v, rm_refused d h p]
  exact ⟨rfl, rfl, rfl, rfl⟩

/-! ## Through the command line

The gate composed with the command-line interpreter of `Model/Cli.lean` (the programs of `test`,
`set`, `rm` are re-extracted from `cli/main.py` on every run and proved equal to the model's in
`C16.tie_*`). `Cli.editLib` (`Lemmas/CliEdit.lean`) is ANY library whose two edit entry points are the modelled `setValue` /
`removeValue` on the edit code's view `docOf` of a parsed source, with any reading `classify` of the
VALUE argument and any rendering `render` of an edited document (may raise); its `parse`,
`containsError`, `rebuild` are arbitrary. The statements hold for every text, both input channels,
every NPATH and VALUE. -/
section CommandLine
open Cli
variable {σ : Type}

/-- `nima test` on a source the parser flags: `Fail`, exit status 1, no traceback — whatever the
    rest of the library does, on either channel. -/
theorem cli_test_fails (lib : Lib σ) (inv : Inv) (t : Text) (s : σ) (hc : inv.content = .ok t)
    (hp : lib.parse t = .ok s) (he : lib.containsError s = true) :
    cli lib .test inv = failRes := by
  rw [cli_test_eq, hc]
  simp [testClosed, hp, he]

/-- `nima set` on a source that is one raw expression: nothing on stdout, exit status 1, ValueError
    — for every NPATH and VALUE, and the rendering of an edited document is never reached. -/
theorem cli_set_refused (base : Lib σ) (docOf : σ → Doc) (classify : Text → ValueArg)
    (render : Doc → Except Err Text) (inv : Inv) (t : Text) (s : σ) (hc : inv.content = .ok t)
    (hp : base.parse t = .ok s) (hraw : (docOf s).noTarget = some .raw) :
    cli (editLib base docOf classify render) .set inv = tracebackRes .value := by
  rw [cli_set_model base docOf classify render inv t s hc hp, set_refused (docOf s) hraw]
  rfl

/-- `nima rm` likewise. -/
theorem cli_rm_refused (base : Lib σ) (docOf : σ → Doc) (classify : Text → ValueArg)
    (render : Doc → Except Err Text) (inv : Inv) (t : Text) (s : σ) (hc : inv.content = .ok t)
    (hp : base.parse t = .ok s) (hraw : (docOf s).noTarget = some .raw) :
    cli (editLib base docOf classify render) .rm inv = tracebackRes .value := by
  rw [cli_rm_model base docOf classify render inv t s hc hp, rm_refused (docOf s) hraw]
  rfl

/-- A VALUE that is not exactly one well-formed expression (empty, several, or erroneous) makes
    `nima set` end silently with ValueError whatever the document and the path. -/
theorem cli_bad_value_refused (base : Lib σ) (docOf : σ → Doc) (classify : Text → ValueArg)
    (render : Doc → Except Err Text) (inv : Inv) (t : Text) (s : σ) (hc : inv.content = .ok t)
    (hp : base.parse t = .ok s) (hv : classify inv.value = .empty ∨ classify inv.value = .invalid) :
    cli (editLib base docOf classify render) .set inv = tracebackRes .value := by
  rw [cli_set_model base docOf classify render inv t s hc hp]
  rcases hv with hv | hv <;> rw [hv]
  · rw [(bad_value_refused inv.npath (docOf s)).1]; rfl
  · rw [(bad_value_refused inv.npath (docOf s)).2]; rfl

/-- The whole chain for a text tree-sitter flags, seen from the shell: the library's parse is the
    gate (`fromCstTop true`), so the three sub-commands answer `Fail`/1, silence/1/ValueError,
    silence/1/ValueError; in particular no byte of the erroneous source, edited or not, reaches
    stdout through `set` / `rm`. -/
theorem cli_erroneous_text (base : Lib σ) (docOf : σ → Doc) (classify : Text → ValueArg)
    (render : Doc → Except Err Text) (inv : Inv) (t : Text) (s : σ) (structured : Source)
    (hc : inv.content = .ok t) (hp : base.parse t = .ok s)
    (hflag : base.containsError s = (fromCstTop true t structured).containsError)
    (hview : (docOf s).noTarget = (fromCstTop true t structured).noTarget) :
    cli (editLib base docOf classify render) .test inv = failRes ∧
    cli (editLib base docOf classify render) .set inv = tracebackRes .value ∧
    cli (editLib base docOf classify render) .rm inv = tracebackRes .value := by
  have hraw : (docOf s).noTarget = some .raw := by rw [hview]; exact (flagged t structured).2
  have he : base.containsError s = true := by rw [hflag]; exact (flagged t structured).1
  exact ⟨cli_test_fails (editLib base docOf classify render) inv t s hc hp he,
    cli_set_refused base docOf classify render inv t s hc hp hraw,
    cli_rm_refused base docOf classify render inv t s hc hp hraw⟩

/-- Non-vacuity: a concrete library (the parse IS the gate on a flagged text) and invocation. -/
def gateLib : Lib Source :=
  { parse := fun t => .ok (fromCstTop true t ⟨[], [], false⟩)
    containsError := fun s => s.containsError
    rebuild := fun s => .ok (s.rebuild (fun _ => []) (fun t _ => t))
    setValue := fun _ _ _ => .ok []
    removeValue := fun _ _ => .ok [] }

example : cli (editLib gateLib (fun s => { noTarget := s.noTarget }) (fun _ => .one (.atom []))
      (fun _ => .ok [])) .set { chan := .file, raw := .ok "{ a = ; }".toList, npath := ['a'], value := ['1'] }
    = tracebackRes .value :=
  cli_set_refused gateLib _ _ _ _ "{ a = ; }".toList _ rfl rfl rfl

example : cli gateLib .test { chan := .stdin, raw := .ok "{ a = ; }".toList } = failRes := by decide

end CommandLine

/-! Non-vacuity -/
example : (fromCstTop true "  { a = ; }\n\n".toList ⟨[], [], false⟩).rebuild (fun _ => []) (fun t _ => t)
    = "  { a = ; }\n\n".toList := by decide

end Nima.C07
