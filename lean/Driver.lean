import NimaVerif.Model.SExp
import NimaVerif.Drv.Names
import NimaVerif.Drv.Trivia
import NimaVerif.Drv.Edit
import NimaVerif.Drv.Cli
import NimaVerif.Drv.Paths
import NimaVerif.Drv.Value
import NimaVerif.Drv.Cost
import NimaVerif.Drv.Effects
import NimaVerif.Drv.Scope
import NimaVerif.Drv.Registry
import NimaVerif.Drv.Layout
/-!
Line-protocol driver: one request per line on stdin, one reply per line on stdout.
Each topic has its own handler module `NimaVerif/Drv/<Topic>.lean` exporting
`handle : SExp → Option SExp` (`none`: not my request). Register it in `handlers` below.
Only import-free modules (Model/, Gen/, Drv/) may be imported here, so that the exe links.
-/
open Nima

def handlers : List (SExp → Option SExp) := [
  Nima.Drv.Names.handle,
  Nima.Drv.Trivia.handle,
  Nima.Drv.Edit.handle,
  Nima.Drv.Cli.handle,
  Nima.Drv.Paths.handle,
  Nima.Drv.Value.handle,
  Nima.Drv.Cost.handle,
  Nima.Drv.Effects.handle,
  Nima.Drv.Scope.handle,
  Nima.Drv.Registry.handle,
  Nima.Drv.Layout.handle
]

def dispatch (req : SExp) : SExp :=
  match handlers.findSome? (fun h => h req) with
  | some r => r
  | none => .list [.atom "bad-op"]

partial def loop (hin : IO.FS.Stream) (hout : IO.FS.Stream) : IO Unit := do
  let line ← hin.getLine
  if line.isEmpty then return ()
  let reply := match SExp.parse line with
    | some r => dispatch r
    | none => .list [.atom "bad-syntax"]
  hout.putStrLn reply.toStr
  loop hin hout

def main : IO Unit := do
  let hin ← IO.getStdin
  let hout ← IO.getStdout
  loop hin hout
  hout.flush
