"""placeholder"""
def run(ctx):
    pass
def replay(inp):
    return 0
