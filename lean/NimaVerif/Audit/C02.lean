import NimaVerif.Props.C02
#print axioms Nima.C02.separator_canonical
#print axioms Nima.C02.normal_separator_reproduced
#print axioms Nima.C02.cex_empty_separator
#print axioms Nima.C02.separator_after_comments_canonical
#print axioms Nima.C02.canonical_gap_reproduced
#print axioms Nima.C02.canonical_comment_lines
#print axioms Nima.C02.line_comment_canonical
#print axioms Nima.C02.single_line_block_canonical
#print axioms Nima.C02.multiline_block_canonical
#print axioms Nima.C02.multiline_block_canonical_text
#print axioms Nima.C02.written_comments_are_canonical
#print axioms Nima.C02.frag_reproduced_is_normal_form
