import NimaVerif.Model.Value
import NimaVerif.Model.DataReader
/-!
SPEC (C13): what a Python value denotes as data (`denote`), what each container context is expected
to read back as (`expected`, `readCtx`), the property's domain (`valInDomain`, `ctxInDomain`) and the
decidable side condition under which the code does keep the value (`…Readable`; every value of the
domain satisfies it), and the data the API must refuse (`dataOutOfRange`).
-/
namespace Nima

/-! ## Denotation -/

/-- A Python float `repr` as (sign, the number its unsigned decimal literal denotes). -/
def floatData (r : Text) : Data :=
  match r with
  | '-' :: t => .float true (decValue t)
  | t => .float false (decValue t)

mutual
def denoteE : Elem → Data
  | .none => .null
  | .bool b => .bool b
  | .int i => .int i
  | .float r => floatData r
  | .str s => .str s
  | .list xs => .list (denoteEs xs)
def denoteEs : List Elem → List Data
  | [] => []
  | x :: xs => denoteE x :: denoteEs xs
end

mutual
def denote : PyVal → Data
  | .elem e => denoteE e
  | .dict kvs => .attrs (denoteKvs kvs)
def denoteKvs : List (Text × PyVal) → List (Text × Data)
  | [] => []
  | (k, v) :: rest => (k, denote v) :: denoteKvs rest
end

mutual
def denoteX : Expr → Data
  | .raw e => denoteE e
  | .aset bs _ => .attrs (denoteBs bs)
def denoteBs : List (Text × Expr) → List (Text × Data)
  | [] => []
  | (k, v) :: rest => (k, denoteX v) :: denoteBs rest
end

/-- Python `d[k] = v` on an insertion-ordered dict: replace in place, else append. -/
def dictSet (kvs : List (Text × Data)) (k : Text) (v : Data) : List (Text × Data) :=
  match kvs with
  | [] => [(k, v)]
  | (k', v') :: rest => if k' = k then (k', v) :: rest else (k', v') :: dictSet rest k v

/-- The data each context must read back as. -/
def expected : Ctx → Data
  | .fromDict d => .attrs (denoteKvs d)
  | .values d => .attrs (denoteKvs d)
  | .binding k v => .attrs [(k, denote v)]
  | .list xs => .list (denoteEs xs)
  | .setItem d k v => .attrs (dictSet (denoteKvs d) k (denote v))
  | .setItemOn d _ k v => .attrs (dictSet (denoteKvs d) k (denote v))

/-- How the text of a context is read: a lone binding is read inside braces. -/
def readCtx : Ctx → Text → Option Data
  | .binding _ _, t => (readBinding t).map fun kv => .attrs [kv]
  | _, t => readData t

/-! ## The property's domain -/

def unsignedRepr (r : Text) : Text := match r with | '-' :: t => t | t => t
def isNegText (r : Text) : Bool := match r with | '-' :: _ => true | _ => false

/-- exponent of a Python float repr: `e`, a sign, at least two digits -/
def isPyExp : Text → Bool
  | 'e' :: s :: ds => (s == '+' || s == '-') && ds.length ≥ 2 && ds.all isAsciiDigit
  | _ => false

/-- the unsigned part of `repr(x)` of a finite Python float: `D+.D+` or `D(.D+)?e[+-]DD+`, no leading zeros -/
def isPyFloatBody (u : Text) : Bool :=
  let ip := u.takeWhile isAsciiDigit
  (!ip.isEmpty && (ip == ['0'] || ip.head? != some '0')) &&
  match u.dropWhile isAsciiDigit with
  | '.' :: r2 =>
    let fp := r2.takeWhile isAsciiDigit
    let ex := r2.dropWhile isAsciiDigit
    !fp.isEmpty && (ex.isEmpty || (isPyExp ex && ip.length == 1 && ip != ['0']))
  | 'e' :: ex => isPyExp ('e' :: ex) && ip.length == 1 && ip != ['0']
  | _ => false

/-- `repr(x)` of a finite Python float: `-?D+.D+` or `-?D(.D+)?e[+-]DD+`, no leading zeros. -/
def isPyFloatRepr (r : Text) : Bool := isPyFloatBody (unsignedRepr r)

mutual
def elemInDomain : Elem → Bool
  | .none => true
  | .bool _ => true
  | .int i => i.natAbs ≤ nixIntMax
  | .float r => isPyFloatRepr r
  | .str s => !hasInterp s
  | .list xs => elemsInDomain xs
def elemsInDomain : List Elem → Bool
  | [] => true
  | x :: xs => elemInDomain x && elemsInDomain xs
end

def dictKeys (kvs : List (Text × PyVal)) : List Text := kvs.map (·.1)

mutual
/-- identifier keys (not keywords), pairwise distinct; strings without `${`; floats are reprs;
    integers are those Nix can write (an integer beyond 64 bits is outside the domain: the
    construction API refuses it with `ValueError`, `C13.refusal_exact`) -/
def valInDomain : PyVal → Bool
  | .elem e => elemInDomain e
  | .dict kvs => keysNodup (kvs.map (·.1)) && kvsInDomain kvs
def kvsInDomain : List (Text × PyVal) → Bool
  | [] => true
  | (k, v) :: rest => isDataKey k && valInDomain v && kvsInDomain rest
end

def ctxInDomain : Ctx → Bool
  | .fromDict d => valInDomain (.dict d)
  | .values d => valInDomain (.dict d)
  | .binding k v => isDataKey k && valInDomain v
  | .list xs => elemsInDomain xs
  | .setItem d k v => valInDomain (.dict d) && isDataKey k && valInDomain v
  | .setItemOn d _ k v => valInDomain (.dict d) && isDataKey k && valInDomain v

/-! ## The side condition under which the rendering is faithful

The literal a float is spelled with must be a Nix float token of the same sign denoting the same
number as the `repr` (true of every Python repr: `Lemmas/Value.lean`, `pyFloatRepr_litOk`), integers
must fit 64 bits. (A negative number may stand anywhere: as a list element it is written in parentheses.) -/

/-- the spelling `floatLiteral r` is a Nix float token, of the sign and the value of `r` -/
def floatLitOk (r : Text) : Bool :=
  isNixFloat (unsignedRepr (floatLiteral r)) &&
  (isNegText (floatLiteral r) == isNegText r) &&
  decide (decValue (unsignedRepr (floatLiteral r)) = decValue (unsignedRepr r))

mutual
def elemReadable : Elem → Bool
  | .none => true
  | .bool _ => true
  | .int i => i.natAbs ≤ nixIntMax
  | .float r => floatLitOk r
  | .str s => !hasInterp s
  | .list xs => elemsReadable xs
def elemsReadable : List Elem → Bool
  | [] => true
  | x :: xs => elemReadable x && elemsReadable xs
end

mutual
def valReadable : PyVal → Bool
  | .elem e => elemReadable e
  | .dict kvs => keysNodup (kvs.map (·.1)) && kvsReadable kvs
def kvsReadable : List (Text × PyVal) → Bool
  | [] => true
  | (k, v) :: rest => isDataKey k && valReadable v && kvsReadable rest
end

mutual
def exprReadable : Expr → Bool
  | .raw e => elemReadable e
  | .aset bs _ => keysNodup (bs.map (·.1)) && bsReadable bs
def bsReadable : List (Text × Expr) → Bool
  | [] => true
  | (k, v) :: rest => isDataKey k && exprReadable v && bsReadable rest
end

def ctxReadable : Ctx → Bool
  | .fromDict d => valReadable (.dict d)
  | .values d => valReadable (.dict d)
  | .binding k v => isDataKey k && valReadable v
  | .list xs => elemsReadable xs
  | .setItem d k v => valReadable (.dict d) && isDataKey k && valReadable v
  | .setItemOn d _ k v => valReadable (.dict d) && isDataKey k && valReadable v

/-! ## What must be refused

Data holding an integer Nix has no literal for (magnitude above `2^63 - 1`). -/

mutual
def dataOutOfRange : Data → Bool
  | .int i => i.natAbs > nixIntMax
  | .list xs => dataListOutOfRange xs
  | .attrs kvs => dataKvsOutOfRange kvs
  | _ => false
def dataListOutOfRange : List Data → Bool
  | [] => false
  | x :: xs => dataOutOfRange x || dataListOutOfRange xs
def dataKvsOutOfRange : List (Text × Data) → Bool
  | [] => false
  | (_, v) :: rest => dataOutOfRange v || dataKvsOutOfRange rest
end

end Nima
