import NimaVerif.Model.FromCst
import NimaVerif.Model.TriviaSpec
/-!
L5 (render side), string level: `rebuild` for the container fragment — a transliteration,
bug-compatible, of the string surgery in

  * `expressions/expression.py`  `NixExpression.add_trivia`
  * `expressions/identifier.py`  `Identifier.rebuild` (leading layout markers dropped at top level)
  * `expressions/list.py`        `NixList.rebuild`, `simple_inline_preview`, `_inline_preview`
  * `expressions/set.py`         `AttributeSet.rebuild`, `_render_bindings`
  * `expressions/binding.py`     `Binding.rebuild`
  * `expressions/source_code.py` `NixSourceCode.rebuild`
  * `expressions/parenthesis.py` `Parenthesis.rebuild`
  * `expressions/function/call.py` `FunctionCall.rebuild`
  * `expressions/select.py`      `Select.rebuild`
  * `expressions/unary.py`       `UnaryExpression.rebuild`
  * `expressions/binary.py`      `BinaryExpression.rebuild`, `_resolve_right_operand`, `_rebuild_operand`,
    `_ensure_indent` (not `_format_chained_binary`: `//` / `++` with the operator on its own line are outside
    `Cst.modelled`)
  * `expressions/if_expression.py` `IfExpression.rebuild`, `expressions/has_attr.py` `HasAttrExpression.rebuild`
  * `expressions/function/definition.py` `FunctionDefinition.rebuild` (identifier argument: `_render_output`,
    `_format_colon_split`)
  * `expressions/with_statement.py` `WithStatement.rebuild`, `expressions/assertion.py` `Assertion.rebuild`
    (one stated deviation each: the trim of `environment.before` / `condition.before` that `rebuild`
    applies to a copy is left out — `from_cst` never writes these fields, they are `[]` on everything
    it builds, `Lemmas/FragParse.lean: cst_parse_spec` —; `Assertion.between` is written into the body
    by `asrtFromCst`)

(`IfExpression` / `HasAttrExpression`: no deviation; the three / two sub-expressions are rendered inline or on their own
line at the indentation read from the gap, the interstitial comments by `format_interstitial_trivia_with_separator`.)

`NixList.multiline` is a `Bool`: `from_cst` always sets it, so `_auto_multiline` returns it (the
inference branch is reachable only for lists built programmatically). `has_scope()` is false for
everything `from_cst` builds in the fragment. Core Lean only.
-/
namespace Nima.Frag

/-- `s.rstrip("\n")` -/
def rstripNL (s : Text) : Text := (s.reverse.dropWhile (· == '\n')).reverse

/-- `NixExpression.add_trivia(rebuild_string, indent, inline)` (`after_str=None`) -/
def addTrivia (before after : List Trivia) (s : Text) (indent : Nat) (inline : Bool) : Text :=
  applyTrailingTrivia (formatTrivia before indent ++ (if inline then [] else spaces indent) ++ s) after indent

/-- `variable_expression` text that `Primitive.from_cst` does not turn into an `Identifier` -/
def isLiteralWord (t : Text) : Bool :=
  t == ['t', 'r', 'u', 'e'] || t == ['f', 'a', 'l', 's', 'e'] || t == ['n', 'u', 'l', 'l']

/-- the `before` list `Identifier.rebuild` renders: at `indent == 0`, not inline, leading layout
    markers are dropped unless nothing else is left -/
def leafBefore (k : LeafKind) (t : Text) (before : List Trivia) (indent : Nat) (inline : Bool) : List Trivia :=
  if k == .ident && !isLiteralWord t && !inline && indent == 0 then
    let trimmed := trimLeadingLayoutTrivia before
    if !trimmed.isEmpty && trimmed != before then trimmed else before
  else before

/-- `MAX_INLINE_LIST_WIDTH` -/
def maxInlineListWidth : Nat := 100

/-- the delimiters of an empty container with inner trivia / of a multi-line container:
    `{before}{indentation}{opener}\n{body}{closing_sep}{' ' * indent}{closer}`; `closing_sep` is
    `"\n"` unless the body ends with a line break (or, for inner trivia only, is empty) -/
def multilineBlock (beforeStr : Text) (opener : Text) (body : Text) (closer : Char) (indent : Nat)
    (inline : Bool) (sepIfEmpty : Bool) : Text :=
  beforeStr ++ (if inline then [] else spaces indent) ++ opener ++ ['\n'] ++ body ++
    (if (body.isEmpty && !sepIfEmpty) || endsWithNL body then [] else ['\n']) ++ spaces indent ++ [closer]

/-- the tail `Binding.rebuild` writes after `…;` -/
def bindingTail (rebuilt : Text) (afterItems : List Trivia) (indent : Nat) : Text :=
  match afterItems with
  | .linebreak :: rest =>
    -- "Preserve an explicit linebreak marker even though it formats as ''."
    let trailing := formatTrivia rest indent
    let trailing := if startsWithNL trailing then trailing else '\n' :: trailing
    let trailing := if endsWithNL trailing then trailing.dropLast else trailing
    rebuilt ++ trailing
  | _ => applyTrailingTrivia rebuilt afterItems indent

/-- `Binding.rebuild`: is the value rendered on its own line? `layout_from_gap(value_gap).on_newline`,
    or a comment in front of an inline value forces it there -/
def bindOnNewline (valueGap : Text) (valueBefore : List Trivia) : Bool :=
  (Layout.fromGap valueGap).onNewline || valueBefore.any Trivia.isComment

/-- `Binding.rebuild`: `val_indent` -/
def bindValIndent (valueGap : Text) (valueBefore : List Trivia) (indent : Nat) : Nat :=
  let layout := Layout.fromGap valueGap
  if !layout.onNewline && valueBefore.any Trivia.isComment then indent + 2
  else if layout.onNewline then layout.indent.getD (indent + 2)
  else indent

/-- `"\n\n" if blank_line else "\n"` -/
def nlSep (blank : Bool) : Text := if blank then ['\n', '\n'] else ['\n']

/-- `FunctionCall.rebuild`: the comments after the function, appended to `function_str` -/
def fnAfterStr (s : Text) : List Comment → Nat → Text
  | [], _ => s
  | c :: rest, indent =>
    if c.inline then fnAfterStr ((if s.getLast? == some ' ' then s else s ++ [' ']) ++ c.rebuild 0) rest indent
    else fnAfterStr ((if endsWithNL s then s else s ++ ['\n']) ++ c.rebuild indent) rest indent

/-- `args_str and not args_str[0].isspace()` -/
def startsNonSpace (s : Text) : Bool :=
  match s with
  | [] => false
  | c :: _ => !isPyWhitespace c

/-- line boundaries of `str.splitlines()` -/
def isLineBoundary (c : Char) : Bool :=
  c = '\n' || c = '\r' || c = '\x0b' || c = '\x0c' || c = '\x1c' || c = '\x1d' || c = '\x1e' ||
  c = '\x85' || c = '\u2028' || c = '\u2029'

/-- `s.splitlines()`: state = (current line, the previous character was `\r`) -/
def pySplitlinesGo : Text → Text → Bool → List Text
  | [], cur, _ => if cur.isEmpty then [] else [cur]
  | c :: rest, cur, prevCR =>
    if prevCR && c = '\n' then pySplitlinesGo rest cur false
    else if isLineBoundary c then cur :: pySplitlinesGo rest [] (c = '\r')
    else pySplitlinesGo rest (cur ++ [c]) false

def pySplitlines (s : Text) : List Text := pySplitlinesGo s [] false

/-- `Assertion.rebuild: inline_is_absorbed(rendered)` -/
def inlineIsAbsorbed (rendered : Text) : Bool :=
  let lines := pySplitlines rendered
  if lines.length ≤ 1 then true
  else ((lines.drop 1).dropLast).all fun line => !(!(strip line).isEmpty && !startsWith [' '] line)

/-- `Assertion.rebuild: trivia_forces_newline(items)` / `WithStatement.rebuild: force_env_newline` -/
def triviaForcesNewline (items : List Trivia) : Bool :=
  items.any fun t => match t with
    | .emptyLine => true
    | .linebreak => true
    | .comment c => !c.inline
    | .comma => false

/-- `item in (linebreak, empty_line) or isinstance(item, Comment)` for some item -/
def hasLayoutOrComment (items : List Trivia) : Bool :=
  items.any fun t => match t with
    | .comma => false
    | _ => true

/-- `WithStatement.rebuild: is_absorbable_term(expr)` (a `NixList` built by `from_cst` has `multiline`
    set; `IndentedString` is outside the fragment) -/
def Expr.absorbable : Expr → Bool
  | .paren v _ _ _ _ _ _ => v.absorbable
  | .list .. => true
  | .set .. => true
  | _ => false

/-- the layout in front of the environment of a `with` -/
def withLayout (awc : List Trivia) (awGap : Text) : Layout :=
  let l0 := Layout.fromGap awGap
  let l1 := if !awc.isEmpty then { l0 with blankLine := false } else l0
  if triviaForcesNewline awc && !l1.onNewline then
    { l1 with onNewline := true, blankLine := awc.any (· == .emptyLine) }
  else l1

/-- `body_force_newline` of `WithStatement.rebuild` -/
def withBodyForce (awc : List Trivia) (asc : List Comment) (bodyBefore : List Trivia) : Bool :=
  !awc.isEmpty || !asc.isEmpty || hasLayoutOrComment bodyBefore

/-- `if indent: if body_str.startswith(" " * indent): body_str = body_str[indent:]` -/
def stripIndentPrefix (s : Text) (indent : Nat) : Text :=
  if indent != 0 && startsWith (spaces indent) s then s.drop indent else s

/-- the layout in front of the condition of an `assert` -/
def asrtLayout (onNL : Bool) (indent : Nat) : Layout :=
  { onNewline := onNL, blankLine := false, indent := if onNL then some (indent + 2) else none }

/-- separator and body of a `with`: an absorbable body without leading trivia stays on the line (its
    indentation prefix cut off); otherwise the body goes on its own line when that is forced or its
    inline rendering spans lines -/
def withBodyPart (force absorbable : Bool) (inlineBody fullBody : Text) (indent : Nat) : Text :=
  if !force && absorbable then [' '] ++ stripIndentPrefix fullBody indent
  else if force || containsNL inlineBody then ['\n'] ++ fullBody
  else [' '] ++ inlineBody

/-- `Select.rebuild`: the text between the expression and `.` — the comments in front of `.` and the
    separator (`attr_sep`, with a leading line break cut off when the expression ends with one) -/
def selSep (exprStr : Text) (attrGap : Text) (attrBefore : List Trivia) (indent : Nat) : Text :=
  let l0 := Layout.fromGap attrGap
  let l := if !attrBefore.isEmpty then { l0 with blankLine := false } else l0
  let attrIndent := if l.onNewline then l.indent.getD indent else indent
  let r := formatInterstitialTriviaWithSeparator attrBefore l attrIndent (dropBlankIfItems := false) (inlineSep := [])
    (stripLeadingNLAfter := some exprStr)
  let sep := if endsWithNL exprStr && startsWithNL r.2 then r.2.drop 1 else r.2
  r.1 ++ sep

/-- `Select.rebuild`: the text between the attrpath and `or` -/
def selOrSep (dfltGap : Text) (dfltBefore : List Trivia) (indent : Nat) : Text :=
  let l := Layout.fromGap dfltGap
  if l.onNewline then
    let dIndent := l.indent.getD (indent + 2)
    let sep : Text := if l.blankLine then ['\n', '\n'] else ['\n']
    -- a first inline comment stays on the line of the attrpath
    let sp : Text × List Trivia := match dfltBefore with
      | .comment c :: rest => if c.inline then ([' '] ++ c.rebuild 0, rest) else ([], dfltBefore)
      | _ => ([], dfltBefore)
    let cs := if sp.2.isEmpty then [] else formatTrivia sp.2 dIndent
    let cs := if !cs.isEmpty && !endsWithNL cs then cs ++ ['\n'] else cs
    sp.1 ++ sep ++ cs ++ spaces dIndent
  else [' ']

/-- the indentation the default of a select is rendered at -/
def selOrIndent (dfltGap : Text) (indent : Nat) : Nat :=
  let l := Layout.fromGap dfltGap
  if l.onNewline then l.indent.getD (indent + 2) else indent

/-- `FunctionDefinition._format_colon_split`: the text between the argument and `:` -/
def lamColonPrefix (bcc : List Trivia) (bcGap : Text) (indent : Nat) : Text :=
  -- (`colon_layout` is computed like the layout in front of the environment of a `with`)
  let r := formatInterstitialTriviaWithSeparator bcc (withLayout bcc bcGap) indent
    (inlineSep := if bcc.isEmpty then [] else [' ']) (dropBlankIfItems := false)
  r.1 ++ r.2

/-- `" "` or `"\n" * breaks_after_semicolon` -/
def lamBreak (breaks : Nat) : Text := if breaks = 0 then [' '] else List.replicate breaks '\n'

/-- `UnaryExpression.rebuild`: the layout in front of the operand (any comment forces a line break) -/
def unLayout (between : List Trivia) (gap : Text) : Layout :=
  let l0 := Layout.fromGap gap
  let l1 := if !between.isEmpty then { l0 with blankLine := false } else l0
  if hasLayoutOrComment between && !l1.onNewline then
    { l1 with onNewline := true, blankLine := between.any (· == .emptyLine) }
  else l1

/-- the text between the operator and the operand -/
def unSep (between : List Trivia) (gap : Text) (indent : Nat) : Text :=
  let r := formatInterstitialTriviaWithSeparator between (unLayout between gap) indent
    (inlineSep := if between.isEmpty then [] else [' ']) (includeIndent := false) (dropBlankIfItems := false)
  r.1 ++ r.2

/-- `_CHAINABLE_OPERATORS` -/
def chainable (op : Text) : Bool :=
  ["++", "//", "+", "&&", "||", "->"].any fun s => s.toList == op

/-- `isinstance(expr.right, BinaryExpression) and expr.right.operator.name == expr.operator.name and
    expr.right.operator_gap_lines` -/
def Expr.sameOpChain : Expr → Text → Bool
  | .bin o _ _ ogl _ _ _, op => o == op && ogl != 0
  | _, _ => false

/-- `_has_leading_comment(expr)` -/
def hasLeadingComment (before : List Trivia) : Bool :=
  before.any fun t => match t with
    | .comment c => !c.inline
    | _ => false

/-- `_resolve_right_operand`: the indentation of the right operand -/
def binRightIndent (op : Text) (right : Expr) (indent : Nat) : Nat :=
  if chainable op then
    if right.sameOpChain op then indent
    else if right.absorbable && !hasLeadingComment right.before then indent
    else indent + 2
  else indent

/-- `_ensure_indent(text, indent)`: how many spaces are put in front -/
def ensureIndentPad (text : Text) (indent : Nat) : Nat :=
  if text.isEmpty then 0
  else
    let first := text.takeWhile (· != '\n')
    if first.isEmpty then 0
    else
      let leading := (first.takeWhile (· == ' ')).length
      if leading < indent then indent - leading else 0

/-- `BinaryExpression.rebuild` (not chained): left, operator and right in the four layouts -/
def binCore (leftStr rightOwn rightInl op : Text) (ogl rgl indent : Nat) : Text :=
  if ogl != 0 then
    if rgl != 0 then
      leftStr ++ List.replicate ogl '\n' ++ spaces indent ++ op ++ List.replicate rgl '\n' ++ rightOwn
    else leftStr ++ List.replicate ogl '\n' ++ spaces indent ++ op ++ [' '] ++ rightInl
  else if rgl != 0 then leftStr ++ [' '] ++ op ++ List.replicate rgl '\n' ++ rightOwn
  else leftStr ++ [' '] ++ op ++ [' '] ++ rightInl

/-- `IfExpression.rebuild: layout_without_blank_line(layout_from_gap(gap), has_comments=…)` -/
def iteLayout (gap : Text) (hasComments : Bool) : Layout :=
  let l := Layout.fromGap gap
  if hasComments then { l with blankLine := false } else l

/-- `render_branch`: the separator between `then` / `else` and the branch -/
def branchSep (l : Layout) : Text :=
  if l.onNewline then (if l.blankLine then ['\n', '\n'] else ['\n']) else [' ']

/-- `has_then_comments` / `has_else_comments` -/
def branchHasComments (inl : List Comment) (branchBefore : List Trivia) : Bool :=
  !inl.isEmpty || branchBefore.any Trivia.isComment

/-- the text between `if` and the condition (`condStr`: the rendered condition) -/
def iteCondPrefix (aic : List Trivia) (aiGap : Text) (condIndent : Nat) (condStr : Text) : Text :=
  let r := formatInterstitialTriviaWithSeparator aic (iteLayout aiGap (!aic.isEmpty)) condIndent (inlineNL := true)
    (includeIndent := false) (dropBlankIfItems := false) (stripLeadingNLAfter := some condStr)
  r.1 ++ r.2

/-- the text between the condition and `then` / between the consequence and `else` (`prevStr`: the text
    rendered in front of it) -/
def iteKwPrefix (cs : List Trivia) (gap : Text) (indent : Nat) (prevStr : Text) : Text :=
  let r := formatInterstitialTriviaWithSeparator cs (iteLayout gap (!cs.isEmpty)) indent (inlineNL := true)
    (dropBlankIfItems := false) (stripLeadingNLAfter := some prevStr)
  r.1 ++ r.2

def kwIf : Text := ['i', 'f']
def kwThen : Text := ['t', 'h', 'e', 'n']
def kwElse : Text := ['e', 'l', 's', 'e']

def kwWith : Text := ['w', 'i', 't', 'h']
def kwAssert : Text := ['a', 's', 's', 'e', 'r', 't']

mutual
/-- `expr.rebuild(indent, inline)`; with `noAfter` the expression is rendered as
    `expr.model_copy(update={"after": []})` (what `Binding.rebuild` does to its value) -/
def Expr.rebuildA : Expr → Bool → Nat → Bool → Text
  | .leaf k t before after, noAfter, indent, inline =>
    addTrivia (leafBefore k t before indent inline) (if noAfter then [] else after) t indent inline
  | .list value multiline inner before after, noAfter, indent, inline =>
    let after := if noAfter then [] else after
    let beforeStr := formatTrivia before indent
    let indented := if multiline then indent + 2 else indent
    match value with
    | [] =>
      if !inner.isEmpty then
        applyTrailingTrivia
          (multilineBlock beforeStr ['['] (formatTrivia inner (indent + 2)) ']' indent inline false) after indent
      else
        applyTrailingTrivia (beforeStr ++ (if inline then [] else spaces indent) ++ ['[', ' ', ']']) after indent
    | _ :: _ =>
      let items := rebuildAll value indented (!multiline)
      if multiline then
        applyTrailingTrivia
          (beforeStr ++ multilineBlock [] ['['] (joinWith ['\n'] items) ']' indent inline true) after indent
      else
        applyTrailingTrivia
          (beforeStr ++ (if inline then [] else spaces indent) ++ ['[', ' '] ++ joinWith [' '] items ++ [' ', ']'])
          after indent
  | .set values multiline recursive inner before after, noAfter, indent, inline =>
    let after := if noAfter then [] else after
    let pre : Text := if recursive then ['r', 'e', 'c', ' '] else []
    match values with
    | [] =>
      if !inner.isEmpty then
        applyTrailingTrivia
          (multilineBlock (formatTrivia before indent) (pre ++ ['{']) (formatTrivia inner (indent + 2)) '}'
            indent inline false) after indent
      else addTrivia before after (pre ++ ['{', ' ', '}']) indent inline
    | _ :: _ =>
      if multiline then
        applyTrailingTrivia
          (multilineBlock (formatTrivia before indent) (pre ++ ['{'])
            (joinWith ['\n'] (rebuildAll values (indent + 2) false)) '}' indent inline true) after indent
      else
        addTrivia before after
          (pre ++ ['{', ' '] ++ joinWith [' '] (rebuildAll values (indent + 2) true) ++ [' ', '}']) indent inline
  | .binding name value valueGap before after, noAfter, indent, inline =>
    let after := if noAfter then [] else after
    let onNewline := bindOnNewline valueGap value.before
    let valIndent := bindValIndent valueGap value.before indent
    let valueStr :=
      (if onNewline then none else value.preview valIndent).getD (value.rebuildA true valIndent (!onNewline))
    let core := name ++ [' ', '='] ++ (if onNewline then ['\n'] else [' ']) ++ rstripNL valueStr ++ [';']
    let rebuilt := formatTrivia before indent ++ (if inline then [] else spaces indent) ++ core
    bindingTail rebuilt (value.after ++ after) indent
  | .paren value lg tg lb tb before after, noAfter, indent, inline =>
    let after := if noAfter then [] else after
    -- leading_layout / trailing_layout: `layout_from_gap(gap)` with `blank_line` replaced by the flag.
    -- (`multiline = leading.on_newline or trailing.on_newline`; when it is false both branches below
    -- are the inline rendering, which is what the Python's `else` branch writes.)
    let ll := Layout.fromGap lg
    let tl := Layout.fromGap tg
    let inner :=
      if ll.onNewline then nlSep lb ++ value.rebuildA false (ll.indent.getD (indent + 2)) false
      else value.rebuildA false indent true
    let inner := if tl.onNewline then inner ++ nlSep tb ++ spaces indent else inner
    addTrivia before after ('(' :: inner ++ [')']) indent inline
  | .app name arg argGap fnAfter before after, noAfter, indent, inline =>
    let after := if noAfter then [] else after
    let fnStr := fnAfterStr (name.rebuildA false indent true) fnAfter indent
    let layout := Layout.fromGap argGap
    let argIndent := if layout.onNewline then layout.indent.getD (indent + 2) else indent
    -- (the trim of `argument.before` is applied by `appFromCst`)
    let argsStr := arg.rebuildA false argIndent (!layout.onNewline)
    let argsStr := if layout.onNewline && startsNonSpace argsStr then spaces argIndent ++ argsStr else argsStr
    let sep : Text := if layout.blankLine then ['\n', '\n'] else if layout.onNewline then ['\n'] else [' ']
    addTrivia before after (fnStr ++ sep ++ argsStr) indent inline
  | .wth env body awc awGap asc before after, noAfter, indent, inline =>
    let after := if noAfter then [] else after
    let awl := withLayout awc awGap
    -- (the trim of `environment.before` is the identity on what `from_cst` builds)
    let envStr :=
      if awl.onNewline then env.rebuildA false (awl.indent.getD indent) false else env.rebuildA false indent true
    let r := formatInterstitialTriviaWithSeparator awc awl indent (includeIndent := false) (dropBlankIfItems := false)
    let force := withBodyForce awc asc body.before
    addTrivia before after
      (kwWith ++ r.1 ++ r.2 ++ envStr ++ [';'] ++ formatInlineCommentSuffix asc ++
        withBodyPart force body.absorbable (body.rebuildA false indent true) (body.rebuildA false indent false) indent)
      indent inline
  | .asrt cond body aac bsc before after, noAfter, indent, inline =>
    let after := if noAfter then [] else after
    let condInline := cond.rebuildA false indent true
    let onNL := triviaForcesNewline aac || !inlineIsAbsorbed condInline
    let condIndent := if onNL then indent + 2 else indent
    -- (the trim of `condition.before` is the identity on what `from_cst` builds)
    let condStr := if onNL then cond.rebuildA false (indent + 2) false else condInline
    let r1 := formatInterstitialTriviaWithSeparator aac (asrtLayout onNL indent) condIndent (includeIndent := false)
      (stripLeadingNLAfter := some condStr)
    let r2 : Text × Text :=
      if bsc.isEmpty then ([], [])
      else formatInterstitialTriviaWithSeparator bsc { onNewline := true, blankLine := false, indent := some indent }
        indent (inlineSep := [' ']) (stripLeadingNLAfter := some condStr)
    let line := addTrivia before after (kwAssert ++ r1.1 ++ r1.2 ++ condStr ++ r2.1 ++ r2.2 ++ [';']) indent inline
    -- (`between` is part of `body.before`: `asrtFromCst`)
    line ++ (if endsWithNL line then [] else ['\n']) ++ body.rebuildA false indent false
  | .sel expr attrs attrGap attrBefore before after, noAfter, indent, inline =>
    let after := if noAfter then [] else after
    let exprStr := expr.rebuildA false indent true
    addTrivia before after (exprStr ++ selSep exprStr attrGap attrBefore indent ++ '.' :: attrText attrs) indent inline
  | .selOr expr attrs attrGap attrBefore dflt dfltGap dfltBefore before after, noAfter, indent, inline =>
    let after := if noAfter then [] else after
    let exprStr := expr.rebuildA false indent true
    addTrivia before after
      (exprStr ++ selSep exprStr attrGap attrBefore indent ++ '.' :: attrText attrs ++
        selOrSep dfltGap dfltBefore indent ++ ['o', 'r', ' '] ++ dflt.rebuildA false (selOrIndent dfltGap indent) true)
      indent inline
  | .lam name bcc bcGap breaks body before after, noAfter, indent, inline =>
    let after := if noAfter then [] else after
    addTrivia before after
      (name ++ lamColonPrefix bcc bcGap indent ++ [':'] ++ lamBreak breaks ++ body.rebuildA false indent (breaks == 0))
      indent inline
  | .un op expr gap between before after, noAfter, indent, inline =>
    let after := if noAfter then [] else after
    let l := unLayout between gap
    let exprStr := if l.onNewline then expr.rebuildA false (l.indent.getD indent) false else expr.rebuildA false indent true
    let base : Text := if op == ['+', '+'] && !inline then ['\n'] ++ spaces indent ++ op else op
    addTrivia before after (base ++ unSep between gap indent ++ exprStr) indent inline
  | .bin op left right ogl rgl before after, noAfter, indent, inline =>
    let after := if noAfter then [] else after
    let leftStr := left.rebuildA false indent true
    -- (`Operator.rebuild(indent)` = `" " * indent + name`: the operator carries no trivia)
    let rightIndent := binRightIndent op right indent
    -- `_rebuild_operand(right, indent=right_indent, inline=True)`: an operand with leading trivia is rendered
    -- on its own line; then `_ensure_indent`
    let rightOwn := right.rebuildA false rightIndent (right.before.isEmpty)
    let rightOwn := spaces (ensureIndentPad rightOwn rightIndent) ++ rightOwn
    addTrivia before after (binCore leftStr rightOwn (right.rebuildA false indent true) op ogl rgl indent) indent inline
  | .ite cond thn els condGap aic aiGap btc btGap atc thenGap bec beGap aec elseGap before after, noAfter, indent, inline =>
    let after := if noAfter then [] else after
    let cl := Layout.fromGap condGap
    let tl := iteLayout thenGap (branchHasComments atc thn.before)
    let el := iteLayout elseGap (branchHasComments aec els.before)
    let condStr :=
      if cl.onNewline then cond.rebuildA false (cl.indent.getD indent) false else cond.rebuildA false indent true
    let thenStr :=
      if tl.onNewline then thn.rebuildA false (tl.indent.getD indent) false else thn.rebuildA false indent true
    let elseStr :=
      if el.onNewline then els.rebuildA false (el.indent.getD indent) false else els.rebuildA false indent true
    addTrivia before after
      (kwIf ++ iteCondPrefix aic aiGap (if cl.onNewline then cl.indent.getD indent else indent) condStr ++ condStr ++
        iteKwPrefix btc btGap indent condStr ++ kwThen ++ formatInlineCommentSuffix atc ++ branchSep tl ++ thenStr ++
        iteKwPrefix bec beGap indent thenStr ++ kwElse ++ formatInlineCommentSuffix aec ++ branchSep el ++ elseStr)
      indent inline
  | .has expr attrs leftGap rightGap bqc aqc before after, noAfter, indent, inline =>
    let after := if noAfter then [] else after
    -- (`left_layout` / `right_layout` are computed like the layout in front of the operand of a unary operator)
    let r1 := formatInterstitialTriviaWithSeparator bqc (unLayout bqc leftGap) indent (dropBlankIfItems := false)
    let r2 := formatInterstitialTriviaWithSeparator aqc (unLayout aqc rightGap) indent (dropBlankIfItems := false)
    addTrivia before after
      (expr.rebuildA false indent true ++ r1.1 ++ r1.2 ++ ['?'] ++ r2.1 ++ r2.2 ++ attrText attrs) indent inline
/-- `[item.rebuild(indent, inline) for item in items]` -/
def rebuildAll : List Expr → Nat → Bool → List Text
  | [], _, _ => []
  | e :: rest, indent, inline => e.rebuildA false indent inline :: rebuildAll rest indent inline
/-- `isinstance(expr, NixList) and expr.simple_inline_preview(indent=…)` for the value of a
    binding (whose `after` has been emptied) -/
def Expr.preview : Expr → Nat → Option Text
  | .list value multiline inner before _, indent =>
    if multiline then none
    else if !before.isEmpty || !inner.isEmpty then none
    else if value.length > 1 then none
    else
      let p : Text :=
        match value with
        | [] => ['[', ' ', ']']
        | _ :: _ => ['[', ' '] ++ joinWith [' '] (rebuildAll value indent true) ++ [' ', ']']
      if containsNL p || p.length > maxInlineListWidth then none else some p
  | _, _ => none
end

/-- `expr.rebuild(indent, inline)` -/
def Expr.rebuild (e : Expr) (indent : Nat := 0) (inline : Bool := false) : Text :=
  e.rebuildA false indent inline

/-- `NixSourceCode.rebuild()` -/
def Src.rebuild (s : Src) : Text :=
  let rebuilt := (rebuildAll s.exprs 0 false).flatten
  if s.trailing.isEmpty then rebuilt
  else
    let trailingStr := trimTrailingLayoutNewline s.trailing (formatTrivia s.trailing 0)
    if !trailingStr.isEmpty then rebuilt ++ (if rebuilt.isEmpty then [] else ['\n']) ++ trailingStr
    else if (match s.trailing.getLast? with | some t => t.isLayout | none => false) then
      rebuilt ++ (if endsWithNL rebuilt then [] else ['\n'])
    else rebuilt

/-- parse, then rebuild: the round trip of a file -/
def File.roundtrip (f : File) : Except Err Text :=
  match f.parse with
  | .error e => .error e
  | .ok s => .ok s.rebuild

end Nima.Frag

/-! ## Piece level

The same renderer returning pieces — code tokens, comment tokens, whitespace — instead of text.
Every definition mirrors its string twin above operation by operation (tests on already rendered
text become tests on the concatenation of the pieces; the three places where rendered text is cut
— `rstrip("\n")`, `[:-1]`, `trim_trailing_layout_newline` — are the generic `rstripNLP` /
`dropLastCharP`), so that `concat (rebuildP e i b) = rebuild e i b` holds for EVERY expression
(`Lemmas/Frag.lean: concat_rebuildP`). What the cuts do on the image of `fromCst` is a theorem. -/

namespace Nima.Frag

/-- an output piece: code token, comment token, or whitespace written by the formatter -/
inductive FP where
  | tok (s : Text)
  | cmt (s : Text)
  | ws (s : Text)
deriving DecidableEq, Repr

def FP.text : FP → Text
  | .tok s => s
  | .cmt s => s
  | .ws s => s

def FP.withText : FP → Text → FP
  | .tok _, s => .tok s
  | .cmt _, s => .cmt s
  | .ws _, s => .ws s

def concat (ps : List FP) : Text := ps.flatMap FP.text

/-- `sep.join(parts)` on piece lists -/
def joinP (sep : List FP) : List (List FP) → List FP
  | [] => []
  | [x] => x
  | x :: y :: rest => x ++ sep ++ joinP sep (y :: rest)

/-- remove the last character of the concatenation (`s[:-1]`) -/
def dropLastCharP : List FP → List FP
  | [] => []
  | p :: rest =>
    if (concat rest).isEmpty then
      (if p.text.length ≤ 1 then [] else [p.withText p.text.dropLast])
    else p :: dropLastCharP rest

/-- `s.rstrip("\n")` on the concatenation -/
def rstripNLP : List FP → List FP
  | [] => []
  | p :: rest =>
    if (concat rest).all (· == '\n') then
      (if (rstripNL p.text).isEmpty then [] else [p.withText (rstripNL p.text)])
    else p :: rstripNLP rest

/-- `Comment.rebuild(indent)`: indentation run, comment token -/
def cmtP (c : Comment) (indent : Nat) : List FP :=
  [.ws (spaces (c.effIndent indent)), .cmt (c.token (c.effIndent indent))]

/-- `format_trivia`, loop state (pieces so far, ends_with_newline) -/
def fmtGoP (indent : Nat) : List Trivia → List FP → Bool → List FP
  | [], acc, _ => acc
  | .emptyLine :: rest, acc, _ => fmtGoP indent rest (acc ++ [.ws ['\n']]) true
  | .linebreak :: rest, acc, e => fmtGoP indent rest acc e
  | .comma :: rest, acc, e =>
    let acc1 := if ((concat acc).isEmpty || e) && indent > 0 then acc ++ [.ws (spaces indent)] else acc
    let acc2 := acc1 ++ [.tok [',']]
    match rest with
    | .comment c :: _ =>
      if c.inline then fmtGoP indent rest (acc2 ++ [.ws [' ']]) false
      else fmtGoP indent rest acc2 false
    | .linebreak :: _ => fmtGoP indent rest (acc2 ++ [.ws ['\n']]) true
    | [] => fmtGoP indent rest (acc2 ++ [.ws ['\n']]) true
    | _ => fmtGoP indent rest acc2 false
  | .comment c :: rest, acc, _ => fmtGoP indent rest (acc ++ cmtP c indent ++ [.ws ['\n']]) true

def fmtP (ts : List Trivia) (indent : Nat) : List FP := fmtGoP indent ts [] true

/-- `trim_trailing_layout_newline(ts, rendered)` -/
def trimP (ts : List Trivia) (ps : List FP) : List FP :=
  match ts.getLast? with
  | some t => if !t.isLayout && endsWithNL (concat ps) then dropLastCharP ps else ps
  | none => ps

/-- `f"\n{s}" if s else ""` -/
def nlBlockP (ps : List FP) : List FP := if (concat ps).isEmpty then [] else .ws ['\n'] :: ps

/-- what `apply_trailing_trivia(rebuilt, after, indent)` appends to `rebuilt` -/
def trailP (after : List Trivia) (indent : Nat) : List FP :=
  match after with
  | [] => []
  | .comment c :: rest =>
    if c.inline then .ws [' '] :: cmtP c 0 ++ nlBlockP (trimP after (fmtP rest indent))
    else nlBlockP (trimP after (fmtP after indent))
  | _ => nlBlockP (trimP after (fmtP after indent))

def indentP (indent : Nat) (inline : Bool) : List FP := if inline then [] else [.ws (spaces indent)]

def addTriviaP (before after : List Trivia) (core : List FP) (indent : Nat) (inline : Bool) : List FP :=
  fmtP before indent ++ indentP indent inline ++ core ++ trailP after indent

def multilineBlockP (beforeP opener body : List FP) (closer : Char) (indent : Nat) (inline : Bool)
    (sepIfEmpty : Bool) : List FP :=
  beforeP ++ indentP indent inline ++ opener ++ [.ws ['\n']] ++ body ++
    (if ((concat body).isEmpty && !sepIfEmpty) || endsWithNL (concat body) then [] else [.ws ['\n']]) ++
    [.ws (spaces indent), .tok [closer]]

def bindingTailP (afterItems : List Trivia) (indent : Nat) : List FP :=
  match afterItems with
  | .linebreak :: rest =>
    let trailing := fmtP rest indent
    let trailing := if startsWithNL (concat trailing) then trailing else .ws ['\n'] :: trailing
    if endsWithNL (concat trailing) then dropLastCharP trailing else trailing
  | _ => trailP afterItems indent

def recP (recursive : Bool) : List FP := if recursive then [.tok ['r', 'e', 'c'], .ws [' ']] else []

/-- `fnAfterStr` on pieces -/
def fnAfterP (acc : List FP) : List Comment → Nat → List FP
  | [], _ => acc
  | c :: rest, indent =>
    if c.inline then
      fnAfterP (acc ++ (if (concat acc).getLast? == some ' ' then [] else [.ws [' ']]) ++ cmtP c 0) rest indent
    else
      fnAfterP (acc ++ (if endsWithNL (concat acc) then [] else [.ws ['\n']]) ++ cmtP c indent) rest indent

/-- `s[n:]` on the concatenation -/
def dropCharsP : List FP → Nat → List FP
  | [], _ => []
  | p :: rest, n =>
    if n = 0 then p :: rest
    else if p.text.length ≤ n then dropCharsP rest (n - p.text.length)
    else p.withText (p.text.drop n) :: rest

def stripIndentPrefixP (ps : List FP) (indent : Nat) : List FP :=
  if indent != 0 && startsWith (spaces indent) (concat ps) then dropCharsP ps indent else ps

/-- the tokens of `.a₁.a₂.….aₙ` -/
def attrP : List Text → List FP
  | [] => []
  | [a] => [.tok a]
  | a :: rest => .tok a :: .tok ['.'] :: attrP rest

def binCoreP (leftP rightOwn rightInl : List FP) (op : Text) (ogl rgl indent : Nat) : List FP :=
  if ogl != 0 then
    if rgl != 0 then
      leftP ++ [.ws (List.replicate ogl '\n' ++ spaces indent), .tok op, .ws (List.replicate rgl '\n')] ++ rightOwn
    else leftP ++ [.ws (List.replicate ogl '\n' ++ spaces indent), .tok op, .ws [' ']] ++ rightInl
  else if rgl != 0 then leftP ++ [.ws [' '], .tok op, .ws (List.replicate rgl '\n')] ++ rightOwn
  else leftP ++ [.ws [' '], .tok op, .ws [' ']] ++ rightInl

def withBodyPartP (force absorbable : Bool) (inlineBody fullBody : List FP) (indent : Nat) : List FP :=
  if !force && absorbable then .ws [' '] :: stripIndentPrefixP fullBody indent
  else if force || containsNL (concat inlineBody) then .ws ['\n'] :: fullBody
  else .ws [' '] :: inlineBody

mutual
def Expr.rebuildAP : Expr → Bool → Nat → Bool → List FP
  | .leaf k t before after, noAfter, indent, inline =>
    addTriviaP (leafBefore k t before indent inline) (if noAfter then [] else after) [.tok t] indent inline
  | .list value multiline inner before after, noAfter, indent, inline =>
    let after := if noAfter then [] else after
    let beforeP := fmtP before indent
    let indented := if multiline then indent + 2 else indent
    match value with
    | [] =>
      if !inner.isEmpty then
        multilineBlockP beforeP [.tok ['[']] (fmtP inner (indent + 2)) ']' indent inline false ++ trailP after indent
      else
        beforeP ++ indentP indent inline ++ [.tok ['['], .ws [' '], .tok [']']] ++ trailP after indent
    | _ :: _ =>
      let items := rebuildAllP value indented (!multiline)
      if multiline then
        beforeP ++ multilineBlockP [] [.tok ['[']] (joinP [.ws ['\n']] items) ']' indent inline true ++
          trailP after indent
      else
        beforeP ++ indentP indent inline ++ [.tok ['['], .ws [' ']] ++ joinP [.ws [' ']] items ++
          [.ws [' '], .tok [']']] ++ trailP after indent
  | .set values multiline recursive inner before after, noAfter, indent, inline =>
    let after := if noAfter then [] else after
    let pre := recP recursive
    match values with
    | [] =>
      if !inner.isEmpty then
        multilineBlockP (fmtP before indent) (pre ++ [.tok ['{']]) (fmtP inner (indent + 2)) '}' indent inline
          false ++ trailP after indent
      else addTriviaP before after (pre ++ [.tok ['{'], .ws [' '], .tok ['}']]) indent inline
    | _ :: _ =>
      if multiline then
        multilineBlockP (fmtP before indent) (pre ++ [.tok ['{']])
          (joinP [.ws ['\n']] (rebuildAllP values (indent + 2) false)) '}' indent inline true ++
          trailP after indent
      else
        addTriviaP before after
          (pre ++ [.tok ['{'], .ws [' ']] ++ joinP [.ws [' ']] (rebuildAllP values (indent + 2) true) ++
            [.ws [' '], .tok ['}']]) indent inline
  | .binding name value valueGap before after, noAfter, indent, inline =>
    let after := if noAfter then [] else after
    let onNewline := bindOnNewline valueGap value.before
    let valIndent := bindValIndent valueGap value.before indent
    let valueP :=
      (if onNewline then none else value.previewP valIndent).getD (value.rebuildAP true valIndent (!onNewline))
    fmtP before indent ++ indentP indent inline ++
      [.tok name, .ws [' '], .tok ['='], .ws (if onNewline then ['\n'] else [' '])] ++ rstripNLP valueP ++
      [.tok [';']] ++ bindingTailP (value.after ++ after) indent
  | .paren value lg tg lb tb before after, noAfter, indent, inline =>
    let after := if noAfter then [] else after
    let ll := Layout.fromGap lg
    let tl := Layout.fromGap tg
    let inner :=
      if ll.onNewline then .ws (nlSep lb) :: value.rebuildAP false (ll.indent.getD (indent + 2)) false
      else value.rebuildAP false indent true
    let inner := if tl.onNewline then inner ++ [.ws (nlSep tb ++ spaces indent)] else inner
    addTriviaP before after (.tok ['('] :: inner ++ [.tok [')']]) indent inline
  | .app name arg argGap fnAfter before after, noAfter, indent, inline =>
    let after := if noAfter then [] else after
    let fnP := fnAfterP (name.rebuildAP false indent true) fnAfter indent
    let layout := Layout.fromGap argGap
    let argIndent := if layout.onNewline then layout.indent.getD (indent + 2) else indent
    let argsP := arg.rebuildAP false argIndent (!layout.onNewline)
    let argsP := if layout.onNewline && startsNonSpace (concat argsP) then .ws (spaces argIndent) :: argsP else argsP
    let sep : Text := if layout.blankLine then ['\n', '\n'] else if layout.onNewline then ['\n'] else [' ']
    addTriviaP before after (fnP ++ .ws sep :: argsP) indent inline
  -- `with` / `assert`: the interstitial trivia (comments between the keyword and the head, around `;`)
  -- are written as ONE whitespace piece: exact as text for every expression; as a labelling exact for
  -- the expressions `fromCst` builds from well-formed trees, whose lists hold layout markers only
  | .wth env body awc awGap asc before after, noAfter, indent, inline =>
    let after := if noAfter then [] else after
    let awl := withLayout awc awGap
    let envP :=
      if awl.onNewline then env.rebuildAP false (awl.indent.getD indent) false else env.rebuildAP false indent true
    let r := formatInterstitialTriviaWithSeparator awc awl indent (includeIndent := false) (dropBlankIfItems := false)
    let force := withBodyForce awc asc body.before
    addTriviaP before after
      ([.tok kwWith, .ws (r.1 ++ r.2)] ++ envP ++ [.tok [';'], .ws (formatInlineCommentSuffix asc)] ++
        withBodyPartP force body.absorbable (body.rebuildAP false indent true) (body.rebuildAP false indent false) indent)
      indent inline
  | .asrt cond body aac bsc before after, noAfter, indent, inline =>
    let after := if noAfter then [] else after
    let condInline := cond.rebuildAP false indent true
    let onNL := triviaForcesNewline aac || !inlineIsAbsorbed (concat condInline)
    let condIndent := if onNL then indent + 2 else indent
    let condP := if onNL then cond.rebuildAP false (indent + 2) false else condInline
    let r1 := formatInterstitialTriviaWithSeparator aac (asrtLayout onNL indent) condIndent (includeIndent := false)
      (stripLeadingNLAfter := some (concat condP))
    let r2 : Text × Text :=
      if bsc.isEmpty then ([], [])
      else formatInterstitialTriviaWithSeparator bsc { onNewline := true, blankLine := false, indent := some indent }
        indent (inlineSep := [' ']) (stripLeadingNLAfter := some (concat condP))
    let line := addTriviaP before after
      ([.tok kwAssert, .ws (r1.1 ++ r1.2)] ++ condP ++ [.ws (r2.1 ++ r2.2), .tok [';']]) indent inline
    line ++ [.ws (if endsWithNL (concat line) then [] else ['\n'])] ++ body.rebuildAP false indent false
  -- (the comments in front of `.` are written as one whitespace piece with the separator, as for `with`)
  | .sel expr attrs attrGap attrBefore before after, noAfter, indent, inline =>
    let after := if noAfter then [] else after
    let exprP := expr.rebuildAP false indent true
    addTriviaP before after
      (exprP ++ [.ws (selSep (concat exprP) attrGap attrBefore indent), .tok ['.']] ++ attrP attrs) indent inline
  | .selOr expr attrs attrGap attrBefore dflt dfltGap dfltBefore before after, noAfter, indent, inline =>
    let after := if noAfter then [] else after
    let exprP := expr.rebuildAP false indent true
    addTriviaP before after
      (exprP ++ [.ws (selSep (concat exprP) attrGap attrBefore indent), .tok ['.']] ++ attrP attrs ++
        [.ws (selOrSep dfltGap dfltBefore indent), .tok ['o', 'r'], .ws [' ']] ++
        dflt.rebuildAP false (selOrIndent dfltGap indent) true) indent inline
  | .lam name bcc bcGap breaks body before after, noAfter, indent, inline =>
    let after := if noAfter then [] else after
    addTriviaP before after
      ([.tok name, .ws (lamColonPrefix bcc bcGap indent), .tok [':'], .ws (lamBreak breaks)] ++
        body.rebuildAP false indent (breaks == 0)) indent inline
  | .un op expr gap between before after, noAfter, indent, inline =>
    let after := if noAfter then [] else after
    let l := unLayout between gap
    let exprP := if l.onNewline then expr.rebuildAP false (l.indent.getD indent) false else expr.rebuildAP false indent true
    let base : List FP := if op == ['+', '+'] && !inline then [.ws (['\n'] ++ spaces indent), .tok op] else [.tok op]
    addTriviaP before after (base ++ [.ws (unSep between gap indent)] ++ exprP) indent inline
  | .bin op left right ogl rgl before after, noAfter, indent, inline =>
    let after := if noAfter then [] else after
    let leftP := left.rebuildAP false indent true
    let rightIndent := binRightIndent op right indent
    let rightOwn := right.rebuildAP false rightIndent (right.before.isEmpty)
    let rightOwn := .ws (spaces (ensureIndentPad (concat rightOwn) rightIndent)) :: rightOwn
    addTriviaP before after (binCoreP leftP rightOwn (right.rebuildAP false indent true) op ogl rgl indent) indent inline
  -- (interstitial comments are written as one whitespace piece with the separator, as for `with`)
  | .ite cond thn els condGap aic aiGap btc btGap atc thenGap bec beGap aec elseGap before after, noAfter, indent, inline =>
    let after := if noAfter then [] else after
    let cl := Layout.fromGap condGap
    let tl := iteLayout thenGap (branchHasComments atc thn.before)
    let el := iteLayout elseGap (branchHasComments aec els.before)
    let condP :=
      if cl.onNewline then cond.rebuildAP false (cl.indent.getD indent) false else cond.rebuildAP false indent true
    let thenP :=
      if tl.onNewline then thn.rebuildAP false (tl.indent.getD indent) false else thn.rebuildAP false indent true
    let elseP :=
      if el.onNewline then els.rebuildAP false (el.indent.getD indent) false else els.rebuildAP false indent true
    addTriviaP before after
      ([.tok kwIf, .ws (iteCondPrefix aic aiGap (if cl.onNewline then cl.indent.getD indent else indent) (concat condP))] ++
        condP ++ [.ws (iteKwPrefix btc btGap indent (concat condP)), .tok kwThen,
          .ws (formatInlineCommentSuffix atc ++ branchSep tl)] ++ thenP ++
        [.ws (iteKwPrefix bec beGap indent (concat thenP)), .tok kwElse,
          .ws (formatInlineCommentSuffix aec ++ branchSep el)] ++ elseP)
      indent inline
  | .has expr attrs leftGap rightGap bqc aqc before after, noAfter, indent, inline =>
    let after := if noAfter then [] else after
    let r1 := formatInterstitialTriviaWithSeparator bqc (unLayout bqc leftGap) indent (dropBlankIfItems := false)
    let r2 := formatInterstitialTriviaWithSeparator aqc (unLayout aqc rightGap) indent (dropBlankIfItems := false)
    addTriviaP before after
      (expr.rebuildAP false indent true ++ [.ws (r1.1 ++ r1.2), .tok ['?'], .ws (r2.1 ++ r2.2)] ++ attrP attrs) indent inline
def rebuildAllP : List Expr → Nat → Bool → List (List FP)
  | [], _, _ => []
  | e :: rest, indent, inline => e.rebuildAP false indent inline :: rebuildAllP rest indent inline
def Expr.previewP : Expr → Nat → Option (List FP)
  | .list value multiline inner before _, indent =>
    if multiline then none
    else if !before.isEmpty || !inner.isEmpty then none
    else if value.length > 1 then none
    else
      let p : List FP :=
        match value with
        | [] => [.tok ['['], .ws [' '], .tok [']']]
        | _ :: _ => [.tok ['['], .ws [' ']] ++ joinP [.ws [' ']] (rebuildAllP value indent true) ++
            [.ws [' '], .tok [']']]
      if containsNL (concat p) || (concat p).length > maxInlineListWidth then none else some p
  | _, _ => none
end

/-- `rebuildP e indent inline`: the pieces of `e.rebuild(indent, inline)` -/
def Expr.rebuildP (e : Expr) (indent : Nat := 0) (inline : Bool := false) : List FP :=
  e.rebuildAP false indent inline

def Src.rebuildP (s : Src) : List FP :=
  let rebuilt := (rebuildAllP s.exprs 0 false).flatten
  if s.trailing.isEmpty then rebuilt
  else
    let trailingP := trimP s.trailing (fmtP s.trailing 0)
    if !(concat trailingP).isEmpty then
      rebuilt ++ (if (concat rebuilt).isEmpty then [] else [.ws ['\n']]) ++ trailingP
    else if (match s.trailing.getLast? with | some t => t.isLayout | none => false) then
      rebuilt ++ (if endsWithNL (concat rebuilt) then [] else [.ws ['\n']])
    else rebuilt

end Nima.Frag
